#!/bin/sh
# usage: tools_confirm_mutant.sh <worktree> <outdir> : confirms demo passes clean / fails patched, tests pass patched; prints one line
W="$1"; O="$2"
cd "$W" && git checkout -q -- . 
PYTHONPATH="$W" /venv/bin/python "$O/demo.py" >/dev/null 2>&1; clean=$?
git apply "$O/patch.diff" || { echo "NOAPPLY"; exit 1; }
PYTHONPATH="$W" /venv/bin/python "$O/demo.py" >/dev/null 2>&1; patched=$?
t=$(OMP_NUM_THREADS=2 PYTHONPATH="$W" /venv/bin/python -m pytest -q -p no:cacheprovider tests --deselect tests/transforms/linear_test.py::NaiveLinearTest --deselect tests/utils/torchutils_test.py::TorchUtilsTest::test_random_orthogonal 2>&1 | tail -1)
git checkout -q -- .
echo "demo clean=$clean patched=$patched tests: $t"
