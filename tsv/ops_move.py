"""op models, part 2: data movement, indexing, reductions, casts, factories, linear algebra."""
import math
from fractions import Fraction
import numpy as np
import torch, z3
from .core import (Sym, P, C, Ctx, Unsupported, lift, toreal, toint, tobool, conv_for, fresh, rv, num, is_num,
                   SymScalar, TFloat, obj_array, const_like, R, I, B, TRUE, FALSE)
from . import terms as T
from .ops import (handles, prop, HANDLERS, meta_call, apply1, apply2, getarg, write_into, scalar_of, func_name,
                  s_div, s_exp, s_log, s_sqrt, s_max2, s_min2, b_and, b_or, b_not, s_softplus, norm_dim, s_abs)


def shape_args(args, kwargs, start=1, name="size"):
    if len(args) > start:
        if isinstance(args[start], (tuple, list, torch.Size)):
            return tuple(int(s) for s in args[start])
        return tuple(int(s) for s in args[start:])
    v = kwargs.get(name, kwargs.get("shape"))
    return tuple(int(s) for s in v)


def like(a, payload, dtype=None):
    return Sym.make(payload, dtype or a.dtype)


# -- views ------------------------------------------------------------------------------------------
@handles("view", "reshape", "_unsafe_view", "view_as", "reshape_as")
def _view(func, args, kwargs):
    a = args[0]
    nm = func_name(func)
    if nm in ("view_as", "reshape_as"):
        shape = tuple(args[1].shape)
    elif len(args) > 1 and isinstance(args[1], torch.dtype):
        raise Unsupported("view(dtype)")
    else:
        shape = shape_args(args, kwargs, 1, "shape")
    m = meta_call(func, args, kwargs)     # real torch checks the shape (and view-compatibility)
    p = P(a)
    return like(a, p.reshape(tuple(m.shape)))


@handles("flatten")
def _flatten(func, args, kwargs):
    m = meta_call(func, args, kwargs)
    return like(args[0], P(args[0]).reshape(tuple(m.shape)))


@handles("unflatten")
def _unflatten(func, args, kwargs):
    m = meta_call(func, args, kwargs)
    return like(args[0], P(args[0]).reshape(tuple(m.shape)))


@handles("unsqueeze")
def _unsq(func, args, kwargs):
    a = args[0]
    d = getarg(args, kwargs, 1, "dim")
    if d < 0: d += a.dim() + 1
    return like(a, np.expand_dims(P(a), d))


@handles("squeeze")
def _sq(func, args, kwargs):
    a = args[0]
    m = meta_call(func, args, kwargs)
    return like(a, P(a).reshape(tuple(m.shape)))


@handles("expand", "expand_as", "broadcast_to")
def _expand(func, args, kwargs):
    a = args[0]
    m = meta_call(func, args, kwargs)
    p = P(a)
    if int(np.prod(tuple(m.shape))) == p.size:
        # nothing is actually repeated (only size-1 dimensions added): an ordinary writable view of the same storage, as in torch
        return like(a, p.reshape(tuple(m.shape)))
    return like(a, np.broadcast_to(p, tuple(m.shape)))


@handles("equal")
def _equal(func, args, kwargs):
    """torch.equal: same shape and all elements equal -> Python bool (forks on symbolic values)"""
    a, b = args[0], args[1]
    if tuple(a.shape) != tuple(b.shape):
        return False
    pa = P(a) if isinstance(a, Sym) else P(lift_t(a))
    pb = P(b) if isinstance(b, Sym) else P(lift_t(b))
    if pa.size == 0:
        return True
    conds = []
    for x, y in zip(pa.reshape(-1), pb.reshape(-1)):
        if z3.is_bool(x) or z3.is_bool(y):
            conds.append(tobool(x) == tobool(y))
        else:
            conds.append(toreal(x) == toreal(y))
    return decide_bool(z3.And(conds))


def lift_t(t):
    from .ops import lift_tensor
    return lift_tensor(t) if t.dtype.is_floating_point else Sym.make(P(t), t.dtype)


@handles("register_hook")
def _register_hook(func, args, kwargs):
    """a gradient hook has no effect on forward values; contract: returns a removable handle"""
    class _Handle:
        def remove(self): pass
    return _Handle()


@handles("broadcast_tensors")
def _broadcast_tensors(func, args, kwargs):
    ts = list(args[0]) if len(args) == 1 and isinstance(args[0], (list, tuple)) else list(args)
    shape = tuple(torch.broadcast_shapes(*[tuple(t.shape) for t in ts]))
    out = []
    for t in ts:
        if not isinstance(t, Sym):
            from .ops import lift_tensor
            t = lift_tensor(t)
        p = P(t)
        out.append(t if tuple(p.shape) == shape else like(t, np.broadcast_to(p, shape)))
    return tuple(out)


@handles("_is_all_true")
def _is_all_true(func, args, kwargs):
    return HANDLERS["all"](torch.all, (args[0],), {})


@handles("permute")
def _permute(func, args, kwargs):
    a = args[0]
    dims = shape_args(args, kwargs, 1, "dims")
    meta_call(func, args, kwargs)
    return like(a, np.transpose(P(a), dims))


@handles("transpose", "swapaxes", "swapdims")
def _transpose(func, args, kwargs):
    a = args[0]
    meta_call(func, args, kwargs)
    return like(a, np.swapaxes(P(a), args[1], args[2]))


@handles("t")
def _t(func, args, kwargs):
    a = args[0]
    meta_call(func, args, kwargs)
    return like(a, P(a).T)


@handles("movedim")
def _movedim(func, args, kwargs):
    return like(args[0], np.moveaxis(P(args[0]), args[1], args[2]))


@handles("as_tensor", "asarray")
def _as_tensor(func, args, kwargs):
    a = args[0]
    dt = kwargs.get("dtype")
    if dt is not None and dt != a.dtype:
        return _cast(torch.Tensor.to, (a, dt), {})
    return a


@handles("contiguous", "clone", "detach", "requires_grad_", "cpu", "cuda", "detach_", "retain_grad", "pin_memory")
def _ident(func, args, kwargs):
    a = args[0]
    nm = func_name(func)
    if nm == "clone":
        s = like(a, P(a).copy())
    elif nm == "contiguous":
        p = P(a)
        s = a if p.flags.c_contiguous else like(a, np.ascontiguousarray(p))
        if s is a: return a
    elif nm in ("detach",):
        s = like(a, P(a))      # shares storage, no graph
        if a._g: s._g = {k: v for k, v in a._g.items() if k not in ("requires_grad", "gradset", "graph")}
        return s
    elif nm == "requires_grad_":
        a._g = dict(a._g or {}); a._g["requires_grad"] = getarg(args, kwargs, 1, "requires_grad", True)
        return a
    else:
        return a
    if a._g: s._g = dict(a._g)
    return s


@handles("to", "type", "float", "double", "long", "int", "bool", "byte", "half", "type_as", "short")
def _cast(func, args, kwargs):
    a = args[0]
    nm = func_name(func)
    dt = None
    if nm in ("float", "double", "long", "int", "bool", "byte", "half", "short"):
        dt = {"float": torch.float32, "double": torch.float64, "long": torch.int64, "int": torch.int32, "bool": torch.bool,
              "byte": torch.uint8, "half": torch.float16, "short": torch.int16}[nm]
    elif nm == "type_as":
        dt = args[1].dtype
    elif nm == "type":
        t = getarg(args, kwargs, 1, "dtype")
        if t is None:
            return meta_call(func, args, kwargs)
        if isinstance(t, torch.dtype): dt = t
        elif isinstance(t, str): dt = {"torch.FloatTensor": torch.float32, "torch.DoubleTensor": torch.float64, "torch.LongTensor": torch.int64}[t]
        elif t is torch.Tensor: dt = torch.get_default_dtype()
        elif isinstance(t, type): dt = {"FloatTensor": torch.float32, "DoubleTensor": torch.float64, "LongTensor": torch.int64,
                                        "IntTensor": torch.int32, "BoolTensor": torch.bool, "ByteTensor": torch.uint8}[t.__name__]
    else:  # to
        for x in list(args[1:]) + list(kwargs.values()):
            if isinstance(x, torch.dtype): dt = x
            elif isinstance(x, torch.Tensor): dt = x.dtype
        if dt is None:
            return a
    if dt == a.dtype:
        return a if not kwargs.get("copy") else like(a, P(a).copy())
    conv = conv_for(dt)
    return Sym.make(apply1(conv, P(a)), dt)


@handles("chunk")
def _chunk(func, args, kwargs):
    a = args[0]
    ms = meta_call(func, args, kwargs)
    dim = getarg(args, kwargs, 2, "dim", 0)
    p = P(a); out = []; pos = 0
    d = norm_dim(dim, p.ndim)
    for m in ms:
        n = m.shape[d]
        ix = [slice(None)] * p.ndim; ix[d] = slice(pos, pos + n); pos += n
        out.append(like(a, p[tuple(ix)]))
    return tuple(out)


@handles("split", "split_with_sizes")
def _split(func, args, kwargs):
    a = args[0]
    ms = meta_call(func, args, kwargs)
    dim = getarg(args, kwargs, 2, "dim", 0)
    p = P(a); out = []; pos = 0
    d = norm_dim(dim, p.ndim)
    for m in ms:
        n = m.shape[d]
        ix = [slice(None)] * p.ndim; ix[d] = slice(pos, pos + n); pos += n
        out.append(like(a, p[tuple(ix)]))
    return tuple(out)


@handles("unbind", "__iter__")
def _unbind(func, args, kwargs):
    a = args[0]
    dim = getarg(args, kwargs, 1, "dim", 0)
    p = P(a)
    if p.ndim == 0:
        raise TypeError("iteration over a 0-d tensor")
    res = tuple(like(a, np.take(p, i, axis=dim)) if dim != 0 else like(a, p[i]) for i in range(p.shape[dim]))
    return iter(res) if func_name(func) == "__iter__" else res


@handles("narrow")
def _narrow(func, args, kwargs):
    a, dim, start, length = args
    p = P(a); ix = [slice(None)] * p.ndim; ix[norm_dim(dim, p.ndim)] = slice(start, start + length)
    return like(a, p[tuple(ix)])


@handles("select")
def _select(func, args, kwargs):
    a, dim, index = args
    p = P(a); ix = [slice(None)] * p.ndim; ix[norm_dim(dim, p.ndim)] = index
    return like(a, p[tuple(ix)])


# -- copies -----------------------------------------------------------------------------------------
def promote(tensors):
    ms = [t.as_subclass(torch.Tensor) if isinstance(t, Sym) else t for t in tensors]
    dt = ms[0].dtype
    for m in ms[1:]:
        dt = torch.promote_types(dt, m.dtype)
    return dt


@handles("cat", "concat", "concatenate")
def _cat(func, args, kwargs):
    ts = list(args[0])
    dim = getarg(args, kwargs, 1, "dim", 0)
    m = meta_call(func, args, kwargs)
    conv = conv_for(m.dtype)
    ps = [apply1(conv, P(t)) for t in ts if not (t.dim() == 1 and t.numel() == 0)]
    if not ps:
        return Sym.make(np.empty(tuple(m.shape), dtype=object), m.dtype)
    return Sym.make(np.concatenate(ps, axis=dim), m.dtype)


@handles("stack")
def _stack(func, args, kwargs):
    ts = list(args[0])
    dim = getarg(args, kwargs, 1, "dim", 0)
    m = meta_call(func, args, kwargs)
    conv = conv_for(m.dtype)
    return Sym.make(np.stack([apply1(conv, P(t)) for t in ts], axis=dim), m.dtype)


@handles("repeat", "tile")
def _repeat(func, args, kwargs):
    a = args[0]
    reps = shape_args(args, kwargs, 1, "repeats")
    m = meta_call(func, args, kwargs)
    return like(a, np.tile(P(a), reps).reshape(tuple(m.shape)))


@handles("repeat_interleave")
def _repeat_interleave(func, args, kwargs):
    a = args[0]
    r = getarg(args, kwargs, 1, "repeats"); dim = getarg(args, kwargs, 2, "dim")
    if not isinstance(r, int): raise Unsupported("tensor repeats")
    p = P(a)
    return like(a, np.repeat(p.reshape(-1) if dim is None else p, r, axis=0 if dim is None else dim))


@handles("flip")
def _flip(func, args, kwargs):
    dims = shape_args(args, kwargs, 1, "dims")
    return like(args[0], np.flip(P(args[0]), axis=dims).copy())


@handles("pad")
def _pad(func, args, kwargs):
    a = args[0]
    pad = getarg(args, kwargs, 1, "pad")
    mode = getarg(args, kwargs, 2, "mode", "constant")
    value = getarg(args, kwargs, 3, "value", None)
    if mode != "constant": raise Unsupported("pad mode " + mode)
    m = meta_call(func, args, kwargs)
    p = P(a)
    fill = conv_for(a.dtype)(lift(0.0 if value is None else value))
    widths = [(0, 0)] * p.ndim
    for i in range(len(pad) // 2):
        widths[p.ndim - 1 - i] = (pad[2 * i], pad[2 * i + 1])
    if any(w < 0 for ws in widths for w in ws): raise Unsupported("negative pad")
    out = np.empty(tuple(m.shape), dtype=object)
    out[...] = fill
    ix = tuple(slice(w[0], w[0] + s) for w, s in zip(widths, p.shape))
    out[ix] = p
    return like(a, out)


@handles("tril", "triu")
def _tri(func, args, kwargs):
    a = args[0]
    k = getarg(args, kwargs, 1, "diagonal", 0)
    p = P(a)
    zero = conv_for(a.dtype)(0)
    out = p.copy()
    n, mcols = p.shape[-2], p.shape[-1]
    for i in range(n):
        for j in range(mcols):
            keep = (j - i <= k) if func_name(func) == "tril" else (j - i >= k)
            if not keep:
                out[..., i, j] = zero
    return like(a, out)


@handles("diag")
def _diag(func, args, kwargs):
    a = args[0]
    k = getarg(args, kwargs, 1, "diagonal", 0)
    p = P(a)
    if p.ndim == 1:
        n = p.shape[0] + abs(k)
        out = np.empty((n, n), dtype=object); out[...] = conv_for(a.dtype)(0)
        for i in range(p.shape[0]):
            out[(i, i + k) if k >= 0 else (i - k, i)] = p[i]
        return like(a, out)
    return like(a, np.array([p[i, i + k] if k >= 0 else p[i - k, i] for i in range(min(p.shape) - abs(k))], dtype=object).reshape(-1))


@handles("diagonal")
def _diagonal(func, args, kwargs):
    a = args[0]
    p = P(a)
    if kwargs or len(args) > 1:
        if getarg(args, kwargs, 1, "offset", 0) != 0 or p.ndim != 2: raise Unsupported("diagonal args")
    out = np.empty((min(p.shape[-2:]),), dtype=object)
    for i in range(out.shape[0]): out[i] = p[i, i]
    return like(a, out)


# -- factories with symbolic prototype -----------------------------------------------------------------
@handles("zeros_like", "ones_like", "empty_like", "full_like", "new_zeros", "new_ones", "new_full", "new_empty", "new_tensor")
def _likes(func, args, kwargs):
    a = args[0]
    nm = func_name(func)
    dt = kwargs.get("dtype") or a.dtype
    if nm == "new_tensor":
        data = args[1]
        t = torch.as_tensor(np.asarray(data, dtype=float)) if not isinstance(data, torch.Tensor) else data
        return Sym.make(apply1(conv_for(dt), P(t)), dt)
    if nm.startswith("new_"):
        shape = shape_args(args, kwargs, 1, "size")
        if nm == "new_full":
            shape = tuple(args[1]); val = args[2]
    else:
        shape = tuple(a.shape)
    if "zeros" in nm: val = 0
    elif "ones" in nm: val = 1
    elif "full" in nm: val = val if nm == "new_full" else getarg(args, kwargs, 1, "fill_value")
    else:
        out = np.empty(shape, dtype=object)
        for idx in np.ndindex(*shape):
            out[idx] = fresh("POISON", R if dt.is_floating_point else (B if dt == torch.bool else I))
        return Sym.make(out, dt)
    return const_like(shape, lift(val), dt)


@handles("fill_", "zero_")
def _fill(func, args, kwargs):
    a = args[0]
    v = 0 if func_name(func) == "zero_" else args[1]
    p = np.empty((), dtype=object); p[()] = scalar_of(v)
    return write_into(a, p)


@handles("copy_")
def _copy_(func, args, kwargs):
    return write_into(args[0], P(args[1]))


# -- indexing -------------------------------------------------------------------------------------------
def decide_bool(t):
    t = tobool(t)
    ts = z3.simplify(t)
    if z3.is_true(ts): return True
    if z3.is_false(ts): return False
    ctx = C()
    key = ("bool", ts.get_id())
    if key not in ctx.intcache:
        ctx.intcache[key] = (ts, ctx.decide([(True, t), (False, z3.Not(t))]))
    return ctx.intcache[key][1]


def decide_int(t, lo, hi, what="index"):
    """value of a symbolic integer known to lie in [lo, hi): forks over feasible values (cached per term)"""
    ts = z3.simplify(t)
    if z3.is_int_value(ts):
        return ts.as_long()
    ctx = C()
    key = ts.get_id()
    if key not in ctx.intcache:
        ctx.intcache[key] = (ts, ctx.decide([(k, t == k) for k in range(lo, hi)]))
    return ctx.intcache[key][1]


def conc_index(ix, shape):
    """index expression with possibly symbolic components -> numpy-compatible index (forks as needed)"""
    if not isinstance(ix, tuple):
        ix = (ix,)
    out = []
    # position bookkeeping for range checks of integer-tensor indices
    nd_consumed = 0
    n_explicit = sum(1 for i in ix if i is not None and i is not Ellipsis and not (isinstance(i, torch.Tensor) and i.dtype == torch.bool)) + \
        sum(i.dim() for i in ix if isinstance(i, torch.Tensor) and i.dtype == torch.bool)
    for i in ix:
        if i is Ellipsis:
            nd_consumed += len(shape) - n_explicit
            out.append(i); continue
        if i is None:
            out.append(i); continue
        if isinstance(i, Sym):
            p = i._p
            if i.dtype == torch.bool:
                vals = np.empty(p.shape, dtype=bool)
                for idx in np.ndindex(*p.shape):
                    vals[idx] = decide_bool(p[idx])
                out.append(vals); nd_consumed += p.ndim
            else:
                n = shape[nd_consumed]
                vals = np.empty(p.shape, dtype=np.int64)
                for idx in np.ndindex(*p.shape):
                    t = p[idx]
                    C().check("index-in-range", z3.And(t >= -n, t < n) if not is_num(t) else z3.BoolVal(-n <= num(t) < n))
                    vals[idx] = decide_int(t, -n, n)
                out.append(vals); nd_consumed += 1
        elif isinstance(i, torch.Tensor):
            out.append(i.numpy()); nd_consumed += (i.dim() if i.dtype == torch.bool else 1)
        elif isinstance(i, SymScalar):
            out.append(i.concretize()); nd_consumed += 1
        elif isinstance(i, (list, tuple)) and any(isinstance(e, torch.Tensor) for e in i):
            out.append([int(e) for e in i]); nd_consumed += 1
        else:
            out.append(i); nd_consumed += 1
    return tuple(out)


def _is_basic(cix):
    return all(i is None or i is Ellipsis or isinstance(i, (int, slice, np.integer)) for i in cix)


@handles("__getitem__")
def _getitem(func, args, kwargs):
    a, ix = args
    if not isinstance(a, Sym):
        # concrete tensor indexed by something symbolic
        a = Sym.make(P(a), a.dtype)
    p = P(a)
    cix = conc_index(ix, p.shape)
    try:
        r = p[cix]
    except IndexError as e:
        raise IndexError(str(e))
    if not isinstance(r, np.ndarray):
        q = np.empty((), dtype=object); q[()] = r; r = q
        # 0-dim result of basic indexing is a view in torch; emulate by a 0-d view when possible
        if _is_basic(cix):
            try:
                r2 = p[cix + (None,)] if Ellipsis not in cix else None
                if r2 is not None and r2.shape == (1,):
                    r = r2.reshape(())
            except Exception:
                pass
    return like(a, r)


@handles("__setitem__")
def _setitem(func, args, kwargs):
    a, ix, v = args
    if not isinstance(a, Sym):
        raise Unsupported("symbolic write into concrete tensor")
    cix = conc_index(ix, a._p.shape)
    conv = conv_for(a.dtype)
    pv = P(v)
    if isinstance(v, torch.Tensor) and v.dtype.is_floating_point and not a.dtype.is_floating_point:
        raise RuntimeError("Index put requires the source and destination dtypes match")
    pv = apply1(conv, pv)
    if not a._p.flags.writeable:
        raise RuntimeError("unsupported operation: more than one element of the written-to tensor refers to a single memory location")
    tgt_shape = a._p[cix].shape if isinstance(a._p[cix], np.ndarray) else ()
    try:
        a._p[cix] = np.broadcast_to(pv, tgt_shape) if pv.ndim else pv[()]
    except ValueError as e:
        raise RuntimeError("shape mismatch: value tensor cannot be broadcast to indexing result: " + str(e))
    C().log_write(a._p, "setitem")
    if isinstance(v, Sym) and v._g and (v._g.get("graph") or v._g.get("requires_grad")) and torch.is_grad_enabled():
        # index_put keeps the autograd graph of the written values
        own = v._g.get("gradset") or (frozenset([v._g.get("leaf", id(v))]) if v._g.get("requires_grad") else frozenset())
        a._g = dict(a._g or {}); a._g["graph"] = True
        a._g["gradset"] = (a._g.get("gradset") or frozenset()) | own
    return None


@handles("gather")
def _gather(func, args, kwargs):
    a = args[0]; dim = getarg(args, kwargs, 1, "dim"); index = getarg(args, kwargs, 2, "index")
    meta_call(func, args, kwargs)
    p = P(a); pi = P(index)
    d = norm_dim(dim, p.ndim)
    out = np.empty(pi.shape, dtype=object)
    n = p.shape[d]
    for idx in np.ndindex(*pi.shape):
        t = pi[idx]
        if is_num(t):
            k = int(num(t))
            if not (0 <= k < n):
                raise RuntimeError(f"index {k} is out of bounds for dimension {d} with size {n}")
        else:
            C().check("index-in-range", z3.And(t >= 0, t < n))
            k = decide_int(t, 0, n)
        src = list(idx); src[d] = k
        out[idx] = p[tuple(src)]
    return like(a, out)


@handles("index_select")
def _index_select(func, args, kwargs):
    a = args[0]; dim = getarg(args, kwargs, 1, "dim"); index = getarg(args, kwargs, 2, "index")
    if isinstance(index, Sym):
        n = a.shape[dim]
        vals = []
        for t in index._p.reshape(-1):
            if not is_num(t):
                C().check("index-in-range", z3.And(t >= 0, t < n))
            vals.append(decide_int(t, 0, n))
        idx = np.array(vals, dtype=np.int64)
    else:
        idx = index.numpy()
    meta_call(func, (a, dim, torch.zeros(len(idx), dtype=torch.long)), {})
    if len(idx) and (idx.min() < 0 or idx.max() >= a.shape[dim]):
        raise IndexError("index out of range in self")
    return like(a, np.take(P(a), idx, axis=dim))


@handles("masked_select")
def _masked_select(func, args, kwargs):
    a, mask = args
    pm = np.broadcast_to(P(mask), P(a).shape)
    vals = np.empty(pm.shape, dtype=bool)
    for idx in np.ndindex(*pm.shape): vals[idx] = decide_bool(pm[idx])
    return like(a, P(a)[vals])


@handles("masked_fill", "masked_fill_")
def _masked_fill(func, args, kwargs):
    a, mask, v = args
    val = scalar_of(v)
    conv = conv_for(a.dtype)
    out = apply2(lambda m, x: z3.If(tobool(m), conv(val), x) if not (z3.is_true(tobool(m)) or z3.is_false(tobool(m))) else (conv(val) if z3.is_true(tobool(m)) else x),
                 P(mask), P(a))
    if func_name(func).endswith("_"):
        return write_into(a, out)
    return like(a, out)


@handles("nonzero")
def _nonzero(func, args, kwargs):
    a = args[0]
    p = P(a)
    vals = np.empty(p.shape, dtype=bool)
    for idx in np.ndindex(*p.shape): vals[idx] = decide_bool(p[idx])
    t = torch.from_numpy(vals)
    return torch.nonzero(t, **kwargs)


@handles("item")
def _item(func, args, kwargs):
    a = args[0]
    p = P(a)
    if p.size != 1: raise RuntimeError("a Tensor with %d elements cannot be converted to Scalar" % p.size)
    t = p.reshape(-1)[0]
    if is_num(t):
        n = num(t)
        if z3.is_int(t): return int(n)
        return float(n)
    if z3.is_true(t): return True
    if z3.is_false(t): return False
    return SymScalar(t)


@handles("__bool__")
def _bool(func, args, kwargs):
    a = args[0]
    p = P(a)
    if p.size != 1: raise RuntimeError("Boolean value of Tensor with more than one value is ambiguous")
    return decide_bool(p.reshape(-1)[0])


@handles("__float__", "__int__", "__index__")
def _float(func, args, kwargs):
    v = _item(func, args, kwargs)
    if isinstance(v, SymScalar):
        if func_name(func) == "__float__":
            raise Unsupported("float() of a symbolic element")
        return v.concretize()
    return float(v) if func_name(func) == "__float__" else int(v)


@handles("tolist", "numpy", "__array__")
def _tolist(func, args, kwargs):
    a = args[0]
    p = P(a)
    if all(is_num(t) or z3.is_true(t) or z3.is_false(t) for t in p.reshape(-1)):
        conv = (lambda t: float(num(t))) if a.dtype.is_floating_point else ((lambda t: z3.is_true(t)) if a.dtype == torch.bool else (lambda t: int(num(t))))
        arr = np.array([conv(t) for t in p.reshape(-1)]).reshape(p.shape)
        return arr.tolist() if func_name(func) == "tolist" else arr
    raise Unsupported(func_name(func) + " on a symbolic tensor")


# -- reductions -------------------------------------------------------------------------------------------
def dims_of(dim, nd):
    if dim is None: return tuple(range(nd))
    if isinstance(dim, (list, tuple, torch.Size)): return tuple(norm_dim(d, nd) for d in dim)
    return (norm_dim(dim, nd),)


def reduce_payload(p, dims, keepdim, f, empty):
    """f: list of terms -> term"""
    nd = p.ndim
    if nd == 0:
        q = np.empty((), dtype=object); q[()] = f([p[()]]); return q
    rest = [i for i in range(nd) if i not in dims]
    q = np.transpose(p, rest + list(dims)).reshape([p.shape[i] for i in rest] + [-1]) if p.size else \
        np.empty([p.shape[i] for i in rest] + [0], dtype=object)
    out = np.empty([p.shape[i] for i in rest], dtype=object)
    for idx in np.ndindex(*out.shape):
        row = list(q[idx])
        out[idx] = f(row) if row else empty
    if keepdim:
        shp = [1 if i in dims else p.shape[i] for i in range(nd)]
        out = out.reshape(shp)
    return out


def t_sum(row):
    acc = row[0]
    for v in row[1:]:
        acc = T.add(acc, v)
    return acc


@handles("sum", "nansum")
def _sum(func, args, kwargs):
    a = args[0]
    dim = getarg(args, kwargs, 1, "dim"); keepdim = getarg(args, kwargs, 2, "keepdim", False)
    m = meta_call(func, args, kwargs)
    conv = conv_for(m.dtype)
    p = apply1(conv, P(a))
    if isinstance(dim, (list, tuple)) and len(dim) == 0:
        dim = None          # torch.sum with an empty dim list reduces over ALL dimensions (it is not the identity)
    out = reduce_payload(p, dims_of(dim, p.ndim), keepdim, t_sum, conv(0))
    return Sym.make(out.reshape(tuple(m.shape)), m.dtype)


@handles("norm", "linalg_vector_norm", "linalg_norm")
def _norm(func, args, kwargs):
    """2-norm (the default) along dim / over everything: sqrt of the sum of squares"""
    from .ops import s_sqrt
    a = args[0]
    pord = getarg(args, kwargs, 1, "p", None) if func_name(func) == "norm" else getarg(args, kwargs, 1, "ord", None)
    if pord not in (None, 2, 2.0, "fro"):
        raise Unsupported("norm with p = %r" % (pord,))
    dim = getarg(args, kwargs, 2, "dim", None); keepdim = getarg(args, kwargs, 3, "keepdim", False)
    m = meta_call(func, args, kwargs)
    p = apply1(lambda t: T.mul(toreal(t), toreal(t)), P(a))
    out = reduce_payload(p, dims_of(dim, p.ndim), keepdim, t_sum, rv(0))
    return Sym.make(apply1(s_sqrt, out.reshape(tuple(m.shape))), m.dtype)


@handles("mean")
def _mean(func, args, kwargs):
    a = args[0]
    dim = getarg(args, kwargs, 1, "dim"); keepdim = getarg(args, kwargs, 2, "keepdim", False)
    m = meta_call(func, args, kwargs)
    p = apply1(toreal, P(a))
    out = reduce_payload(p, dims_of(dim, p.ndim), keepdim, lambda r: T.div(t_sum(r), rv(len(r))), None)
    return Sym.make(out.reshape(tuple(m.shape)), m.dtype)


@handles("var", "std")
def _var(func, args, kwargs):
    a = args[0]
    dim = getarg(args, kwargs, 1, "dim"); keepdim = kwargs.get("keepdim", False)
    unbiased = kwargs.get("unbiased", True)
    if "correction" in kwargs: unbiased = kwargs["correction"] == 1
    if isinstance(dim, bool): unbiased, dim = dim, None
    m = meta_call(func, args, kwargs)
    p = apply1(toreal, P(a))
    is_std = func_name(func) == "std"
    def f(r):
        n = len(r); mu = T.div(t_sum(r), rv(n))
        ss = t_sum([T.ipow(T.sub(x, mu), 2) for x in r])
        den = n - 1 if unbiased else n
        v = s_div(ss, rv(den)) if den != 0 else s_div(ss, fresh("zero_den"))
        if den == 0:
            raise Unsupported("variance of a single element (NaN)")
        return s_sqrt(v) if is_std else v
    out = reduce_payload(p, dims_of(dim, p.ndim), keepdim, f, None)
    return Sym.make(out.reshape(tuple(m.shape)), m.dtype)


@handles("prod")
def _prod(func, args, kwargs):
    a = args[0]
    dim = getarg(args, kwargs, 1, "dim"); keepdim = getarg(args, kwargs, 2, "keepdim", False)
    m = meta_call(func, args, kwargs)
    conv = conv_for(m.dtype)
    def f(r):
        acc = r[0]
        for v in r[1:]: acc = T.mul(acc, v)
        return acc
    p = apply1(conv, P(a))
    out = reduce_payload(p, dims_of(dim, p.ndim), keepdim, f, conv(1))
    return Sym.make(out.reshape(tuple(m.shape)), m.dtype)


@handles("cumsum")
def _cumsum(func, args, kwargs):
    a = args[0]; dim = getarg(args, kwargs, 1, "dim")
    m = meta_call(func, args, kwargs)
    conv = conv_for(m.dtype)
    p = apply1(conv, P(a))
    d = norm_dim(dim, p.ndim)
    q = np.moveaxis(p, d, -1)
    out = np.empty(q.shape, dtype=object)
    for idx in np.ndindex(*q.shape[:-1]):
        acc = None
        for j in range(q.shape[-1]):
            acc = q[idx + (j,)] if acc is None else T.add(acc, q[idx + (j,)])
            out[idx + (j,)] = acc
    return Sym.make(np.moveaxis(out, -1, d), m.dtype)


def minmax_term(vals, is_min):
    acc = vals[0]
    for v in vals[1:]:
        acc = s_min2(acc, v) if is_min else s_max2(acc, v)
    return acc


@handles("min", "max", "amin", "amax")
def _minmax(func, args, kwargs):
    a = args[0]
    nm = func_name(func)
    is_min = nm in ("min", "amin")
    other = getarg(args, kwargs, 1, "dim" if nm in ("amin", "amax") else "dim")
    if isinstance(other, torch.Tensor):
        return Sym.make(apply2(lambda x, y: (s_min2 if is_min else s_max2)(*_harm(x, y)), P(a), P(other)), meta_call(func, args, kwargs).dtype)
    conv = conv_for(a.dtype)
    p = apply1(conv, P(a))
    if other is None:
        if p.size == 0: raise RuntimeError(nm + "(): Expected reduction dim to be specified for input.numel() == 0")
        q = np.empty((), dtype=object); q[()] = minmax_term(list(p.reshape(-1)), is_min)
        return like(a, q)
    keepdim = getarg(args, kwargs, 2, "keepdim", False)
    m = meta_call(func, args, kwargs)
    vals = reduce_payload(p, dims_of(other, p.ndim), keepdim, lambda r: minmax_term(r, is_min), None)
    if nm in ("amin", "amax"):
        return like(a, vals)
    def argf(r):
        # first index attaining the extremum
        ext = minmax_term(r, is_min)
        acc = z3.IntVal(len(r) - 1)
        for j in range(len(r) - 2, -1, -1):
            acc = z3.If(r[j] == ext, z3.IntVal(j), acc)
        return acc
    idxs = reduce_payload(p, dims_of(other, p.ndim), keepdim, argf, None)
    return torch.return_types.min((like(a, vals), Sym.make(idxs, torch.int64))) if is_min else \
        torch.return_types.max((like(a, vals), Sym.make(idxs, torch.int64)))


def _harm(x, y):
    from .ops import _harmonise
    return _harmonise(lift(x), lift(y))


@handles("maximum", "minimum")
def _maximum(func, args, kwargs):
    is_min = func_name(func) == "minimum"
    return Sym.make(apply2(lambda x, y: (s_min2 if is_min else s_max2)(*_harm(x, y)), P(args[0]), P(args[1])), meta_call(func, args, kwargs).dtype)


@handles("any", "all")
def _anyall(func, args, kwargs):
    a = args[0]
    dim = getarg(args, kwargs, 1, "dim"); keepdim = getarg(args, kwargs, 2, "keepdim", False)
    is_any = func_name(func) == "any"
    p = apply1(tobool, P(a))
    def f(r):
        acc = r[0]
        for v in r[1:]: acc = b_or(acc, v) if is_any else b_and(acc, v)
        return acc
    out = reduce_payload(p, dims_of(dim, p.ndim), keepdim, f, FALSE if is_any else TRUE)
    if p.size == 0 and dim is None:
        out = np.empty((), dtype=object); out[()] = FALSE if is_any else TRUE
    return Sym.make(out, torch.bool)


@handles("logsumexp")
def _logsumexp(func, args, kwargs):
    a = args[0]; dim = getarg(args, kwargs, 1, "dim"); keepdim = getarg(args, kwargs, 2, "keepdim", False)
    m = meta_call(func, args, kwargs)
    p = apply1(toreal, P(a))
    def f(r):
        return s_log(t_sum([s_exp(x) for x in r]))
    out = reduce_payload(p, dims_of(dim, p.ndim), keepdim, f, None)
    return Sym.make(out.reshape(tuple(m.shape)), m.dtype)


def softmax_rows(p, d, log):
    """softmax along axis d: a fresh point of the open simplex per row, memoised on the argument terms (functional)"""
    ctx = C()
    q = np.moveaxis(p, d, -1)
    out = np.empty(q.shape, dtype=object)
    for idx in np.ndindex(*q.shape[:-1]):
        row = [toreal(x) for x in q[idx]]
        key = ("softmax",) + tuple(x.get_id() for x in row)
        hit = ctx.memo.get(key)
        if hit is None:
            if all(is_num(x) for x in row) and len(set(num(x) for x in row)) == 1:
                vs = [rv(Fraction(1, len(row)))] * len(row)
            else:
                vs = [fresh("softmax") for _ in row]
                for v in vs: ctx.axiom([v], v > 0)
                ctx.axiom(vs, t_sum(vs) == 1) if len(vs) > 1 else ctx.axiom(vs, vs[0] == 1)
                ctx.atoms.append(("softmax", row, vs, None))
            hit = ctx.memo[key] = (row, vs)
        vs = hit[1]
        for j, v in enumerate(vs):
            out[idx + (j,)] = s_log(v) if log else v
    return np.moveaxis(out, -1, d)


@handles("softmax", "log_softmax")
def _softmax(func, args, kwargs):
    a = args[0]; dim = getarg(args, kwargs, 1, "dim", -1)
    if dim is None: dim = -1
    p = P(a)
    return like(a, softmax_rows(p, norm_dim(dim, p.ndim), func_name(func) == "log_softmax"))


@handles("argsort", "sort")
def _argsort(func, args, kwargs):
    a = args[0]
    if a.dtype.is_floating_point and func_name(func) == "argsort":
        return _argsort_float(func, args, kwargs)
    if a.dtype.is_floating_point or a.dtype == torch.bool or func_name(func) == "sort":
        raise Unsupported("argsort/sort on symbolic values")
    # integer tensor (e.g. a random permutation): decide every element (forks over the feasible values), then sort concretely
    p = P(a)
    vals = np.empty(p.shape, dtype=np.int64)
    for idx in np.ndindex(*p.shape):
        t = p[idx]
        vals[idx] = int(num(t)) if is_num(t) else decide_int(t, -64, 64)
    return torch.argsort(torch.from_numpy(vals), *args[1:], **kwargs)


def _argsort_float(func, args, kwargs):
    """argsort of a float tensor along the last axis.  torch's sort is not stable: among tied elements the order is unspecified,
    so position 0 is a NONDETERMINISTIC choice among the extremal elements (every element that may be extremal is explored, under
    the assumption that it is); the remaining positions follow in index order (only position 0 is used by nflows)."""
    a = args[0]
    dim = getarg(args, kwargs, 1, "dim", -1)
    desc = getarg(args, kwargs, 2, "descending", False)
    p = P(a)
    if norm_dim(dim, p.ndim) != p.ndim - 1:
        raise Unsupported("argsort along a non-last axis")
    sym_out = np.empty(p.shape, dtype=object)
    ctx = C()
    for idx in np.ndindex(*p.shape[:-1]):
        vals = [toreal(t) for t in p[idx]]
        n = len(vals)
        opts = []
        for i in range(n):
            cond = z3.And([(vals[i] >= vals[j]) if desc else (vals[i] <= vals[j]) for j in range(n) if j != i]) if n > 1 else TRUE
            opts.append((i, cond))
        if all(is_num(v) for v in vals):
            # concrete values: the actual order (ties in index order)
            order = sorted(range(n), key=lambda i: (-num(vals[i]) if desc else num(vals[i]), i))
            for k, i in enumerate(order): sym_out[idx + (k,)] = z3.IntVal(i)
            continue
        first = ctx.decide(opts)
        sym_out[idx + (0,)] = z3.IntVal(first)
        # the remaining positions: SOME arrangement of the other indices (not modelled further: a use of them forks over all of them)
        rest = [fresh("argsort", I) for _ in range(n - 1)]
        for r_ in rest:
            ctx.assume(z3.And(r_ >= 0, r_ < n, r_ != first))
        if len(rest) > 1:
            ctx.assume(z3.Distinct(rest))
        for k, r_ in enumerate(rest): sym_out[idx + (k + 1,)] = r_
    return Sym.make(sym_out, torch.int64)


@handles("glu")
def _glu(func, args, kwargs):
    a = args[0]; dim = getarg(args, kwargs, 1, "dim", -1)
    x, g = _chunk(torch.chunk, (a, 2, dim), {})
    from .ops import s_sigmoid
    return like(a, apply2(lambda u, v: T.mul(toreal(u), s_sigmoid(toreal(v))), P(x), P(g)))


# -- linear algebra (exact over R) ---------------------------------------------------------------------------
def same_dtype(*ts):
    dts = {t.dtype for t in ts if isinstance(t, torch.Tensor)}
    if len(dts) > 1:
        a, b = list(dts)[:2]
        raise RuntimeError(f"expected m1 and m2 to have the same dtype, but got: {a} != {b}")


def mat_mul(pa, pb):
    """numpy-object matmul with folding"""
    if pa.ndim == 1 and pb.ndim == 1:
        q = np.empty((), dtype=object); q[()] = t_sum([T.mul(x, y) for x, y in zip(pa, pb)]); return q
    a2 = pa if pa.ndim > 1 else pa[None, :]
    b2 = pb if pb.ndim > 1 else pb[:, None]
    lead = np.broadcast_shapes(a2.shape[:-2], b2.shape[:-2])
    a2 = np.broadcast_to(a2, lead + a2.shape[-2:]); b2 = np.broadcast_to(b2, lead + b2.shape[-2:])
    n, k, m = a2.shape[-2], a2.shape[-1], b2.shape[-1]
    out = np.empty(lead + (n, m), dtype=object)
    for idx in np.ndindex(*lead):
        for i in range(n):
            for j in range(m):
                out[idx + (i, j)] = t_sum([T.mul(a2[idx + (i, l)], b2[idx + (l, j)]) for l in range(k)]) if k else rv(0)
    if pa.ndim == 1: out = out[..., 0, :]
    if pb.ndim == 1: out = out[..., 0] if pa.ndim > 1 else out[..., 0]
    return out


@handles("matmul", "__matmul__", "mm", "bmm", "mv", "dot")
def _matmul(func, args, kwargs):
    a, b = args[0], args[1]
    same_dtype(a, b)
    m = meta_call(func, (a, b), {})
    pa, pb = apply1(toreal, P(a)), apply1(toreal, P(b))
    return Sym.make(mat_mul(pa, pb).reshape(tuple(m.shape)), m.dtype)


@handles("__rmatmul__")
def _rmatmul(func, args, kwargs):
    return _matmul(torch.matmul, (args[1], args[0]), {})


@handles("linear")
def _linear(func, args, kwargs):
    x, w = args[0], args[1]
    b = getarg(args, kwargs, 2, "bias")
    same_dtype(x, w, b)
    m = meta_call(func, args, kwargs)
    out = mat_mul(apply1(toreal, P(x)), apply1(toreal, P(w)).T)
    if b is not None:
        out = apply2(T.add, out, apply1(toreal, P(b)))
    return Sym.make(out.reshape(tuple(m.shape)), m.dtype)


@handles("ger", "outer")
def _ger(func, args, kwargs):
    a, b = args
    m = meta_call(func, args, kwargs)       # torch.ger promotes mixed dtypes (validated in the self-test)
    return Sym.make(apply2(T.mul, apply1(toreal, P(a))[:, None], apply1(toreal, P(b))[None, :]), m.dtype)


@handles("addmm")
def _addmm(func, args, kwargs):
    c, a, b = args
    same_dtype(a, b, c)
    return like(a, apply2(T.add, P(c), mat_mul(P(a), P(b))))


@handles("solve_triangular", "linalg_solve_triangular")
def _solve_tri(func, args, kwargs):
    A, Bm = args[0], args[1]
    upper = kwargs["upper"]; left = kwargs.get("left", True); unit = kwargs.get("unitriangular", False)
    m = meta_call(func, args, kwargs)        # torch.linalg.solve_triangular promotes mixed dtypes (validated in the self-test), it does not raise
    if not left: raise Unsupported("solve_triangular left=False")
    pa, pb = apply1(toreal, P(A)), apply1(toreal, P(Bm))
    n = pa.shape[-1]; k = pb.shape[-1]
    X = np.empty(pb.shape, dtype=object)
    order = range(n - 1, -1, -1) if upper else range(n)
    for j in range(k):
        for i in order:
            acc = pb[i, j]
            rng = range(i + 1, n) if upper else range(0, i)
            for l in rng:
                acc = T.sub(acc, T.mul(pa[i, l], X[l, j]))
            X[i, j] = acc if unit else s_div(acc, pa[i, i])
    return Sym.make(X, m.dtype)


def det_cofactor(p):
    n = p.shape[0]
    if n == 0: return rv(1)
    if n == 1: return p[0, 0]
    if n == 2: return T.sub(T.mul(p[0, 0], p[1, 1]), T.mul(p[0, 1], p[1, 0]))
    tot = rv(0)
    for j in range(n):
        minor = np.delete(np.delete(p, 0, axis=0), j, axis=1)
        term = T.mul(p[0, j], det_cofactor(minor))
        tot = T.add(tot, term) if j % 2 == 0 else T.sub(tot, term)
    return tot


@handles("slogdet", "linalg_slogdet")
def _slogdet(func, args, kwargs):
    """assumed contract of torch.slogdet: (sign det A, log|det A|), det expanded by cofactors"""
    a = args[0]
    p = apply1(toreal, P(a))
    if p.ndim != 2: raise Unsupported("batched slogdet")
    d = det_cofactor(p)
    q1 = np.empty((), dtype=object); q2 = np.empty((), dtype=object)
    from .ops import s_sign
    q1[()] = s_sign(d); q2[()] = s_log(s_abs(d))
    return torch.return_types.slogdet((like(a, q1), like(a, q2)))


@handles("logdet")
def _logdet(func, args, kwargs):
    p = apply1(toreal, P(args[0]))
    q = np.empty((), dtype=object); q[()] = s_log(det_cofactor(p))
    return like(args[0], q)


@handles("det", "linalg_det")
def _det(func, args, kwargs):
    p = apply1(toreal, P(args[0]))
    q = np.empty((), dtype=object); q[()] = det_cofactor(p)
    return like(args[0], q)


@handles("inverse", "inv", "linalg_inv")
def _inverse(func, args, kwargs):
    """assumed contract of torch.inverse: adjugate / det, defined when det != 0"""
    a = args[0]
    p = apply1(toreal, P(a))
    n = p.shape[0]
    d = det_cofactor(p)
    out = np.empty((n, n), dtype=object)
    for i in range(n):
        for j in range(n):
            minor = np.delete(np.delete(p, j, axis=0), i, axis=1)
            c = det_cofactor(minor)
            if (i + j) % 2: c = T.neg(c)
            out[i, j] = s_div(c, d)
    return like(a, out)


@handles("linalg_inv_ex")
def _inv_ex(func, args, kwargs):
    """torch.linalg.inv_ex: (inverse, info) without an error check; info = 0 where the matrix is invertible (the inverse's own definedness
    condition det != 0 is tracked by the division)"""
    inv = _inverse(func, args[:1], {})
    return inv, torch.zeros((), dtype=torch.int32)


@handles("dropout", "dropout_", "alpha_dropout", "feature_dropout")
def _dropout(func, args, kwargs):
    a = args[0]
    p = getarg(args, kwargs, 1, "p", 0.5); training = getarg(args, kwargs, 2, "training", True)
    if not training or p == 0:
        return a
    # training-mode dropout: each element is multiplied by a random mask value in {0, 1/(1-p)}
    scale = rv(Fraction(1) / (1 - Fraction(str(p))))
    def g(x):
        b = fresh("dropmask", B)
        return z3.If(b, T.mul(scale, toreal(x)), rv(0))
    out = like(a, apply1(g, P(a)))
    C().notes.setdefault("random_draws", []).append(("dropout", out))
    return out


@handles("searchsorted")
def _searchsorted(func, args, kwargs):
    """torch.searchsorted(sorted_sequence, values, right=False): per value the number of sequence entries < value (<= value for right=True),
    along the last dimension of the sequence (leading dimensions of the two arguments agree); a symbolic integer per value"""
    seq = args[0]; vals = args[1]
    right = bool(kwargs.get("right", False)) or kwargs.get("side", "left") == "right"
    ps = apply1(toreal, P(seq))
    pv = apply1(toreal, P(vals)) if isinstance(vals, torch.Tensor) else np.array(toreal(lift(vals)), dtype=object)
    if ps.ndim == 1:
        out = np.empty(pv.shape, dtype=object)
        for idx in np.ndindex(*pv.shape):
            out[idx] = t_sum_int([(z3.If(s_ <= pv[idx], z3.IntVal(1), z3.IntVal(0)) if right else z3.If(s_ < pv[idx], z3.IntVal(1), z3.IntVal(0))) for s_ in ps])
    else:
        if tuple(ps.shape[:-1]) != tuple(pv.shape[:-1]):
            raise RuntimeError("torch.searchsorted(): boundaries tensor should have same dimension as input except for the last")
        out = np.empty(pv.shape, dtype=object)
        for idx in np.ndindex(*pv.shape):
            row = ps[idx[:-1]]
            out[idx] = t_sum_int([(z3.If(s_ <= pv[idx], z3.IntVal(1), z3.IntVal(0)) if right else z3.If(s_ < pv[idx], z3.IntVal(1), z3.IntVal(0))) for s_ in row])
    dt = torch.int32 if kwargs.get("out_int32", False) else torch.int64
    return Sym.make(out, dt)


def t_sum_int(ts):
    tot = z3.IntVal(0)
    for t in ts:
        tot = z3.simplify(tot + t) if z3.is_int_value(z3.simplify(t)) and z3.is_int_value(tot) else tot + t
    return tot


@handles("layer_norm")
def _layer_norm(func, args, kwargs):
    """F.layer_norm(input, normalized_shape, weight, bias, eps): statistics over the trailing `normalized_shape` dimensions of each item
    (biased variance), then the elementwise affine map"""
    from .ops import s_sqrt, s_div
    x = args[0]
    nshape = tuple(getarg(args, kwargs, 1, "normalized_shape"))
    w = getarg(args, kwargs, 2, "weight", None); b = getarg(args, kwargs, 3, "bias", None); eps = getarg(args, kwargs, 4, "eps", 1e-5)
    p = apply1(toreal, P(x))
    k = len(nshape)
    lead = p.shape[:p.ndim - k]
    out = np.empty(p.shape, dtype=object)
    pw = apply1(toreal, P(w)) if w is not None else None
    pb = apply1(toreal, P(b)) if b is not None else None
    e = toreal(lift(eps))
    for idx in np.ndindex(*lead):
        blk = p[idx]
        flat = list(np.asarray(blk, dtype=object).reshape(-1))
        n = len(flat)
        mean = T.div(t_sum(flat), rv(n))
        var = T.div(t_sum([T.mul(T.sub(v, mean), T.sub(v, mean)) for v in flat]), rv(n))
        sd = s_sqrt(T.add(var, e))
        for j in np.ndindex(*nshape):
            v = s_div(T.sub(blk[j], mean), sd)
            if pw is not None: v = T.mul(v, pw[j])
            if pb is not None: v = T.add(v, pb[j])
            out[idx + j] = v
    return like(x, out)


@handles("argmin", "argmax")
def _argminmax(func, args, kwargs):
    """index of the first extremal element (whole tensor, or along dim): decided by forking on the comparisons"""
    a = args[0]
    dim = getarg(args, kwargs, 1, "dim", None); keepdim = getarg(args, kwargs, 2, "keepdim", False)
    is_min = func_name(func) == "argmin"
    p = P(a)
    conv = toreal if a.dtype.is_floating_point else toint

    def pick(vals):
        best = 0
        for i in range(1, len(vals)):
            c = (conv(vals[i]) < conv(vals[best])) if is_min else (conv(vals[i]) > conv(vals[best]))
            if decide_bool(c): best = i
        return best
    if dim is None:
        return torch.tensor(pick(list(p.reshape(-1))))
    d = norm_dim(dim, p.ndim)
    q = np.moveaxis(p, d, -1)
    out = np.empty(q.shape[:-1], dtype=np.int64)
    for idx in np.ndindex(*q.shape[:-1]):
        out[idx] = pick(list(q[idx]))
    r = torch.from_numpy(np.ascontiguousarray(out))
    return r.unsqueeze(d) if keepdim else r


@handles("batch_norm")
def _batch_norm(func, args, kwargs):
    x = args[0]
    rm = getarg(args, kwargs, 1, "running_mean"); rvv = getarg(args, kwargs, 2, "running_var")
    w = getarg(args, kwargs, 3, "weight"); b = getarg(args, kwargs, 4, "bias")
    training = getarg(args, kwargs, 5, "training", False); momentum = getarg(args, kwargs, 6, "momentum", 0.1)
    eps = getarg(args, kwargs, 7, "eps", 1e-5)
    p = apply1(toreal, P(x))
    nc = p.shape[1]
    red = tuple(i for i in range(p.ndim) if i != 1)
    shp = [1] * p.ndim; shp[1] = nc
    if training or rm is None:
        n = p.size // nc
        if n <= 1: raise ValueError("Expected more than 1 value per channel when training")
        mean = reduce_payload(p, red, False, lambda r: T.div(t_sum(r), rv(len(r))), None)
        cen = apply2(T.sub, p, mean.reshape(shp))
        var = reduce_payload(apply1(lambda t: T.mul(t, t), cen), red, False, lambda r: T.div(t_sum(r), rv(len(r))), None)
        if rm is not None and training:
            mom = rv(momentum)
            ub = reduce_payload(apply1(lambda t: T.mul(t, t), cen), red, False, lambda r: T.div(t_sum(r), rv(len(r) - 1)), None)
            write_into(rm, apply2(lambda old, new: T.add(T.mul(T.sub(rv(1), mom), old), T.mul(mom, new)), P(rm), mean))
            write_into(rvv, apply2(lambda old, new: T.add(T.mul(T.sub(rv(1), mom), old), T.mul(mom, new)), P(rvv), ub))
    else:
        mean, var = apply1(toreal, P(rm)), apply1(toreal, P(rvv))
        cen = apply2(T.sub, p, mean.reshape(shp))
    e = rv(eps)
    inv = apply1(lambda v: s_div(rv(1), s_sqrt(T.add(v, e))), var)
    out = apply2(T.mul, cen, inv.reshape(shp))
    if w is not None: out = apply2(T.mul, out, apply1(toreal, P(w)).reshape(shp))
    if b is not None: out = apply2(T.add, out, apply1(toreal, P(b)).reshape(shp))
    return like(x, out)


@handles("conv2d")
def _conv2d(func, args, kwargs):
    x, w = args[0], args[1]
    b = getarg(args, kwargs, 2, "bias"); stride = getarg(args, kwargs, 3, "stride", 1); padding = getarg(args, kwargs, 4, "padding", 0)
    same_dtype(x, w, b)
    m = meta_call(func, args, kwargs)
    px, pw = apply1(toreal, P(x)), apply1(toreal, P(w))
    st = (stride, stride) if isinstance(stride, int) else tuple(stride)
    pd = (padding, padding) if isinstance(padding, int) else tuple(padding)
    if getarg(args, kwargs, 5, "dilation", 1) not in (1, (1, 1)) or getarg(args, kwargs, 6, "groups", 1) != 1:
        raise Unsupported("conv2d dilation/groups")
    Bn, Cin, H, W = px.shape; Cout, _, kh, kw = pw.shape
    out = np.empty(tuple(m.shape), dtype=object)
    for n in range(Bn):
        for co in range(Cout):
            for i in range(m.shape[2]):
                for j in range(m.shape[3]):
                    acc = rv(0) if b is None else toreal(P(b)[co])
                    for ci in range(Cin):
                        for u in range(kh):
                            for v in range(kw):
                                ii, jj = i * st[0] + u - pd[0], j * st[1] + v - pd[1]
                                if 0 <= ii < H and 0 <= jj < W:
                                    acc = T.add(acc, T.mul(px[n, ci, ii, jj], pw[co, ci, u, v]))
                    out[n, co, i, j] = acc
    return Sym.make(out, m.dtype)


# -- random number generation: assumed distributional contracts; here only the structural part ----------------
@handles("multinomial")
def _multinomial(func, args, kwargs):
    """contract: num_samples indices in [0, n); distinct when replacement=False"""
    w = getarg(args, kwargs, 0, "input"); n = getarg(args, kwargs, 1, "num_samples"); repl = getarg(args, kwargs, 2, "replacement", False)
    size = w.shape[-1]
    if w.dim() != 1: raise Unsupported("batched multinomial")
    if not repl and n > size: raise RuntimeError("cannot sample n_sample > prob_dist.size(-1) samples without replacement")
    vs = [fresh("multinomial", I) for _ in range(n)]
    ctx = C()
    for v in vs: ctx.assume(z3.And(v >= 0, v < size))
    if not repl and n > 1: ctx.assume(z3.Distinct(vs))
    s = Sym.make(obj_array(vs), torch.int64)
    s._g = {"taint": "random"}
    return s


def _rand_like(name, sort, dtype_default, constrain=None):
    def h(func, args, kwargs):
        nm = func_name(func)
        if nm.endswith("_like"):
            shape = tuple(args[0].shape); dt = kwargs.get("dtype") or args[0].dtype
        else:
            shape = shape_args(args, kwargs, 0, "size") if args else tuple(kwargs["size"])
            dt = kwargs.get("dtype") or dtype_default()
        out = np.empty(shape, dtype=object)
        ctx = C()
        for idx in np.ndindex(*shape):
            v = fresh(name, sort)
            if constrain: ctx.assume(constrain(v))
            out[idx] = v
        s = Sym.make(out, dt)
        s._g = {"taint": "random"}
        ctx.notes.setdefault("random_draws", []).append((name, s))
        return s
    return h


handles("randn", "randn_like")(_rand_like("randn", R, torch.get_default_dtype))
handles("rand", "rand_like")(_rand_like("rand", R, torch.get_default_dtype, lambda v: z3.And(v >= 0, v < 1)))


@handles("randperm")
def _randperm(func, args, kwargs):
    n = args[0]
    vs = [fresh("randperm", I) for _ in range(n)]
    ctx = C()
    for v in vs: ctx.assume(z3.And(v >= 0, v < n))
    if n > 1: ctx.assume(z3.Distinct(vs))
    s = Sym.make(obj_array(vs), torch.int64)
    s._g = {"taint": "random"}
    return s


@handles("randint")
def _randint(func, args, kwargs):
    a = list(args)
    if "low" in kwargs or "high" in kwargs:
        low = kwargs.get("low", 0); high = kwargs["high"]; size = kwargs.get("size", a[0] if a else None)
    elif len(a) >= 3 and not isinstance(a[1], (tuple, list, torch.Size)):
        low, high, size = a[0], a[1], a[2]
    else:
        low, high, size = 0, a[0], a[1]
    lo, hi = lift(low), lift(high)
    if not decide_bool(toint(lo) < toint(hi)):
        raise RuntimeError("random_ expects 'from' to be less than 'to'")
    out = np.empty(tuple(size), dtype=object)
    ctx = C()
    for idx in np.ndindex(*tuple(size)):
        v = fresh("randint", I)
        ctx.assume(z3.And(v >= toint(lo), v < toint(hi)))
        out[idx] = v
    s = Sym.make(out, kwargs.get("dtype") or torch.int64)
    s._g = {"taint": "random"}
    return s


@handles("uniform_", "normal_", "random_", "bernoulli_", "exponential_", "log_normal_", "cauchy_", "geometric_")
def _inplace_random(func, args, kwargs):
    """in-place initialisers: every element becomes a fresh random-tainted symbol (range facts for uniform_)"""
    a = args[0] if args else kwargs.get("tensor")
    nm = func_name(func)
    ctx = C()
    out = np.empty(a._p.shape, dtype=object)
    lo = getarg(args, kwargs, 1, "from" if False else "a") if nm == "uniform_" else None
    hi = getarg(args, kwargs, 2, "b") if nm == "uniform_" else None
    if nm == "uniform_" and lo is None: lo = kwargs.get("from", 0.0)
    if nm == "uniform_" and hi is None: hi = kwargs.get("to", 1.0)
    for idx in np.ndindex(*out.shape):
        v = fresh("init", R)
        if nm == "uniform_":
            ctx.assume(z3.And(v >= toreal(lift(lo)), v <= toreal(lift(hi))))
        out[idx] = v
    a._p[...] = out
    a._g = dict(a._g or {}); a._g["taint"] = "random"
    return a


@handles("kaiming_uniform_", "kaiming_normal_", "xavier_uniform_", "xavier_normal_", "orthogonal_", "trunc_normal_", "sparse_")
def _init_random(func, args, kwargs):
    a = args[0] if args else kwargs.get("tensor")
    out = np.empty(a._p.shape, dtype=object)
    for idx in np.ndindex(*out.shape):
        out[idx] = fresh("init", R)
    a._p[...] = out
    a._g = dict(a._g or {}); a._g["taint"] = "random"
    return a


@handles("zeros_", "ones_", "constant_", "eye_", "dirac_")
def _init_const(func, args, kwargs):
    a = args[0] if args else kwargs.get("tensor")
    nm = func_name(func)
    if nm in ("eye_", "dirac_"): raise Unsupported(nm)
    v = 0.0 if nm == "zeros_" else (1.0 if nm == "ones_" else getarg(args, kwargs, 1, "val"))
    q = np.empty((), dtype=object); q[()] = conv_for(a.dtype)(lift(v))
    a._p[...] = np.broadcast_to(q, a._p.shape)
    return a


LU_OF = {}


@handles("lu", "linalg_lu_factor", "_lu_with_info")
def _lu(func, args, kwargs):
    """assumed contract of torch.lu: an opaque factorisation handle; |prod diag(LU)| = |det A|; lu_solve solves A X = B"""
    a = args[0]
    p = apply1(toreal, P(a))
    n = p.shape[0]
    ctx = C()
    lu = np.empty((n, n), dtype=object)
    for idx in np.ndindex(n, n):
        lu[idx] = fresh("lu", R)
    d = det_cofactor(p)
    prod = lu[0, 0]
    for i in range(1, n): prod = prod * lu[i, i]
    ctx.axiom([lu[i, i] for i in range(n)], z3.If(prod >= 0, prod, -prod) == z3.If(d >= 0, d, -d))
    s = Sym.make(lu, a.dtype)
    LU_OF[id(s._p)] = (s, p)
    piv = torch.arange(1, n + 1, dtype=torch.int32)
    return s, piv


@handles("lu_solve", "linalg_lu_solve")
def _lu_solve(func, args, kwargs):
    b, lu, piv = args[0], args[1], args[2]
    ent = LU_OF.get(id(P(lu)))
    if ent is None: raise Unsupported("lu_solve on an unknown factorisation")
    same_dtype(b, lu)
    A = ent[1]
    inv = P(_inverse(torch.inverse, (Sym.make(A, lu.dtype),), {}))
    return like(b, mat_mul(inv, apply1(toreal, P(b))))
