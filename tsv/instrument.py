"""AST *insertion* into real repo functions: lemma cut points and assert -> obligation (DESIGN 3.7).

Nothing is removed or reordered.  `assert e` becomes `__assert__(e)` (same evaluation of e; obligation then assume).
A cut `names = __cut__(id, names..., extras...)` is inserted after the LAST assignment to an anchor name.
The instrumented function is compiled with the original file name and line numbers and executed in the function's own
module globals (a shallow copy, so that the module itself is untouched).
"""
import ast, inspect, textwrap, hashlib
import z3
from .core import C, Unsupported

CUTS = {}
INSERTED = []     # evidence: every inserted statement
UNBOUND = []      # anchors that did not bind


def cut(cut_id):
    def deco(fn):
        CUTS[cut_id] = fn
        return fn
    return deco


def _cut_hook(cut_id, *a):
    return CUTS[cut_id](cut_id, *a)


def _assert_hook(cond):
    """assert -> obligation + assume"""
    import torch
    from .core import Sym, P, tobool
    if isinstance(cond, Sym):
        p = P(cond)
        if p.size != 1:
            raise RuntimeError("Boolean value of Tensor with more than one value is ambiguous")
        t = tobool(p.reshape(-1)[0])
        C().check("assert-holds", t)
        return
    if isinstance(cond, torch.Tensor):
        cond = bool(cond)
    if not cond:
        raise AssertionError()


class _AssertRewriter(ast.NodeTransformer):
    def visit_Assert(self, node):
        call = ast.Expr(value=ast.Call(func=ast.Name(id="__assert__", ctx=ast.Load()), args=[node.test], keywords=[]))
        return ast.copy_location(call, node)


def source_hash(func):
    try:
        return hashlib.sha256(inspect.getsource(func).encode()).hexdigest()[:16]
    except Exception:
        return "?"


def instrument(func, cuts=(), rewrite_asserts=True):
    """cuts: [(anchor_name, cut_id, names, extras)] -> instrumented function object"""
    func = inspect.unwrap(func)
    src = textwrap.dedent(inspect.getsource(func))
    tree = ast.parse(src)
    fdef = tree.body[0]
    fdef.decorator_list = []
    for anchor, cut_id, names, extra in cuts:
        best = None
        want = None
        if "#" in anchor:
            anchor, want = anchor.split("#")
            want = int(want)
        subscript = anchor.endswith("[]")      # anchor on assignments  name[...] = ...
        if subscript:
            anchor = anchor[:-2]
        cands = []
        for node in ast.walk(tree):
            for attr in ("body", "orelse", "finalbody"):
                bl = getattr(node, attr, None)
                if not isinstance(bl, list):
                    continue
                for i, st in enumerate(bl):
                    tg = None
                    if isinstance(st, ast.Assign) and len(st.targets) == 1:
                        tg = st.targets[0]
                    elif isinstance(st, ast.AugAssign):
                        tg = st.target
                    if subscript:
                        if isinstance(tg, ast.Subscript) and isinstance(tg.value, ast.Name) and tg.value.id == anchor:
                            cands.append((bl, i, st.lineno, st))
                    elif isinstance(tg, ast.Name) and tg.id == anchor:
                        cands.append((bl, i, st.lineno, st))
        cands.sort(key=lambda c: c[2])
        if cands:
            best = cands[-1] if want is None else (cands[want] if want < len(cands) else None)
        if best is None:
            UNBOUND.append((func.__qualname__, anchor, cut_id))
            continue
        # all names must be bound somewhere in the function, otherwise the anchor does not bind
        bound = {n.id for n in ast.walk(tree) if isinstance(n, ast.Name)} | {a.arg for a in fdef.args.args + fdef.args.kwonlyargs}
        if not set(names + extra) <= bound:
            UNBOUND.append((func.__qualname__, anchor, cut_id))
            continue
        bl, i, _, st = best
        text = f"{', '.join(names)}{',' if len(names) == 1 else ''} = __cut__({cut_id!r}, {', '.join(names + extra)})"
        call = ast.parse(text).body[0]
        for n in ast.walk(call):
            ast.copy_location(n, st)
        bl.insert(i + 1, call)
        INSERTED.append({"function": func.__qualname__, "after_assignment_to": anchor, "statement": text})
    if rewrite_asserts:
        n_asserts = sum(isinstance(n, ast.Assert) for n in ast.walk(tree))
        if n_asserts:
            tree = _AssertRewriter().visit(tree)
            INSERTED.append({"function": func.__qualname__, "rewritten": f"{n_asserts} assert statement(s) -> __assert__(test)"})
    ast.fix_missing_locations(tree)
    ast.increment_lineno(tree, func.__code__.co_firstlineno - 1)
    code = compile(tree, func.__code__.co_filename, "exec")
    if func.__closure__:
        raise Unsupported("instrumenting a closure")
    # the instrumented function runs in the module's own (live) globals; only the two hook names are added to them
    g = func.__globals__
    g["__cut__"] = _cut_hook
    g["__assert__"] = _assert_hook
    fcode = next(c for c in code.co_consts if isinstance(c, type(code)) and c.co_name == func.__name__)
    import types
    new = types.FunctionType(fcode, g, func.__name__, func.__defaults__, None)
    new.__qualname__ = func.__qualname__
    new.__defaults__ = func.__defaults__
    new.__kwdefaults__ = func.__kwdefaults__
    new.__tsv_original__ = func
    return new


class patched:
    """context manager: rebind every nflows-module attribute that *is* `orig` to `new` (all import aliases)"""

    def __init__(self, orig, new):
        self.orig, self.new, self.saved = orig, new, []

    def __enter__(self):
        import sys
        for m in list(sys.modules.values()):
            if m is None or not getattr(m, "__name__", "").startswith("nflows"):
                continue
            for k, v in list(vars(m).items()):
                if v is self.orig:
                    self.saved.append((m, k))
                    setattr(m, k, self.new)
        return self

    def __exit__(self, *a):
        for m, k in self.saved:
            setattr(m, k, self.orig)


# ------------------------------------------------------------------------------------------------
# loop-carried state (for inductive arguments over a loop whose body is proved as a single step)
# ------------------------------------------------------------------------------------------------
def loop_carried(func):
    """for every `for` loop directly in the body of `func` (re-read from its source on every run): the names whose value can flow from one
    iteration to the next, i.e. names assigned (or augmented-assigned) in the loop body that may be read in the body before being assigned
    in the same iteration.  -> list of (lineno, sorted carried names, sorted loop targets)
    Conservative: a name read anywhere in a statement before the first statement that assigns it counts as read-before-assignment; an
    augmented assignment reads its target; conditionally assigned names count as carried."""
    import ast, inspect, textwrap
    tree = ast.parse(textwrap.dedent(inspect.getsource(func)))
    fn = tree.body[0]
    out = []
    for node in ast.walk(fn):
        if not isinstance(node, ast.For):
            continue
        targets = {n.id for n in ast.walk(node.target) if isinstance(n, ast.Name)}
        assigned_anywhere = set()
        for st in node.body:
            for n in ast.walk(st):
                if isinstance(n, ast.Name) and isinstance(n.ctx, ast.Store): assigned_anywhere.add(n.id)
                if isinstance(n, ast.AugAssign) and isinstance(n.target, ast.Name): assigned_anywhere.add(n.target.id)
        definitely = set(targets)
        carried = set()
        for st in node.body:
            reads = {n.id for n in ast.walk(st) if isinstance(n, ast.Name) and isinstance(n.ctx, ast.Load)}
            if isinstance(st, ast.AugAssign) and isinstance(st.target, ast.Name): reads.add(st.target.id)
            for n in ast.walk(st):
                if isinstance(n, ast.AugAssign) and isinstance(n.target, ast.Name): reads.add(n.target.id)
            carried |= {r for r in reads if r in assigned_anywhere and r not in definitely}
            if isinstance(st, (ast.Assign, ast.AnnAssign, ast.AugAssign)):
                tg = st.targets if isinstance(st, ast.Assign) else [st.target]
                for t in tg:
                    for n in ast.walk(t):
                        if isinstance(n, ast.Name): definitely.add(n.id)
            # assignments nested in compound statements (if / with / try) are not counted as definite
        out.append((node.lineno, sorted(carried), sorted(targets)))
    return out
