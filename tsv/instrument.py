"""AST *insertion* into real repo functions: lemma cut points and assert -> obligation (DESIGN 3.7).

Nothing is removed or reordered.  `assert e` becomes `__assert__(e)` (same evaluation of e; obligation then assume).
A cut `names = __cut__(id, names..., extras...)` is inserted after the LAST assignment to an anchor name.
The instrumented function is compiled with the original file name and line numbers and executed in the function's own
module globals (a shallow copy, so that the module itself is untouched).
"""
import os, ast, inspect, textwrap, hashlib
import z3
from .core import C, Unsupported

CUTS = {}
INSERTED = []     # evidence: every inserted statement
UNBOUND = []      # anchors that did not bind


def cut(cut_id):
    def deco(fn):
        CUTS[cut_id] = fn
        return fn
    return deco


def _cut_hook(cut_id, *a, __live__=None):
    """runs the lemma cut; afterwards every other live local of the function that still mentions an abstracted definition is rewritten to the
    fresh symbols as well (a shared subexpression hoisted above the cut point must not keep the forgotten definitions alive)"""
    import numpy as np
    from .core import Sym, P
    ctx = C()
    n0 = len(ctx.cutdefs)
    out = CUTS[cut_id](cut_id, *a)
    if __live__ is not None and len(ctx.cutdefs) > n0:
        pairs = []
        for d in ctx.cutdefs[n0:]:
            if z3.is_app(d) and d.decl().kind() == z3.Z3_OP_EQ:
                fr, actual = d.arg(0), d.arg(1)
                # a compound term, or a symbol introduced by an earlier cut (name with '!'); never a harness input symbol or a numeral:
                # postconditions differentiate with respect to the inputs, they must stay visible
                if z3.is_app(actual) and (actual.num_args() > 0 or (actual.decl().kind() == z3.Z3_OP_UNINTERPRETED and "!" in actual.decl().name())):
                    pairs.append((actual, fr))
        if pairs:
            new_ids = {id(o) for o in (out if isinstance(out, tuple) else (out,))}
            for v in list(__live__.values()):
                if isinstance(v, Sym) and id(v) not in new_ids and v.dtype.is_floating_point:
                    p = P(v)
                    if not p.flags.writeable:
                        continue
                    for idx in np.ndindex(*p.shape):
                        t = p[idx]
                        if z3.is_expr(t) and z3.is_app(t):
                            t2 = z3.substitute(t, *pairs)
                            if not z3.eq(t2, t):
                                p[idx] = t2
    return out


def _assert_hook(cond):
    """assert -> obligation + assume"""
    import torch
    from .core import Sym, P, tobool
    if isinstance(cond, Sym):
        p = P(cond)
        if p.size != 1:
            raise RuntimeError("Boolean value of Tensor with more than one value is ambiguous")
        t = tobool(p.reshape(-1)[0])
        C().check("assert-holds", t)
        return
    if isinstance(cond, torch.Tensor):
        cond = bool(cond)
    if not cond:
        raise AssertionError()


class _AssertRewriter(ast.NodeTransformer):
    def visit_Assert(self, node):
        call = ast.Expr(value=ast.Call(func=ast.Name(id="__assert__", ctx=ast.Load()), args=[node.test], keywords=[]))
        return ast.copy_location(call, node)


def source_hash(func):
    try:
        return hashlib.sha256(inspect.getsource(func).encode()).hexdigest()[:16]
    except Exception:
        return "?"


REFSRC_DIR = os.path.join(os.path.dirname(os.path.dirname(os.path.abspath(__file__))), "refsrc")
RENAMED = []


def _shape(node):
    """AST dump with every local identifier blanked (alpha-equivalence class of a statement)"""
    class Blank(ast.NodeTransformer):
        def visit_Name(self, n):
            return ast.copy_location(ast.Name(id="_", ctx=n.ctx), n)
    import copy
    return ast.dump(Blank().visit(copy.deepcopy(node)), annotate_fields=False)


def _simple_statements(tree):
    out = []
    for n in ast.walk(tree):
        if isinstance(n, (ast.Assign, ast.AugAssign, ast.AnnAssign, ast.Return, ast.Expr, ast.Raise, ast.Assert)):
            out.append(n)
        elif isinstance(n, (ast.If, ast.While)):
            out.append(n.test)
    out.sort(key=lambda n: (getattr(n, "lineno", 0), getattr(n, "col_offset", 0)))
    return out


def recover_renames(ref_src, cur_tree):
    """local variables that were merely renamed since the reference source was recorded: statements of the two versions are aligned by their
    alpha-equivalence class (difflib on the blanked dumps); identically shaped statements vote for old-name -> new-name pairs; a pair is
    accepted when it wins a clear majority and is consistent.  -> {old: new} (only entries with old != new)"""
    import difflib, collections
    try:
        ref_tree = ast.parse(textwrap.dedent(ref_src))
    except SyntaxError:
        return {}
    a, b = _simple_statements(ref_tree), _simple_statements(cur_tree)
    sa, sb = [_shape(x) for x in a], [_shape(x) for x in b]
    votes = collections.defaultdict(collections.Counter)
    for blk in difflib.SequenceMatcher(None, sa, sb, autojunk=False).get_matching_blocks():
        for k in range(blk.size):
            na = [n.id for n in ast.walk(a[blk.a + k]) if isinstance(n, ast.Name)]
            nb = [n.id for n in ast.walk(b[blk.b + k]) if isinstance(n, ast.Name)]
            if len(na) == len(nb):
                for x, y in zip(na, nb):
                    votes[x][y] += 1
    out = {}
    for old, cnt in votes.items():
        (new, top), *rest = cnt.most_common(2) + [(None, 0)]
        second = rest[0][1] if rest else 0
        if new != old and top >= 1 and top > 2 * second and cnt.get(old, 0) == 0:
            out[old] = new
    # a new name must not be claimed by two old names
    inv = collections.Counter(out.values())
    return {o: n for o, n in out.items() if inv[n] == 1}


def instrument(func, cuts=(), rewrite_asserts=True):
    """cuts: [(anchor_name, cut_id, names, extras)] -> instrumented function object"""
    func = inspect.unwrap(func)
    src = textwrap.dedent(inspect.getsource(func))
    tree = ast.parse(src)
    fdef = tree.body[0]
    fdef.decorator_list = []
    # reference source (recorded on the unchanged tree with --update-ledger): lets the cut anchors follow pure renames of local variables
    ref_path = os.path.join(REFSRC_DIR, func.__module__ + "." + func.__qualname__ + ".py")
    renames = {}
    if cuts:
        if os.environ.get("TSV_SAVE_REFSRC") == "1":
            os.makedirs(REFSRC_DIR, exist_ok=True)
            with open(ref_path, "w") as fh:
                fh.write(src)
        elif os.path.exists(ref_path):
            ref_src = open(ref_path).read()
            if ref_src != src:
                renames = recover_renames(ref_src, tree)
                if renames:
                    RENAMED.append({"function": func.__qualname__, "renamed": dict(renames)})
    cuts = [(renames.get(a.split("#")[0].rstrip("[]"), a.split("#")[0].rstrip("[]")) + a[len(a.split("#")[0].rstrip("[]")):], cid,
             [renames.get(n, n) for n in names], [renames.get(n, n) for n in extra]) for a, cid, names, extra in cuts]
    for anchor, cut_id, names, extra in cuts:
        best = None
        want = None
        if "#" in anchor:
            anchor, want = anchor.split("#")
            want = int(want)
        subscript = anchor.endswith("[]")      # anchor on assignments  name[...] = ...
        if subscript:
            anchor = anchor[:-2]
        cands = []
        for node in ast.walk(tree):
            for attr in ("body", "orelse", "finalbody"):
                bl = getattr(node, attr, None)
                if not isinstance(bl, list):
                    continue
                for i, st in enumerate(bl):
                    tg = None
                    if isinstance(st, ast.Assign) and len(st.targets) == 1:
                        tg = st.targets[0]
                    elif isinstance(st, ast.AugAssign):
                        tg = st.target
                    if subscript:
                        if isinstance(tg, ast.Subscript) and isinstance(tg.value, ast.Name) and tg.value.id == anchor:
                            cands.append((bl, i, st.lineno, st))
                    elif isinstance(tg, ast.Name) and tg.id == anchor:
                        cands.append((bl, i, st.lineno, st))
        cands.sort(key=lambda c: c[2])
        if cands:
            best = cands[-1] if want is None else (cands[want] if want < len(cands) else None)
        if best is None:
            UNBOUND.append((func.__qualname__, anchor, cut_id))
            continue
        # all names must be bound somewhere in the function, otherwise the anchor does not bind
        bound = {n.id for n in ast.walk(tree) if isinstance(n, ast.Name)} | {a.arg for a in fdef.args.args + fdef.args.kwonlyargs}
        if not set(names + extra) <= bound:
            UNBOUND.append((func.__qualname__, anchor, cut_id))
            continue
        bl, i, _, st = best
        # the lemma speaks about all of `names`: insert after the LAST statement of this block that assigns any of them (independent blocks
        # may have been reordered), never before the anchor
        def _assigned(stm):
            out = set()
            tgs = stm.targets if isinstance(stm, ast.Assign) else ([stm.target] if isinstance(stm, (ast.AugAssign, ast.AnnAssign)) else [])
            for tg in tgs:
                for n in ast.walk(tg):
                    if isinstance(n, ast.Name): out.add(n.id)
            return out
        for j in range(len(bl) - 1, i, -1):
            if _assigned(bl[j]) & set(names):
                i, st = j, bl[j]
                break
        text = f"{', '.join(names)}{',' if len(names) == 1 else ''} = __cut__({cut_id!r}, {', '.join(names + extra)}, __live__=locals())"
        call = ast.parse(text).body[0]
        for n in ast.walk(call):
            ast.copy_location(n, st)
        bl.insert(i + 1, call)
        INSERTED.append({"function": func.__qualname__, "after_assignment_to": anchor, "statement": text})
    if rewrite_asserts:
        n_asserts = sum(isinstance(n, ast.Assert) for n in ast.walk(tree))
        if n_asserts:
            tree = _AssertRewriter().visit(tree)
            INSERTED.append({"function": func.__qualname__, "rewritten": f"{n_asserts} assert statement(s) -> __assert__(test)"})
    ast.fix_missing_locations(tree)
    ast.increment_lineno(tree, func.__code__.co_firstlineno - 1)
    code = compile(tree, func.__code__.co_filename, "exec")
    if func.__closure__:
        raise Unsupported("instrumenting a closure")
    # the instrumented function runs in the module's own (live) globals; only the two hook names are added to them
    g = func.__globals__
    g["__cut__"] = _cut_hook
    g["__assert__"] = _assert_hook
    fcode = next(c for c in code.co_consts if isinstance(c, type(code)) and c.co_name == func.__name__)
    import types
    new = types.FunctionType(fcode, g, func.__name__, func.__defaults__, None)
    new.__qualname__ = func.__qualname__
    new.__defaults__ = func.__defaults__
    new.__kwdefaults__ = func.__kwdefaults__
    new.__tsv_original__ = func
    return new


class patched:
    """context manager: rebind every nflows-module attribute that *is* `orig` to `new` (all import aliases)"""

    def __init__(self, orig, new):
        self.orig, self.new, self.saved = orig, new, []

    def __enter__(self):
        import sys
        for m in list(sys.modules.values()):
            if m is None or not getattr(m, "__name__", "").startswith("nflows"):
                continue
            for k, v in list(vars(m).items()):
                if v is self.orig:
                    self.saved.append((m, k))
                    setattr(m, k, self.new)
        return self

    def __exit__(self, *a):
        for m, k in self.saved:
            setattr(m, k, self.orig)


# ------------------------------------------------------------------------------------------------
# loop-carried state (for inductive arguments over a loop whose body is proved as a single step)
# ------------------------------------------------------------------------------------------------
def loop_carried(func):
    """for every `for` loop directly in the body of `func` (re-read from its source on every run): the names whose value can flow from one
    iteration to the next, i.e. names assigned (or augmented-assigned) in the loop body that may be read in the body before being assigned
    in the same iteration.  -> list of (lineno, sorted carried names, sorted loop targets)
    Conservative: a name read anywhere in a statement before the first statement that assigns it counts as read-before-assignment; an
    augmented assignment reads its target; conditionally assigned names count as carried."""
    import ast, inspect, textwrap
    tree = ast.parse(textwrap.dedent(inspect.getsource(func)))
    fn = tree.body[0]
    out = []
    for node in ast.walk(fn):
        if not isinstance(node, ast.For):
            continue
        targets = {n.id for n in ast.walk(node.target) if isinstance(n, ast.Name)}
        assigned_anywhere = set()
        for st in node.body:
            for n in ast.walk(st):
                if isinstance(n, ast.Name) and isinstance(n.ctx, ast.Store): assigned_anywhere.add(n.id)
                if isinstance(n, ast.AugAssign) and isinstance(n.target, ast.Name): assigned_anywhere.add(n.target.id)
        definitely = set(targets)
        carried = set()
        for st in node.body:
            reads = {n.id for n in ast.walk(st) if isinstance(n, ast.Name) and isinstance(n.ctx, ast.Load)}
            if isinstance(st, ast.AugAssign) and isinstance(st.target, ast.Name): reads.add(st.target.id)
            for n in ast.walk(st):
                if isinstance(n, ast.AugAssign) and isinstance(n.target, ast.Name): reads.add(n.target.id)
            carried |= {r for r in reads if r in assigned_anywhere and r not in definitely}
            if isinstance(st, (ast.Assign, ast.AnnAssign, ast.AugAssign)):
                tg = st.targets if isinstance(st, ast.Assign) else [st.target]
                for t in tg:
                    for n in ast.walk(t):
                        if isinstance(n, ast.Name): definitely.add(n.id)
            # assignments nested in compound statements (if / with / try) are not counted as definite
        out.append((node.lineno, sorted(carried), sorted(targets)))
    return out
