"""discharging obligations: portfolio over z3 strategies, relevance filtering of axioms, un-abstracted re-check."""
import time
import z3
from . import terms as T

NLSAT = None


def nlsat_tactic():
    global NLSAT
    if NLSAT is None:
        NLSAT = z3.Then("simplify", "solve-eqs", "purify-arith", "qfnra-nlsat")
    return NLSAT


def split_goal(g):
    if z3.is_and(g):
        out = []
        for c in g.children():
            out += split_goal(c)
        return out
    return [g]


def relevant_axioms(axioms, terms):
    """axioms whose trigger terms occur (transitively) in the given terms"""
    ids = T.subterm_ids(terms)
    chosen = []
    if T.PI.get_id() in ids:
        chosen.append(z3.And(T.PI > z3.RealVal("3.14159265"), T.PI < z3.RealVal("3.14159266")))
    remaining = list(axioms)
    changed = True
    while changed and remaining:
        changed = False
        rest = []
        for trig, ax, _keep in remaining:
            if any(t in ids for t in trig):
                chosen.append(ax)
                ids |= T.subterm_ids([ax])
                changed = True
            else:
                rest.append((trig, ax, _keep))
        remaining = rest
    return chosen


def purify(exprs):
    """replace every uninterpreted-function application by a fresh constant (same application -> same constant).
    Forgets congruence only, so unsat of the purified formula implies unsat of the original."""
    cache = {}
    names = {}

    def rw(t):
        tid = t.get_id()
        hit = cache.get(tid)
        if hit is not None:
            return hit
        if z3.is_quantifier(t) or not z3.is_app(t) or t.num_args() == 0:
            r = t
        else:
            ch = [rw(c) for c in t.children()]
            changed = any(not c.eq(o) for c, o in zip(ch, t.children()))
            u = t.decl()(*ch) if changed else t
            if t.decl().kind() == z3.Z3_OP_UNINTERPRETED:
                key = u.sexpr()
                r = names.get(key)
                if r is None:
                    r = names[key] = z3.Const(f"uf!{len(names)}", t.sort())
            else:
                r = u
        cache[tid] = r
        return r
    return [rw(e) for e in exprs]


def _check(hyps, neg_goal, timeout_ms, strategy, seed=0):
    t0 = time.time()
    if strategy == "nlsat":
        s = nlsat_tactic().solver()
    else:
        s = z3.Solver()
        if seed:
            s.set("random_seed", seed)
            s.set("smt.random_seed", seed) if False else None
    s.set("timeout", int(timeout_ms))
    s.add(*hyps)
    s.add(neg_goal)
    try:
        r = s.check()
    except z3.Z3Exception:
        return "unknown", None, time.time() - t0
    m = s.model() if r == z3.sat else None
    return str(r), m, time.time() - t0


def prove(hyps, goal, budget_s=20.0, want_model=True):
    """-> (status, model, backend, seconds); status in unsat / sat / unknown"""
    gs = z3.simplify(goal) if not z3.is_true(goal) else goal
    if z3.is_true(gs):
        return "unsat", None, "simplify", 0.0
    neg = z3.Not(goal)
    uf = T.has_uf(list(hyps) + [goal])
    total = 0.0
    ph = None
    if uf:
        try:
            ph = purify(list(hyps) + [neg])      # pure nonlinear real arithmetic (congruence forgotten): unsat here implies unsat of the original
        except z3.Z3Exception:
            ph = None
    plan = [("pnlsat", min(budget_s, 3.0)), ("default", min(budget_s, 2.0)), ("pnlsat", budget_s), ("default", budget_s)] if uf else \
           [("nlsat", min(budget_s, 2.0)), ("default", min(budget_s, 2.0)), ("nlsat", budget_s), ("default", budget_s)]
    for strat, b in plan:
        if strat == "pnlsat":
            if ph is None:
                continue
            r, m, dt = _check(ph[:-1], ph[-1], b * 1000, "nlsat")
            total += dt
            if r == "unsat":
                return "unsat", None, "z3-nlsat(purified)", total
            continue        # a model of the purified formula is not a model of the original
        r, m, dt = _check(hyps, neg, b * 1000, strat)
        total += dt
        if r == "unsat":
            return "unsat", None, "z3-" + strat, total
        if r == "sat":
            return "sat", m, "z3-" + strat, total
    return "unknown", None, "z3-portfolio", total


def fp_bump_effective(meta):
    """IEEE-754 (round-to-nearest-even) obligation: fl(base + eps) > base for every finite float32 AND float64 base
    (or for the given literal base).  sat means the bump can be absorbed by rounding."""
    from fractions import Fraction
    t0 = time.time()
    eps = Fraction(meta["eps"])
    for sort, nm in ((z3.Float32(), "float32"), (z3.Float64(), "float64")):
        s = z3.Solver(); s.set("timeout", 10000)
        b = z3.FP("base_" + nm, sort)
        e = z3.FPVal(float(eps), sort)
        if meta.get("base_num") is not None:
            s.add(b == z3.FPVal(float(Fraction(meta["base_num"])), sort))
        s.add(z3.Not(z3.fpIsNaN(b)), z3.Not(z3.fpIsInf(b)))
        if meta.get("base_abs_le") is not None:
            s.add(z3.fpLEQ(z3.fpAbs(b), z3.FPVal(float(meta["base_abs_le"]), sort)))
        moved = z3.fpGT(z3.fpAdd(z3.RNE(), b, e), b) if eps > 0 else z3.fpLT(z3.fpAdd(z3.RNE(), b, e), b)
        s.add(z3.Not(moved))
        r = s.check()
        if r != z3.unsat:
            return {"status": str(r), "backend": "z3-fp(" + nm + ")", "time": time.time() - t0, "model": s.model() if r == z3.sat else None,
                    "goal": "fl(base + eps) > base"}
    return {"status": "unsat", "backend": "z3-fp", "time": time.time() - t0, "model": None, "goal": None}


def discharge(ob, ctx, budget_s=20.0):
    """discharge one obligation of a path.  Returns dict(status, backend, time, model, stage)."""
    if ob.kind == "ieee-bump-effective":
        return fp_bump_effective(ob.meta)
    goals = split_goal(ob.goal)
    total = 0.0
    backend = ""
    for g in goals:
        if ob.meta and ob.meta.get("tactic") == "ring":
            okr, dtr = ring_prove(list(ob.hyps) + relevant_axioms(ctx.axioms, list(ob.hyps) + [g]), g)
            total += dtr
            if okr:
                backend = "sympy-ring+z3"
                continue
        # first attempt: only the hypotheses that speak exclusively about symbols of the goal (and of its relevant axioms).
        # A subset of the hypotheses, hence sound; irrelevant polynomial facts are what makes nlsat slow.
        try:
            gax = relevant_axioms(ctx.axioms, [g])
            gs = set(T.base_symbols(g))
            for a_ in gax:
                gs |= T.base_symbols(a_)
            nar = [f for f in ob.hyps if T.base_symbols(f) <= gs]
            if len(nar) < len(ob.hyps):
                st0, _, be0, dt0 = prove(nar + gax, g, min(budget_s, 2.0))
                total += dt0
                if st0 == "unsat":
                    backend = be0 + "(narrow)"
                    continue
        except z3.Z3Exception:
            pass
        ax = relevant_axioms(ctx.axioms, list(ob.hyps) + [g])
        st, m, be, dt = prove(list(ob.hyps) + ax, g, budget_s)
        total += dt
        backend = be
        if st == "unsat":
            continue
        # not proved on the (possibly cut) formula: re-check on the un-abstracted path formula
        if ob.under_cut:
            full = [f for f, _ in ctx.facts[: ob.nfacts]] + list(ctx.cutdefs[: ob.ncuts])
            ax2 = relevant_axioms(ctx.axioms, full + [g])
            st2, m2, be2, dt2 = prove(full + ax2, g, max(1.0, budget_s / 2))
            total += dt2
            if st2 == "unsat":
                backend = be2 + "(uncut)"
                continue
            return {"status": st2, "backend": be2 + "(uncut)", "time": total, "model": m2, "goal": g, "cut_status": st, "assertions": full + ax2}
        return {"status": st, "backend": be, "time": total, "model": m, "goal": g, "assertions": list(ob.hyps) + ax}
    return {"status": "unsat", "backend": backend, "time": total, "model": None, "goal": None}


# ------------------------------------------------------------------------------------------------
# "ring" back end: rational-function identities by substitution of the definitional hypotheses and normalisation (sympy)
# ------------------------------------------------------------------------------------------------
class _RingGiveUp(Exception):
    pass


def _to_sympy(t, syms, dens, budget):
    import sympy
    budget[0] -= 1
    if budget[0] < 0:
        raise _RingGiveUp("term too large")
    if z3.is_rational_value(t):
        return sympy.Rational(t.numerator_as_long(), t.denominator_as_long())
    if z3.is_int_value(t):
        return sympy.Integer(t.as_long())
    k = t.decl().kind() if z3.is_app(t) else None
    ch = t.children() if z3.is_app(t) else []
    if k == z3.Z3_OP_ADD:
        return sympy.Add(*[_to_sympy(c, syms, dens, budget) for c in ch])
    if k == z3.Z3_OP_MUL:
        return sympy.Mul(*[_to_sympy(c, syms, dens, budget) for c in ch])
    if k == z3.Z3_OP_SUB:
        r = _to_sympy(ch[0], syms, dens, budget)
        for c in ch[1:]:
            r = r - _to_sympy(c, syms, dens, budget)
        return r
    if k == z3.Z3_OP_UMINUS:
        return -_to_sympy(ch[0], syms, dens, budget)
    if k == z3.Z3_OP_DIV:
        if not (z3.is_rational_value(ch[1]) or z3.is_int_value(ch[1])):
            dens.append(ch[1])
        return _to_sympy(ch[0], syms, dens, budget) / _to_sympy(ch[1], syms, dens, budget)
    if k == z3.Z3_OP_TO_REAL:
        return _to_sympy(ch[0], syms, dens, budget)
    # anything else (constants, uninterpreted applications, if-then-else ...) is an opaque indeterminate: sound, possibly incomplete
    key = t.get_id()
    if key not in syms:
        syms[key] = (sympy.Symbol(f"v{key}"), t)
    return syms[key][0]


class _RingTimeout(BaseException):
    pass


def ring_prove(hyps, goal, max_nodes=4000, limit_s=20.0):
    """time-limited wrapper (sympy has no budget of its own): SIGALRM where available (worker processes run harnesses in their main thread)"""
    import signal, threading
    if threading.current_thread() is not threading.main_thread() or not hasattr(signal, "setitimer"):
        return _ring_prove(hyps, goal, max_nodes)
    def onalarm(signum, frame):
        raise _RingTimeout()
    old = signal.signal(signal.SIGALRM, onalarm)
    t0 = time.time()
    signal.setitimer(signal.ITIMER_REAL, limit_s)
    try:
        return _ring_prove(hyps, goal, max_nodes)
    except _RingTimeout:
        return False, time.time() - t0
    finally:
        signal.setitimer(signal.ITIMER_REAL, 0)
        signal.signal(signal.SIGALRM, old)


def _ring_prove(hyps, goal, max_nodes=4000):
    """goal  l == r  over the reals.  Hypotheses of the form  c == e  (c an uninterpreted constant not in e) and equalities linear in some constant
    are used as substitutions; the goal holds if  l - r  normalises to a fraction with numerator 0 and every denominator met on the way is
    non-zero under the hypotheses (checked by z3).  -> (proved, seconds)"""
    import sympy
    t0 = time.time()
    if not (z3.is_app(goal) and goal.decl().kind() == z3.Z3_OP_EQ and z3.is_real(goal.arg(0))):
        return False, 0.0
    try:
        syms, dens, budget = {}, [], [max_nodes]
        e = _to_sympy(goal.arg(0), syms, dens, budget) - _to_sympy(goal.arg(1), syms, dens, budget)
        eqs = []
        for h in hyps:
            if z3.is_app(h) and h.decl().kind() == z3.Z3_OP_EQ and z3.is_real(h.arg(0)):
                eqs.append(_to_sympy(h.arg(0), syms, dens, budget) - _to_sympy(h.arg(1), syms, dens, budget))
        used = set()
        for _round in range(40):
            e = sympy.together(e)
            num = sympy.expand(sympy.fraction(sympy.cancel(e))[0])
            if num == 0:
                break
            free = num.free_symbols
            progressed = False
            for i, q in enumerate(eqs):
                if i in used:
                    continue
                qn = sympy.expand(sympy.fraction(sympy.together(q))[0])
                for s in sorted(qn.free_symbols & free, key=str):
                    p = sympy.Poly(qn, s)
                    if p.degree() == 1 and not (p.coeff_monomial(s).free_symbols):
                        sol = -p.coeff_monomial(1) / p.coeff_monomial(s)
                        e = e.subs(s, sol)
                        eqs = [qq.subs(s, sol) for qq in eqs]
                        used.add(i); progressed = True
                        break
                if progressed:
                    break
            if not progressed:
                # ideal membership: the numerator reduces to zero modulo a Groebner basis of the remaining polynomial hypotheses over its symbols
                polys = []
                for i, q in enumerate(eqs):
                    if i in used:
                        continue
                    qn = sympy.expand(sympy.fraction(sympy.together(q))[0])
                    if qn != 0 and qn.free_symbols and (qn.free_symbols & free) and qn.is_polynomial(*qn.free_symbols):
                        polys.append(qn)
                allsyms = set(free)
                for q_ in polys:
                    allsyms |= q_.free_symbols
                if not polys or len(allsyms) > 30:
                    return False, time.time() - t0
                gens = sorted(allsyms, key=str)
                G = sympy.groebner(polys, *gens, order="grevlex")
                _, rem = G.reduce(num)
                if sympy.expand(rem) != 0:
                    return False, time.time() - t0
                break
        else:
            return False, time.time() - t0
        # every symbolic denominator must be non-zero under the hypotheses
        seen = set()
        for d in dens:
            if d.get_id() in seen:
                continue
            seen.add(d.get_id())
            r, _, _ = _check(list(hyps), d == 0, 2000, "nlsat")
            if r != "unsat":
                r, _, _ = _check(list(hyps), d == 0, 2000, "default")
            if r != "unsat":
                return False, time.time() - t0
        return True, time.time() - t0
    except (_RingGiveUp, Exception):
        return False, time.time() - t0
