"""op models (assumed contracts of torch, DESIGN 3.3).  Payloads are numpy object arrays of z3 terms."""
import math, builtins
from fractions import Fraction
import numpy as np
import torch, z3
import torch.utils._pytree as pytree
from .core import (Sym, P, C, Ctx, Unsupported, lift, toreal, toint, tobool, conv_for, fresh, rv, num, is_num,
                   SymScalar, TFloat, obj_array, const_like, R, I, B, TRUE, FALSE)
from . import terms as T
from .terms import expf, logf

HANDLERS = {}
PROPS = {}
STATS = {"ops": {}}


def handles(*names):
    def deco(fn):
        for n in names:
            HANDLERS[n] = fn
        return fn
    return deco


def prop(*names):
    def deco(fn):
        for n in names:
            PROPS[n] = fn
        return fn
    return deco


def has_sym(x):
    return any(isinstance(l, Sym) for l in pytree.tree_leaves(x))


def meta_call(func, args, kwargs):
    def f(x):
        if isinstance(x, Sym):
            return x.as_subclass(torch.Tensor)
        if isinstance(x, torch.Tensor) and x.device.type != "meta":
            return x.to("meta")
        if isinstance(x, SymScalar):
            return 1.5 if z3.is_real(x.term) else 1
        if isinstance(x, torch.device) and x.type == "meta":
            return x
        return x
    with torch._C.DisableTorchFunctionSubclass():
        return func(*pytree.tree_map(f, args), **pytree.tree_map(f, kwargs))


def out_meta(func, args, kwargs):
    return meta_call(func, args, kwargs)


META_PASS = {"_has_compatible_shallow_copy_type", "dim", "size", "ndimension", "numel", "is_floating_point", "stride", "is_contiguous", "__len__", "nelement",
             "is_complex", "is_signed", "element_size", "is_same_size", "is_inference", "is_nonzero_", "get_device", "is_set_to",
             "type_", "is_shared", "is_pinned", "is_conj", "is_neg", "_is_view", "is_sparse", "has_names", "is_quantized",
             "is_coalesced", "is_distributed", "is_leaf", "_has_symbolic_sizes_strides", "dim_order", "storage_offset"}


def func_name(func):
    n = getattr(func, "__name__", None)
    if n is None:
        n = str(func)
    return n


def dispatch(func, args, kwargs):
    name = func_name(func)
    if name == "__get__":
        pname = getattr(getattr(func, "__self__", None), "__name__", "?")
        h = PROPS.get(pname)
        if h is not None:
            return h(args[0])
        return meta_call(func, args, kwargs)
    if name == "__set__":
        pname = getattr(getattr(func, "__self__", None), "__name__", "?")
        if pname == "requires_grad":
            return None
        if pname == "data":
            tgt, src = args
            tgt._p = P(src).copy() if not isinstance(src, Sym) else src._p
            return None
        if pname == "grad":
            return None
        raise Unsupported("set property " + pname)
    if name in META_PASS:
        return meta_call(func, args, kwargs)
    h = HANDLERS.get(name)
    if h is None:
        raise Unsupported("op " + name)
    STATS["ops"][name] = STATS["ops"].get(name, 0) + 1
    res = h(func, args, kwargs)
    ctx_ = Ctx.cur
    if ctx_ is not None and ctx_.notes.get("grad_alias") and (name in ("detach", "detach_", "item") or not torch.is_grad_enabled()):
        _alias_cut(ctx_, args, kwargs, res)
    # ghost: does the result carry an autograd graph (depends, through differentiable ops, on a tensor that requires grad)?
    if name not in NO_GRAPH and torch.is_grad_enabled():
        g = False
        gs = None
        for a_ in pytree.tree_leaves((args, kwargs)):
            if isinstance(a_, Sym) and a_._g and (a_._g.get("requires_grad") or a_._g.get("graph")):
                g = True
                # gradset: the leaves reachable from the result through differentiable ops
                own = a_._g.get("gradset") or (frozenset([a_._g.get("leaf", id(a_))]) if a_._g.get("requires_grad") else frozenset())
                gs = own if gs is None else (gs | own)
        if g:
            for r_ in pytree.tree_leaves(res):
                if isinstance(r_, Sym) and r_.dtype.is_floating_point and not (r_._g or {}).get("requires_grad"):
                    r_._g = dict(r_._g or {}); r_._g["graph"] = True
                    r_._g["gradset"] = (r_._g.get("gradset") or frozenset()) | (gs or frozenset())
    return res


def _alias_cut(ctx, args, kwargs, res):
    """gradient ghost (C16 harnesses only): the result of an operation that autograd does not record (detach, anything under no_grad) on
    operands that carry a graph is replaced, element by element, by alias symbols whose definitions are kept aside.  A result of the
    function under contract that still mentions such an alias depends on a leaf along a path autograd does not differentiate."""
    carries = any(isinstance(a_, Sym) and a_._g and (a_._g.get("requires_grad") or a_._g.get("graph") or a_._g.get("aliased"))
                  for a_ in pytree.tree_leaves((args, kwargs)))
    if not carries:
        return
    defs = ctx.notes.setdefault("gcut_defs", {})
    for r_ in pytree.tree_leaves(res):
        if isinstance(r_, Sym) and r_.dtype.is_floating_point:
            p = P(r_)
            new = np.empty(p.shape, dtype=object)
            for idx in np.ndindex(*p.shape):
                t = p[idx]
                if is_num(t) or (z3.is_const(t) and t.get_id() in defs):
                    new[idx] = t; continue
                a = fresh("gcut", R)
                defs[a.get_id()] = (a, t)
                new[idx] = a
            r_._p = new
            r_._g = dict(r_._g or {}); r_._g["aliased"] = True


NO_GRAPH = {"detach", "detach_", "requires_grad_", "_make_subclass", "__bool__", "item", "size", "dim", "ge", "gt", "le", "lt", "eq", "ne",
            "__ge__", "__gt__", "__le__", "__lt__", "__eq__", "__ne__", "long", "int", "bool", "byte", "floor", "sign", "argsort", "nonzero"}


@handles("_make_subclass")
def _make_subclass(func, args, kwargs):
    cls, data = args[0], args[1]
    rg = args[2] if len(args) > 2 else kwargs.get("require_grad", kwargs.get("requires_grad", False))
    s = Sym.make(P(data).copy() if False else P(data), data.dtype)
    s._g = {"requires_grad": bool(rg)}
    if cls is torch.nn.Parameter:
        s._is_param = True
    return s


FACTORY_RANDOM = {"randn", "rand", "randint", "randperm", "multinomial", "randn_like", "rand_like", "normal", "bernoulli"}


def _fix_device(args, kwargs):
    def f(x):
        if isinstance(x, torch.device) and x.type == "meta":
            return torch.device("cpu")
        return x
    return pytree.tree_map(f, args), pytree.tree_map(f, kwargs)


def lift_tensor(t):
    """a concrete float tensor -> constant Sym (exact lifting of its values)"""
    return Sym.make(P(t), t.dtype)


def dispatch_mode(func, args, kwargs):
    if Ctx.cur is None:
        return func(*args, **kwargs)
    if has_sym((args, kwargs)) or any(isinstance(l, SymScalar) for l in pytree.tree_leaves((args, kwargs))):
        return dispatch(func, args, kwargs)
    name = func_name(func)
    if name in FACTORY_RANDOM and name in HANDLERS:
        return HANDLERS[name](func, args, kwargs)
    if name in ("tensor", "as_tensor") and args and any(isinstance(l, TFloat) for l in pytree.tree_leaves(args[0])):
        # a tensor built from exact symbolic scalar constants (np.log(2*np.pi) ...): keep the terms
        dt = kwargs.get("dtype") or torch.get_default_dtype()
        return Sym.make(obj_array(args[0]), dt)
    if name == "linspace":
        return _linspace(func, args, kwargs)
    args, kwargs = _fix_device(args, kwargs)
    out = func(*args, **kwargs)
    if isinstance(out, torch.Tensor) and not isinstance(out, Sym) and out.is_floating_point() and out.device.type != "meta" \
            and name in LIFT_FACTORIES:
        if name in ("empty", "empty_like", "new_empty", "empty_strided", "Tensor", "FloatTensor", "DoubleTensor") and \
                (name.startswith("empty") or name == "new_empty" or (args and all(isinstance(a_, int) for a_ in args))):
            # uninitialised memory: every element is an unknown value (POISON), never a concrete number
            a = np.empty(tuple(out.shape), dtype=object)
            for idx in np.ndindex(*a.shape):
                a[idx] = fresh("POISON", R)
            return Sym.make(a, out.dtype)
        return lift_tensor(out)
    return out


LIFT_FACTORIES = {"zeros", "ones", "eye", "tensor", "as_tensor", "full", "empty", "arange", "from_numpy", "zeros_like", "ones_like",
                  "new_zeros", "new_ones", "new_full", "new_tensor", "float", "double", "to", "type", "log", "exp", "sqrt",
                  "Tensor", "FloatTensor", "DoubleTensor", "mul", "add", "sub", "div", "neg", "clone", "detach", "reshape", "view",
                  "diag", "cat", "stack", "__getitem__", "expand", "unsqueeze", "squeeze", "permute", "transpose", "t", "sum",
                  "__mul__", "__add__", "__sub__", "__truediv__", "__rmul__", "__radd__", "__rsub__", "__rtruediv__", "__neg__",
                  "pad", "repeat", "contiguous", "cumsum", "mean", "abs", "pow", "__pow__", "tril", "triu", "index_select", "gather",
                  "log1p", "__new__", "empty_like", "full_like"}


def _linspace(func, args, kwargs):
    a = list(args)
    start, end = a[0], a[1]
    steps = a[2] if len(a) > 2 else kwargs["steps"]
    s, e = Fraction(start), Fraction(end)
    vals = [rv(s + (e - s) * i / (steps - 1)) if steps > 1 else rv(s) for i in range(steps)]
    return Sym.make(obj_array(vals), kwargs.get("dtype") or torch.get_default_dtype())


# ------------------------------------------------------------------------------------------------
# helpers
# ------------------------------------------------------------------------------------------------
def vec1(f):
    return np.frompyfunc(f, 1, 1)


def vec2(f):
    return np.frompyfunc(f, 2, 1)


def apply1(f, p):
    if p.size == 0:
        return np.empty(p.shape, dtype=object)
    out = np.empty(p.shape, dtype=object)
    fo = out.reshape(-1) if out.flags.c_contiguous else None
    flat = list(p.reshape(-1))
    res = [f(x) for x in flat]
    out.reshape(-1)[:] = res
    return out


def apply2(f, pa, pb):
    pa, pb = np.broadcast_arrays(pa, pb)
    out = np.empty(pa.shape, dtype=object)
    if out.size:
        out.reshape(-1)[:] = [f(x, y) for x, y in zip(pa.reshape(-1), pb.reshape(-1))]
    return out


def norm_dim(d, nd):
    return d % nd if nd else 0


def scalar_of(x):
    """python number / TFloat / 0-dim tensor -> z3 term"""
    if isinstance(x, torch.Tensor):
        p = P(x)
        if p.size != 1:
            raise Unsupported("scalar expected")
        return p.reshape(-1)[0]
    return lift(x)


def getarg(args, kwargs, i, name, default=None):
    if len(args) > i:
        return args[i]
    return kwargs.get(name, default)


def write_into(tgt, payload):
    """in-place write through numpy views (aliasing preserved); logs the write for frame conditions"""
    if not isinstance(tgt, Sym):
        raise Unsupported("in-place symbolic write into a concrete tensor")
    conv = conv_for(tgt.dtype)
    payload = apply1(conv, np.asarray(payload, dtype=object)) if payload.size else payload
    if not tgt._p.flags.writeable:
        raise RuntimeError("unsupported operation: more than one element of the written-to tensor refers to a single memory location")
    tgt._p[...] = np.broadcast_to(payload, tgt._p.shape)
    C().log_write(tgt._p, "inplace")
    return tgt


# ------------------------------------------------------------------------------------------------
# properties
# ------------------------------------------------------------------------------------------------
@prop("T", "mT")
def _p_T(a):
    return Sym.make(P(a).T if a.dim() <= 2 else np.swapaxes(P(a), -1, -2), a.dtype)


@prop("data")
def _p_data(a):
    s = Sym.make(a._p, a.dtype)
    return s


@prop("requires_grad")
def _p_rg(a):
    g = a._g or {}
    return bool(g.get("requires_grad", False))


@prop("grad", "grad_fn")
def _p_grad(a):
    return None


@prop("is_meta")
def _p_ismeta(a):
    return False


@prop("real")
def _p_real(a):
    return a


# ------------------------------------------------------------------------------------------------
# elementwise arithmetic
# ------------------------------------------------------------------------------------------------
def _binop(op_real, op_int=None, partial=None):
    def h(func, args, kwargs):
        a, b = args[0], args[1]
        alpha = kwargs.get("alpha")
        m = meta_call(func, (a, b), {})
        dt = m.dtype
        conv = conv_for(dt) if dt != torch.bool else (lambda t: t)
        pa, pb = P(a), P(b)
        if alpha is not None:
            al = lift(alpha)
            pb = apply1(lambda y: T.mul(conv(y), conv(al)), pb)
        isfloat = dt.is_floating_point
        def g(x, y):
            x, y = conv(x), conv(y)
            return op_real(x, y) if (isfloat or op_int is None) else op_int(x, y)
        return Sym.make(apply2(g, pa, pb), dt)
    return h


def s_div(a, b):
    t = T.div(a, b)
    if is_num(b) and num(b) != 0:
        return t
    C().mark_partial(t, b != 0, "division-nonzero")
    return t


def i_floordiv(a, b):
    if is_num(a) and is_num(b) and num(b) != 0:
        return z3.IntVal(int(num(a) // num(b)))
    return a / b  # z3 int division (floor for positive divisor)


def s_add(x, y):
    r = T.add(x, y)
    for c, o in ((x, y), (y, x)):
        if is_num(c) and not is_num(o) and 0 < abs(num(c)) <= Fraction(1, 10 ** 5):
            # a tiny literal added to a symbolic value: comparisons against the sum are rounding questions (DESIGN 4-C17)
            C().notes.setdefault("bumps", {})[r.get_id()] = (r, o, num(c))
    return r


handles("add", "__add__", "__radd__")(_binop(s_add))
handles("sub", "__sub__")(_binop(lambda x, y: T.sub(x, y)))
handles("mul", "__mul__", "__rmul__", "multiply")(_binop(lambda x, y: T.mul(x, y)))
handles("div", "true_divide", "__truediv__", "divide")(_binop(s_div))


@handles("rsub", "__rsub__")
def _rsub(func, args, kwargs):
    return HANDLERS["sub"](torch.sub, (args[1], args[0]), kwargs) if isinstance(args[1], torch.Tensor) else \
        _binop(lambda x, y: T.sub(y, x))(torch.sub, (args[0], args[1]), kwargs)


@handles("__rtruediv__", "__rdiv__")
def _rdiv(func, args, kwargs):
    return _binop(lambda x, y: s_div(y, x))(torch.div, (args[0], args[1]), kwargs)


@handles("reciprocal")
def _recip(func, args, kwargs):
    return _binop(lambda x, y: s_div(y, x))(torch.div, (args[0], 1.0), {})


@handles("floor_divide", "__floordiv__")
def _floordiv(func, args, kwargs):
    a, b = args
    dt = meta_call(func, args, kwargs).dtype
    if dt.is_floating_point:
        raise Unsupported("float floor_divide")
    return Sym.make(apply2(lambda x, y: i_floordiv(toint(x), toint(y)), P(a), P(b)), dt)


@handles("remainder", "__mod__", "fmod")
def _mod(func, args, kwargs):
    a, b = args
    dt = meta_call(func, args, kwargs).dtype
    if dt.is_floating_point:
        raise Unsupported("float remainder")
    return Sym.make(apply2(lambda x, y: toint(x) % toint(y), P(a), P(b)), dt)


def _inplace(opname):
    def h(func, args, kwargs):
        res = HANDLERS[opname](getattr(torch, opname), args, kwargs)
        tgt = args[0]
        if res.dtype != tgt.dtype and (res.dtype.is_floating_point and not tgt.dtype.is_floating_point):
            raise RuntimeError(f"result type {res.dtype} can't be cast to the desired output type {tgt.dtype}")
        return write_into(tgt, res._p)
    return h


for _n, _o in (("add", "add"), ("sub", "sub"), ("mul", "mul"), ("div", "div")):
    handles(f"__i{_n if _n != 'div' else 'truediv'}__", f"{_n}_")(_inplace(_o))


@handles("addcmul")
def _addcmul(func, args, kwargs):
    """input + value * tensor1 * tensor2"""
    a, t1, t2 = args[0], args[1], args[2]
    v = kwargs.get("value", 1)
    prod = HANDLERS["mul"](torch.mul, (t1, t2), {})
    if not (isinstance(v, (int, float)) and v == 1):
        prod = HANDLERS["mul"](torch.mul, (prod, v), {})
    return HANDLERS["add"](torch.add, (a, prod), {})


@handles("addcdiv")
def _addcdiv(func, args, kwargs):
    """input + value * tensor1 / tensor2"""
    a, t1, t2 = args[0], args[1], args[2]
    v = kwargs.get("value", 1)
    q = HANDLERS["div"](torch.div, (t1, t2), {})
    if not (isinstance(v, (int, float)) and v == 1):
        q = HANDLERS["mul"](torch.mul, (q, v), {})
    return HANDLERS["add"](torch.add, (a, q), {})


handles("addcmul_")(_inplace("addcmul"))
handles("addcdiv_")(_inplace("addcdiv"))


def _unop(f, keep_dtype=True):
    def h(func, args, kwargs):
        a = args[0]
        dt = a.dtype if (a.dtype.is_floating_point or not keep_dtype) else meta_call(func, (a,), {}).dtype
        conv = conv_for(dt)
        return Sym.make(apply1(lambda x: f(conv(x)), P(a)), dt)
    return h


handles("neg", "__neg__", "negative")(_unop(lambda x: T.neg(x)))
handles("positive", "__pos__")(_unop(lambda x: x))


def s_abs(x):
    if is_num(x):
        return rv(abs(num(x))) if z3.is_real(x) else z3.IntVal(abs(int(num(x))))
    return z3.If(x >= 0, x, -x)


handles("abs", "__abs__", "absolute")(_unop(s_abs))


def s_sign(x):
    zero, one = (rv(0), rv(1)) if z3.is_real(x) else (z3.IntVal(0), z3.IntVal(1))
    if is_num(x):
        n = num(x)
        return one if n > 0 else (zero if n == 0 else T.neg(one))
    return z3.If(x > 0, one, z3.If(x < 0, -one, zero))


handles("sign", "sgn")(_unop(s_sign))


def floatfunc(f):
    """unary op whose result is floating (ints are promoted)"""
    def h(func, args, kwargs):
        a = args[0]
        dt = a.dtype if a.dtype.is_floating_point else torch.get_default_dtype()
        return Sym.make(apply1(lambda x: f(toreal(x)), P(a)), dt)
    return h


def small_term(t, limit=60):
    return len(T.subterm_ids([t])) <= limit


def _find_ite(t, depth=0):
    """an ite subterm reachable through arithmetic operators only"""
    if not z3.is_app(t) or depth > 6:
        return None
    k = t.decl().kind()
    if k == z3.Z3_OP_ITE:
        return t
    if k in (z3.Z3_OP_ADD, z3.Z3_OP_SUB, z3.Z3_OP_MUL, z3.Z3_OP_UMINUS, z3.Z3_OP_DIV):
        for c in t.children():
            r = _find_ite(c, depth + 1)
            if r is not None:
                return r
    return None


def _factors(t):
    """t as sign * product of factors (syntactic)"""
    k = t.decl().kind() if z3.is_app(t) else None
    if k == z3.Z3_OP_MUL:
        out = []
        for c in t.children():
            out += _factors(c)
        return out
    if k == z3.Z3_OP_UMINUS:
        return [rv(-1)] + _factors(t.arg(0))
    return [t]


def _hoist_sign(t):
    """(-a)/d -> -(a/d)   (syntactic normal form used when looking for exp(a) exp(-a) = 1 instances)"""
    if z3.is_app(t) and t.decl().kind() == z3.Z3_OP_DIV and not is_num(t.arg(1)):
        fs = _factors(t.arg(0))
        sign = 1
        rest = []
        for f in fs:
            if is_num(f) and num(f) < 0:
                sign = -sign; f = rv(-num(f))
            rest.append(f)
        out = rv(1)
        for r in rest:
            out = T.mul(out, r)
        q = z3.simplify(out) / t.arg(1)
        return -q if sign < 0 else q
    return t


def _cancel_div(t):
    """(d * rest) / d -> rest for a syntactically identical non-numeric factor d (valid wherever the division is defined)"""
    if not (z3.is_app(t) and t.decl().kind() == z3.Z3_OP_DIV) or is_num(t.arg(1)):
        return t
    d = t.arg(1)
    fs = _factors(t.arg(0))
    for i, f in enumerate(fs):
        if z3.eq(f, d):
            rest = fs[:i] + fs[i + 1:]
            out = rv(1)
            for r in rest:
                out = T.mul(out, r)
            return z3.simplify(out)
    return t


def s_exp(t):
    if is_num(t) and num(t) == 0:
        return rv(1)
    ctx = C()
    if ctx.notes.get("exp_monotone"):
        t2 = _cancel_div(t)
        if not z3.eq(t2, t):
            return s_exp(t2)
    it = _find_ite(t) if small_term(t, 120) else None
    if it is not None and z3.is_real(it):
        c_, a_, b_ = it.children()
        ta = z3.simplify(z3.substitute(t, (it, a_)), som=True)
        tb = z3.simplify(z3.substitute(t, (it, b_)), som=True)
        return z3.If(c_, s_exp(ta), s_exp(tb))
    key = ("exp", t.get_id())
    hit = ctx.memo.get(key)
    if hit is not None:
        return hit[1]
    if not (z3.is_app(t) and t.decl().kind() == z3.Z3_OP_UNINTERPRETED) and small_term(t, 120):
        ts = z3.simplify(t, som=True, push_ite_arith=True)
        if z3.is_app(ts) and ts.decl().kind() == z3.Z3_OP_ITE:
            c_, a_, b_ = ts.children()
            e = z3.If(c_, s_exp(a_), s_exp(b_))
            ctx.memo[key] = (t, e)
            return e
        if z3.is_app(ts) and ts.decl().kind() == z3.Z3_OP_UNINTERPRETED and ts.decl().name() == "logf":
            # exp(c * log(u) / c) etc.: the exponent IS log(u)
            lg = s_log(ts.arg(0)) if True else ts
            e = s_exp(lg)
            ctx.memo[key] = (t, e)
            return e
    e = expf(t)
    ctx.memo[key] = (t, e)
    ctx.axiom([e], e > 0)
    try:
        if not small_term(t):
            raise Unsupported("large exponent")
        rest, numr, den = T.exp_of_loglin(z3.simplify(t, som=True))
        rs = z3.simplify(rest)
        if is_num(rs) and num(rs) == 0 and not (is_num(numr) and is_num(den)):
            # exp(sum c_i log p_i) = prod p_i^c_i   (instance of the exp/log laws; holds where the logs are defined)
            _, terms = T.loglin(z3.simplify(t, som=True))
            ctx.axiom([e], z3.Implies(z3.And([p > 0 for _, p in terms]), e * den == numr))
    except Unsupported:
        pass
    if z3.is_app(t) and t.decl().kind() == z3.Z3_OP_UNINTERPRETED and t.decl().name() == "logf":
        arg = t.arg(0)
        ctx.axiom([e], z3.Implies(arg > 0, e == arg))     # exp(log u) = u where defined
    else:
        ctx.axiom([e], logf(e) == t)
    # exponent laws against the exponentials already present on this path (instances of exp(a+b) = exp(a) exp(b))
    exps = ctx.notes.setdefault("exps", [])
    small = len(T.subterm_ids([t])) <= 40
    for s_, es in (exps[-24:] if small else []):
        try:
            if ctx.notes.get("exp_monotone"):
                # strict monotonicity of exp between the exponentials on this path (switched on by contracts whose branch conditions compare them)
                ctx.axiom([e, es], z3.And(z3.Implies(t < s_, e < es), z3.Implies(t > s_, e > es)))
            tot = z3.simplify(s_ + t)
            if ctx.notes.get("exp_monotone") and not is_num(tot):
                tot = z3.simplify(_hoist_sign(s_) + _hoist_sign(t))
            if is_num(tot) and num(tot) == 0:
                ctx.axiom([e, es], e * es == 1); continue
            dif = z3.simplify(s_ - t)
            if is_num(dif) and num(dif) == 0:
                ctx.axiom([e, es], e == es); continue
            if is_num(z3.simplify(t - 2 * s_)) and num(z3.simplify(t - 2 * s_)) == 0:
                ctx.axiom([e, es], e == es * es)
            elif is_num(z3.simplify(s_ - 2 * t)) and num(z3.simplify(s_ - 2 * t)) == 0:
                ctx.axiom([e, es], es == e * e)
            elif is_num(z3.simplify(t + 2 * s_)) and num(z3.simplify(t + 2 * s_)) == 0:
                ctx.axiom([e, es], e * es * es == 1)
            elif is_num(z3.simplify(s_ + 2 * t)) and num(z3.simplify(s_ + 2 * t)) == 0:
                ctx.axiom([e, es], es * e * e == 1)
        except z3.Z3Exception:
            pass
    exps.append((t, e))
    ctx.atoms.append(("exp", t, e, None))
    return e


def s_log(t):
    if is_num(t) and num(t) == 1:
        return rv(0)
    l = logf(t)
    C().mark_partial(l, t > 0, "log-arg-positive")
    C().axiom([l], z3.Implies(t > 0, expf(l) == t))
    if C().notes.get("exp_monotone"):
        # strict monotonicity of log between the logarithms on this path (see s_exp)
        logs = C().notes.setdefault("logs", [])
        if all(not z3.eq(l, l2) for _, l2 in logs):
            for t2, l2 in logs[-24:]:
                C().axiom([l, l2], z3.Implies(z3.And(t > 0, t2 > 0), z3.And(z3.Implies(t < t2, l < l2), z3.Implies(t > t2, l > l2))))
            logs.append((t, l))
    if z3.is_app(t) and t.decl().kind() == z3.Z3_OP_UNINTERPRETED and t.decl().name() == "expf":
        C().axiom([l], l == t.arg(0))
    if not is_num(t) and _find_ite(t) is not None:
        C().axiom([l], z3.Implies(t == 1, l == 0))        # log of an indicator-valued argument (torch.distributions' support masks): log 1 = 0
    return l


def s_sqrt(t):
    if is_num(t):
        n = num(t)
        if n >= 0:
            rn, rd = math.isqrt(n.numerator), math.isqrt(n.denominator)
            if rn * rn == n.numerator and rd * rd == n.denominator:
                return rv(Fraction(rn, rd))
    ctx = C()
    key = ("sqrt", t.get_id())
    hit = ctx.memo.get(key)
    if hit is None:
        s = fresh("sqrt")
        T.SQRT_DEFS[s.get_id()] = (s, t)
        hit = ctx.memo[key] = (t, s)
        ctx.mark_partial(s, t >= 0, "sqrt-arg-nonneg")
        ctx.axiom([s], z3.Implies(t >= 0, z3.And(s >= 0, s * s == t)))
    s = hit[1]
    return s


handles("exp")(floatfunc(s_exp))
handles("log")(floatfunc(s_log))
handles("sqrt")(floatfunc(s_sqrt))
handles("log1p")(floatfunc(lambda t: s_log(T.add(rv(1), t))))
handles("expm1")(floatfunc(lambda t: T.sub(s_exp(t), rv(1))))
handles("rsqrt")(floatfunc(lambda t: s_div(rv(1), s_sqrt(t))))


def s_softplus(u, beta=None, threshold=None):
    """softplus(u; beta) = log(1 + exp(beta u)) / beta  (the threshold shortcut of torch is a float optimisation)"""
    if beta is None or (is_num(beta) and num(beta) == 1):
        e = s_exp(u)
        l = logf(T.add(rv(1), e))
        C().axiom([l], expf(l) == 1 + e)
        C().axiom([l], l > 0)
        C().axiom([l], l > u)
        C().atoms.append(("softplus", u, l, None))
        return l
    e = s_exp(T.mul(beta, u))
    l = logf(T.add(rv(1), e))
    C().axiom([l], expf(l) == 1 + e)
    r = T.div(l, beta)
    C().axiom([l], z3.Implies(beta > 0, z3.And(l > 0, l > beta * u)))
    C().atoms.append(("softplus", u, r, beta))
    return r


@handles("softplus")
def _softplus(func, args, kwargs):
    a = args[0]
    beta = getarg(args, kwargs, 1, "beta", 1)
    b = None if (isinstance(beta, (int, float)) and not isinstance(beta, TFloat) and beta == 1) else lift(beta)
    if b is not None:
        b = toreal(b)
    return Sym.make(apply1(lambda x: s_softplus(toreal(x), b), P(a)), a.dtype)


def s_sigmoid(u):
    e = s_exp(T.neg(u))
    r = T.div(rv(1), T.add(rv(1), e))
    C().atoms.append(("sigmoid", u, r, None))
    return r


handles("sigmoid")(floatfunc(s_sigmoid))


def s_tanh(u):
    # tanh u = (e^{2u} - 1) / (e^{2u} + 1)
    e = s_exp(T.mul(rv(2), u))
    return T.div(T.sub(e, rv(1)), T.add(e, rv(1)))


handles("tanh")(floatfunc(s_tanh))


def s_logsigmoid(u):
    return T.neg(s_softplus(T.neg(u)))


handles("logsigmoid", "log_sigmoid")(floatfunc(s_logsigmoid))


def _opaque_unary(name):
    f = T.opaque(name)
    return floatfunc(lambda t: f(t))


def s_atan(u):
    f = T.opaque("atanf")
    a = f(u)
    ctx = C()
    ctx.axiom([a], z3.And(a > -T.PI / 2, a < T.PI / 2, T.opaque("tanf")(a) == u))
    return a


def s_tan(t):
    r = T.opaque("tanf")(t)
    C().axiom([r], z3.Implies(z3.And(t > -T.PI / 2, t < T.PI / 2), T.opaque("atanf")(r) == t))
    return r


T.DERIV_RULES["sinf"] = lambda arg, app: T.opaque("cosf")(arg)
T.DERIV_RULES["cosf"] = lambda arg, app: T.neg(T.opaque("sinf")(arg))
T.DERIV_RULES["atanf"] = lambda arg, app: T.div(rv(1), T.add(rv(1), T.mul(arg, arg)))
T.DERIV_RULES["tanf"] = lambda arg, app: T.add(rv(1), T.mul(app, app))
handles("atan")(floatfunc(s_atan))
handles("tan")(floatfunc(s_tan))

for _n in ("erf", "sin", "cos", "erfinv"):
    handles(_n)(_opaque_unary(_n + "f"))


@handles("atan2")
def _atan2(func, args, kwargs):
    f = z3.Function("atan2f", R, R, R)
    return Sym.make(apply2(lambda x, y: f(toreal(x), toreal(y)), P(args[0]), P(args[1])), args[0].dtype)


@handles("pow", "__pow__")
def _pow(func, args, kwargs):
    a, e = args[0], args[1]
    if isinstance(e, torch.Tensor):
        pe = P(e)
        if pe.size == 1 and is_num(pe.reshape(-1)[0]):
            e = num(pe.reshape(-1)[0])
            e = int(e) if e.denominator == 1 else float(e)
        else:
            raise Unsupported("tensor exponent")
    if not isinstance(a, torch.Tensor):
        # scalar ** tensor
        raise Unsupported("scalar ** tensor")
    dt = meta_call(torch.pow, (a, e if not isinstance(e, TFloat) else float(e)), {}).dtype
    conv = conv_for(dt)
    if isinstance(e, int) or (isinstance(e, float) and float(e).is_integer() and not isinstance(e, TFloat)):
        n = int(e)
        if n >= 0:
            return Sym.make(apply1(lambda x: T.ipow(conv(x), n), P(a)), dt)
        return Sym.make(apply1(lambda x: s_div(rv(1), T.ipow(toreal(x), -n)), P(a)), dt)
    if isinstance(e, float) and not isinstance(e, TFloat) and e == 0.5:
        return Sym.make(apply1(lambda x: s_sqrt(toreal(x)), P(a)), dt)
    raise Unsupported(f"pow with exponent {e!r}")


@handles("__rpow__")
def _rpow(func, args, kwargs):
    raise Unsupported("scalar ** tensor")


@handles("square")
def _square(func, args, kwargs):
    return HANDLERS["pow"](torch.pow, (args[0], 2), {})


# ------------------------------------------------------------------------------------------------
# comparisons (NaN-aware: an undefined operand makes the comparison False) and logic
# ------------------------------------------------------------------------------------------------
def _harmonise(x, y):
    if z3.is_real(x) or z3.is_real(y):
        return toreal(x), toreal(y)
    if z3.is_int(x) or z3.is_int(y):
        return toint(x), toint(y)
    return x, y


def _cmp(opf, is_ne=False):
    def h(func, args, kwargs):
        a, b = args[0], args[1]
        meta_call(func, (a, b), {})
        ctx = C()
        def g(x, y):
            x, y = _harmonise(lift(x), lift(y))
            if is_num(x) and is_num(y):
                return z3.BoolVal(bool(opf(num(x), num(y))))
            c = opf(x, y)
            if ctx.partial:
                d = z3.And(ctx.defcond(x), ctx.defcond(y))
                ds = z3.simplify(d)
                if not z3.is_true(ds):
                    c = z3.Or(z3.Not(d), c) if is_ne else z3.And(d, c)
                    ctx.total.add(c.get_id())
                    ctx.events.append(c)
            return c
        return Sym.make(apply2(g, P(a), P(b)), torch.bool)
    return h


handles("ge", "__ge__", "greater_equal")(_cmp(lambda x, y: x >= y))
handles("gt", "__gt__", "greater")(_cmp(lambda x, y: x > y))
handles("le", "__le__", "less_equal")(_cmp(lambda x, y: x <= y))
handles("lt", "__lt__", "less")(_cmp(lambda x, y: x < y))
handles("eq", "__eq__")(_cmp(lambda x, y: x == y))
handles("ne", "__ne__", "not_equal")(_cmp(lambda x, y: x != y, True))


def b_and(x, y):
    x, y = tobool(x), tobool(y)
    if z3.is_true(x): return y
    if z3.is_true(y): return x
    if z3.is_false(x) or z3.is_false(y): return FALSE
    return z3.And(x, y)


def b_or(x, y):
    x, y = tobool(x), tobool(y)
    if z3.is_false(x): return y
    if z3.is_false(y): return x
    if z3.is_true(x) or z3.is_true(y): return TRUE
    return z3.Or(x, y)


def b_not(x):
    x = tobool(x)
    if z3.is_true(x): return FALSE
    if z3.is_false(x): return TRUE
    return z3.Not(x)


def _logic(f):
    def h(func, args, kwargs):
        a, b = args[0], args[1]
        dt = meta_call(func, (a, b), {}).dtype
        if dt != torch.bool:
            raise Unsupported("bitwise op on integers")
        return Sym.make(apply2(f, P(a), P(b)), torch.bool)
    return h


handles("__and__", "bitwise_and", "logical_and", "__rand__")(_logic(b_and))
handles("__or__", "bitwise_or", "logical_or", "__ror__")(_logic(b_or))
handles("__xor__", "bitwise_xor", "logical_xor")(_logic(lambda x, y: z3.Xor(tobool(x), tobool(y))))


@handles("__invert__", "bitwise_not", "logical_not")
def _inv(func, args, kwargs):
    a = args[0]
    if a.dtype != torch.bool and func_name(func) != "logical_not":
        raise Unsupported("bitwise not on integers")
    return Sym.make(apply1(b_not, P(a)), torch.bool)


@handles("isnan", "isinf")
def _isnan(func, args, kwargs):
    ctx = C()
    return Sym.make(apply1(lambda x: b_not(ctx.defcond(x)) if func_name(func) == "isnan" else FALSE, P(args[0])), torch.bool)


@handles("isfinite")
def _isfinite(func, args, kwargs):
    ctx = C()
    return Sym.make(apply1(lambda x: ctx.defcond(x), P(args[0])), torch.bool)


def s_min2(x, y):
    if is_num(x) and is_num(y): return x if num(x) <= num(y) else y
    return z3.If(x <= y, x, y)


def s_max2(x, y):
    if is_num(x) and is_num(y): return x if num(x) >= num(y) else y
    return z3.If(x >= y, x, y)


@handles("clamp", "clip", "clamp_min", "clamp_max")
def _clamp(func, args, kwargs):
    a = args[0]
    nm = func_name(func)
    if nm == "clamp_min":
        lo, hi = getarg(args, kwargs, 1, "min"), None
    elif nm == "clamp_max":
        lo, hi = None, getarg(args, kwargs, 1, "max")
    else:
        lo, hi = getarg(args, kwargs, 1, "min"), getarg(args, kwargs, 2, "max")
    conv = conv_for(a.dtype)
    def g(x):
        x = conv(x)
        if lo is not None: x = s_max2(x, conv(scalar_of(lo)))
        if hi is not None: x = s_min2(x, conv(scalar_of(hi)))
        return x
    return Sym.make(apply1(g, P(a)), a.dtype)


@handles("clamp_", "clip_", "clamp_min_", "clamp_max_")
def _clamp_inplace(func, args, kwargs):
    nm = func_name(func)[:-1]
    res = _clamp(getattr(torch, nm), args, kwargs)
    return write_into(args[0], res._p)


@handles("relu")
def _relu(func, args, kwargs):
    return Sym.make(apply1(lambda x: s_max2(toreal(x), rv(0)), P(args[0])), args[0].dtype)


@handles("leaky_relu")
def _lrelu(func, args, kwargs):
    a = args[0]
    slope = toreal(lift(getarg(args, kwargs, 1, "negative_slope", 0.01)))
    return Sym.make(apply1(lambda x: z3.If(toreal(x) >= 0, toreal(x), T.mul(slope, toreal(x))), P(a)), a.dtype)


@handles("elu")
def _elu(func, args, kwargs):
    a = args[0]
    alpha = toreal(lift(getarg(args, kwargs, 1, "alpha", 1.0)))
    return Sym.make(apply1(lambda x: z3.If(toreal(x) > 0, toreal(x), T.mul(alpha, T.sub(s_exp(toreal(x)), rv(1)))), P(a)), a.dtype)


@handles("where")
def _where(func, args, kwargs):
    c, a, b = args
    dt = meta_call(func, args, kwargs).dtype
    conv = conv_for(dt)
    pc, pa, pb = np.broadcast_arrays(P(c), P(a), P(b))
    out = np.empty(pc.shape, dtype=object)
    decided = C().intcache

    def g(cc, x, y):
        cc = tobool(cc)
        if z3.is_true(cc): return conv(x)
        if z3.is_false(cc): return conv(y)
        # a condition this path has already decided (e.g. by a masked assignment with the same mask): the same branch, no case split
        hit = decided.get(("bool", z3.simplify(cc).get_id()))
        if hit is not None:
            return conv(x) if hit[1] else conv(y)
        return z3.If(cc, conv(x), conv(y))
    if out.size:
        out.reshape(-1)[:] = [g(cc, x, y) for cc, x, y in zip(pc.reshape(-1), pa.reshape(-1), pb.reshape(-1))]
    return Sym.make(out, dt)


@handles("floor")
def _floor(func, args, kwargs):
    a = args[0]
    def g(x):
        x = toreal(x)
        if is_num(x): return rv(Fraction(math.floor(num(x))))
        return z3.ToReal(z3.ToInt(x))
    return Sym.make(apply1(g, P(a)), a.dtype)


@handles("ceil")
def _ceil(func, args, kwargs):
    a = args[0]
    return Sym.make(apply1(lambda x: T.neg(z3.ToReal(z3.ToInt(T.neg(toreal(x))))), P(a)), a.dtype)
