"""the Dep ghost domain (DESIGN 4-C06): an element is (deps: Bool^D, live: Bool) -- "may depend on input feature j",
"may be non-zero".  Sound for ALL values of the live operands: a product transmits a dependency only through factors that may
be non-zero, so a weight multiplied by a mask entry that is 0 transmits nothing, whatever the weight is."""
import numpy as np
import torch, z3
from . import terms as T
from . import core
from .core import Sym, P, C, lift, is_num, num, TRUE, FALSE
from . import ops, ops_move

NF = [0]


def b_or(a, b):
    if z3.is_true(a) or z3.is_true(b): return TRUE
    if z3.is_false(a): return b
    if z3.is_false(b): return a
    return z3.Or(a, b)


def b_and(a, b):
    if z3.is_false(a) or z3.is_false(b): return FALSE
    if z3.is_true(a): return b
    if z3.is_true(b): return a
    return z3.And(a, b)


class Dep:
    __slots__ = ("deps", "live")

    def __init__(self, deps, live):
        self.deps, self.live = deps, live

    def __repr__(self):
        return f"Dep({self.deps},{self.live})"


def as_dep(v):
    if isinstance(v, Dep):
        return v
    v = lift(v)
    if is_num(v):
        live = z3.BoolVal(num(v) != 0)
    elif z3.is_bool(v):
        live = v
    else:
        live = v != 0
    return Dep([FALSE] * NF[0], live)


def d_add(a, b):
    a, b = as_dep(a), as_dep(b)
    return Dep([b_or(x, y) for x, y in zip(a.deps, b.deps)], b_or(a.live, b.live))


def d_mul(a, b):
    a, b = as_dep(a), as_dep(b)
    return Dep([b_or(b_and(x, b.live), b_and(y, a.live)) for x, y in zip(a.deps, b.deps)], b_and(a.live, b.live))


def d_un(a):
    a = as_dep(a)
    return Dep(list(a.deps), TRUE)


def is_dep(*xs):
    return any(isinstance(x, Dep) for x in xs)


def has_dep(p):
    return p.size > 0 and any(isinstance(e, Dep) for e in p.reshape(-1))


# ---- make the term constructors Dep-aware -----------------------------------------------------------------------
def _wrap2(name, dfn):
    orig = getattr(T, name)

    def f(a, b):
        if isinstance(a, Dep) or isinstance(b, Dep):
            return dfn(a, b)
        return orig(a, b)
    setattr(T, name, f)


_wrap2("add", d_add)
_wrap2("sub", d_add)
_wrap2("mul", d_mul)
_wrap2("div", lambda a, b: d_mul(a, d_un(b)))
_orig_neg = T.neg
T.neg = lambda a: (a if isinstance(a, Dep) else _orig_neg(a))
_orig_toreal, _orig_toint, _orig_tobool, _orig_lift = core.toreal, core.toint, core.tobool, core.lift


def _pass(orig):
    def f(t):
        if isinstance(t, Dep):
            return t
        return orig(t)
    return f


for modl in (core, ops, ops_move):
    for nm, orig in (("toreal", _orig_toreal), ("toint", _orig_toint), ("lift", _orig_lift)):
        if hasattr(modl, nm):
            setattr(modl, nm, _pass(orig))
core.conv_for.__globals__["toreal"] = core.toreal
core.conv_for.__globals__["toint"] = core.toint
lift = core.lift


def _unary_dep(names):
    for n in names:
        orig = ops.HANDLERS.get(n)
        if orig is None:
            continue

        def h(func, args, kwargs, orig=orig):
            a = args[0]
            if isinstance(a, Sym) and has_dep(P(a)):
                return Sym.make(ops.apply1(d_un, P(a)), a.dtype)
            return orig(func, args, kwargs)
        ops.HANDLERS[n] = h


_unary_dep(["relu", "tanh", "sigmoid", "softplus", "leaky_relu", "elu", "exp", "log", "sqrt", "abs", "neg", "__neg__"])

_orig_dropout = ops.HANDLERS["dropout"]


def _dropout(func, args, kwargs):
    a = args[0]
    if isinstance(a, Sym) and has_dep(P(a)):
        return Sym.make(ops.apply1(lambda x: Dep(list(as_dep(x).deps), as_dep(x).live), P(a)), a.dtype)
    return _orig_dropout(func, args, kwargs)


for _n in ("dropout", "dropout_", "alpha_dropout", "feature_dropout"):
    ops.HANDLERS[_n] = _dropout

_orig_bn = ops.HANDLERS["batch_norm"]


def _bn(func, args, kwargs):
    x = args[0]
    if not (isinstance(x, Sym) and has_dep(P(x))):
        return _orig_bn(func, args, kwargs)
    training = ops.getarg(args, kwargs, 5, "training", False)
    rm = ops.getarg(args, kwargs, 1, "running_mean")
    p = P(x)
    out = np.empty(p.shape, dtype=object)
    for idx in np.ndindex(*p.shape):
        out[idx] = d_un(p[idx])
    if training or rm is None:
        # batch statistics mix the rows of one feature (never different features)
        for j in range(p.shape[1]):
            col = as_dep(p[0, j])
            for r in range(1, p.shape[0]):
                col = d_add(col, p[r, j])
            for r in range(p.shape[0]):
                out[r, j] = d_un(col)
        if rm is not None and training and isinstance(rm, Sym):
            pass   # running statistics become functions of the batch: irrelevant for the dependency question of this call
    return Sym.make(out, x.dtype)


ops.HANDLERS["batch_norm"] = _bn

_orig_ln = ops.HANDLERS.get("layer_norm")


def _ln(func, args, kwargs):
    x = args[0]
    if not (isinstance(x, Sym) and has_dep(P(x))):
        return _orig_ln(func, args, kwargs)
    # per-item statistics over the normalised (trailing) dimensions: every unit of an item receives the dependencies of ALL of them
    nshape = tuple(ops.getarg(args, kwargs, 1, "normalized_shape"))
    p = P(x)
    k = len(nshape)
    out = np.empty(p.shape, dtype=object)
    for idx in np.ndindex(*p.shape[:p.ndim - k]):
        flat = list(np.asarray(p[idx], dtype=object).reshape(-1))
        col = as_dep(flat[0])
        for v in flat[1:]:
            col = d_add(col, v)
        for j in np.ndindex(*nshape):
            out[idx + j] = d_un(col)
    return Sym.make(out, x.dtype)


if _orig_ln is not None:
    ops.HANDLERS["layer_norm"] = _ln


def dep_input(B, D):
    a = np.empty((B, D), dtype=object)
    for r in range(B):
        for j in range(D):
            a[r, j] = Dep([z3.BoolVal(j == jj) for jj in range(D)], TRUE)
    return Sym.make(a, torch.float32)


def dep_free(shape):
    """arbitrary values that do not depend on the inputs (weights, contexts)"""
    a = np.empty(tuple(shape), dtype=object)
    for idx in np.ndindex(*shape):
        a[idx] = Dep([FALSE] * NF[0], TRUE)
    return Sym.make(a, torch.float32)
