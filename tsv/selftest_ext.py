"""extended differential self-test of the op models (trusted base item 2): every case is evaluated natively on CPU torch (float64) and by the
op models on exact rational tensors; shapes, dtypes and values must agree.  Run:  .venv/bin/python -m tsv.selftest_ext   (exit 1 on mismatch).
The start-up self-test (tsv/selftest.py) stays small; this one is part of tools_runall.sh."""
import math, sys
from fractions import Fraction
import numpy as np
import torch, z3
import torch.nn.functional as F
from .core import Sym, P, Ctx, Mode, rv, num, is_num, obj_array
from . import terms as T
from . import ops, ops_move  # noqa


def ev(t, memo=None, env=None):
    """numeric value of a term (arith, ite, comparisons, expf/logf/atanf/tanf/sinf/cosf, memoised sqrt constants); env: symbol name -> value"""
    memo = {} if memo is None else memo
    if env is not None:
        return _ev_env(t, memo, env)
    k = t.get_id()
    if k in memo: return memo[k]
    t = z3.simplify(t) if False else t
    if z3.is_true(t): r = True
    elif z3.is_false(t): r = False
    elif is_num(t): r = float(num(t))
    else:
        dk = t.decl().kind(); ch = t.children(); name = t.decl().name()
        c = lambda i: ev(ch[i], memo)
        if dk == z3.Z3_OP_ADD: r = sum(ev(x, memo) for x in ch)
        elif dk == z3.Z3_OP_MUL:
            r = 1.0
            for x in ch: r *= ev(x, memo)
        elif dk == z3.Z3_OP_SUB:
            r = c(0)
            for x in ch[1:]: r -= ev(x, memo)
        elif dk == z3.Z3_OP_UMINUS: r = -c(0)
        elif dk in (z3.Z3_OP_DIV,): r = c(0) / c(1)
        elif dk == z3.Z3_OP_IDIV: r = math.floor(c(0) / c(1))
        elif dk == z3.Z3_OP_MOD: r = c(0) - math.floor(c(0) / c(1)) * c(1)
        elif dk == z3.Z3_OP_TO_REAL: r = float(c(0))
        elif dk == z3.Z3_OP_TO_INT: r = math.floor(c(0))
        elif dk == z3.Z3_OP_ITE: r = c(1) if c(0) else c(2)
        elif dk == z3.Z3_OP_LE: r = c(0) <= c(1)
        elif dk == z3.Z3_OP_LT: r = c(0) < c(1)
        elif dk == z3.Z3_OP_GE: r = c(0) >= c(1)
        elif dk == z3.Z3_OP_GT: r = c(0) > c(1)
        elif dk == z3.Z3_OP_EQ: r = c(0) == c(1)
        elif dk == z3.Z3_OP_DISTINCT: r = c(0) != c(1)
        elif dk == z3.Z3_OP_AND: r = all(ev(x, memo) for x in ch)
        elif dk == z3.Z3_OP_OR: r = any(ev(x, memo) for x in ch)
        elif dk == z3.Z3_OP_NOT: r = not c(0)
        elif dk == z3.Z3_OP_XOR: r = bool(c(0)) != bool(c(1))
        elif dk == z3.Z3_OP_POWER: r = c(0) ** c(1)
        elif dk == z3.Z3_OP_UNINTERPRETED and ch:
            fn = {"expf": math.exp, "logf": math.log, "atanf": math.atan, "tanf": math.tan, "sinf": math.sin, "cosf": math.cos, "erff": math.erf}.get(name)
            if fn is None: raise ValueError("cannot evaluate " + name)
            r = fn(c(0))
        elif dk == z3.Z3_OP_UNINTERPRETED:
            if name == "PI": r = math.pi
            elif t.get_id() in T.SQRT_DEFS: r = math.sqrt(ev(T.SQRT_DEFS[t.get_id()][1], memo))
            elif _ENV is not None and name in _ENV: r = _ENV[name]
            else: raise ValueError("free symbol " + name)
        else:
            raise ValueError("cannot evaluate kind " + str(dk) + " " + name)
    memo[k] = r
    return r


def _ev_env(t, memo, env):
    global _ENV
    old = _ENV
    _ENV = env
    try:
        return ev(t, memo)
    finally:
        _ENV = old


_ENV = None


def sym(t):
    if t.dtype.is_floating_point:
        p = np.empty(tuple(t.shape), dtype=object)
        for idx in np.ndindex(*t.shape): p[idx] = rv(Fraction(float(t[idx])))
        return Sym.make(p, t.dtype)
    return t


def back(s):
    if isinstance(s, Sym):
        p = P(s); out = np.zeros(p.shape); memo = {}
        for idx in np.ndindex(*p.shape): out[idx] = float(ev(p[idx], memo))
        return out, s.dtype
    if isinstance(s, torch.Tensor): return s.detach().double().numpy(), s.dtype
    return np.asarray(float(s)), None


g = torch.Generator().manual_seed(7)
A = torch.randint(-12, 12, (3, 4), generator=g).double() / 4
B = torch.randint(-12, 12, (3, 4), generator=g).double() / 4
C3 = torch.randint(-8, 8, (2, 3, 4), generator=g).double() / 4
V = torch.randint(-8, 8, (4,), generator=g).double() / 4
SQ = torch.randint(-4, 4, (3, 3), generator=g).double() / 2 + 3 * torch.eye(3, dtype=torch.float64)
IDX = torch.tensor([[0, 2], [1, 1], [3, 0]])
MASK = torch.tensor([[True, False, True, False], [False, False, True, True], [True, True, False, False]])
POS = A * A + 0.5

CASES = {
    # reductions: dims, empty dims, negative dims, keepdim
    "sum[]": lambda a, b, c: torch.sum(a, dim=[]), "sum()": lambda a, b, c: a.sum(()), "sum-1k": lambda a, b, c: a.sum(-1, keepdim=True), "sum02": lambda a, b, c: c.sum(dim=(0, 2)),
    "sumall": lambda a, b, c: c.sum(), "mean": lambda a, b, c: c.mean(dim=(1, 2)), "meanall": lambda a, b, c: a.mean(), "mean-2k": lambda a, b, c: c.mean(-2, keepdim=True),
    "var0": lambda a, b, c: a.var(0), "var1u": lambda a, b, c: a.var(1, unbiased=False), "varall": lambda a, b, c: a.var(), "std": lambda a, b, c: POS_(a).std(1) ** 2,
    "prod": lambda a, b, c: a.prod(1), "prodall": lambda a, b, c: a.prod(), "amax": lambda a, b, c: c.amax(dim=(0, 1)), "amin": lambda a, b, c: c.amin(-1),
    "max_dim": lambda a, b, c: a.max(1)[0], "max_idx": lambda a, b, c: a.max(1)[1].double(), "min_dim_k": lambda a, b, c: a.min(0, keepdim=True)[0], "max_all": lambda a, b, c: a.max(),
    "max_bin": lambda a, b, c: torch.max(a, b), "maximum": lambda a, b, c: torch.maximum(a, b), "minimum": lambda a, b, c: torch.minimum(a, b[:1]),
    "logsumexp": lambda a, b, c: torch.logsumexp(a, dim=-1), "logsumexp_k": lambda a, b, c: torch.logsumexp(c, dim=1, keepdim=True),
    "softmax": lambda a, b, c: torch.softmax(a, dim=0), "log_softmax": lambda a, b, c: F.log_softmax(c, dim=-1),
    "norm_dim": lambda a, b, c: torch.norm(a, dim=-1) ** 2, "norm_keep": lambda a, b, c: a.norm(dim=1, keepdim=True) ** 2, "norm_all": lambda a, b, c: torch.norm(a) ** 2,
    "cumsum0": lambda a, b, c: a.cumsum(0), "cumsum-1": lambda a, b, c: c.cumsum(-1), "all1": lambda a, b, c: (a > -1).all(1).double(), "anyall": lambda a, b, c: (a > 2).any().double(),
    # arithmetic variants
    "add_alpha": lambda a, b, c: torch.add(a, b, alpha=2), "sub_alpha": lambda a, b, c: torch.sub(a, b, alpha=0.5), "rsub": lambda a, b, c: 1 - a, "rdiv": lambda a, b, c: 2 / POS_(a),
    "pow_int": lambda a, b, c: a ** 3, "pow_tensor_int": lambda a, b, c: POS_(a) ** 2, "square": lambda a, b, c: a.square(), "reciprocal": lambda a, b, c: POS_(a).reciprocal(),
    "sqrt": lambda a, b, c: POS_(a).sqrt(), "rsqrt": lambda a, b, c: POS_(a).rsqrt(), "exp": lambda a, b, c: a.exp(), "expm1": lambda a, b, c: a.expm1(), "log": lambda a, b, c: POS_(a).log(),
    "log1p": lambda a, b, c: POS_(a).log1p(), "sigmoid": lambda a, b, c: a.sigmoid(), "tanh": lambda a, b, c: a.tanh(), "softplus": lambda a, b, c: F.softplus(a),
    "softplus_beta": lambda a, b, c: F.softplus(a, beta=2.0), "logsigmoid": lambda a, b, c: F.logsigmoid(a), "relu": lambda a, b, c: F.relu(a), "leaky": lambda a, b, c: F.leaky_relu(a, 0.3),
    "elu": lambda a, b, c: F.elu(a), "glu": lambda a, b, c: F.glu(a, dim=-1), "atan": lambda a, b, c: a.atan(), "abs": lambda a, b, c: a.abs(), "sign": lambda a, b, c: a.sign(),
    "floor": lambda a, b, c: (a * 1.5).floor(), "ceil": lambda a, b, c: (a * 1.5).ceil(), "clamp_min": lambda a, b, c: a.clamp(min=0.25), "clamp_max": lambda a, b, c: a.clamp(max=0.25),
    "clamp_tensor": lambda a, b, c: torch.clamp(a, min=b - 1, max=b + 1), "clamp_min_fn": lambda a, b, c: torch.clamp_min(a, -0.5),
    "where_scalar": lambda a, b, c: torch.where(a > 0, a, torch.zeros_like(a)), "where_bcast": lambda a, b, c: torch.where(a[:, :1] > 0, a, b),
    "masked_fill": lambda a, b, c: a.masked_fill(MASK, 2.5), "masked_select": lambda a, b, c: a.masked_select(MASK), "bool_index": lambda a, b, c: a[MASK],
    "eq": lambda a, b, c: (a == b).double(), "ne": lambda a, b, c: (a != a.t().t()).double(), "logical": lambda a, b, c: ((a > 0) & ~(b > 0) | (a < -2)).double(),
    "isfinite": lambda a, b, c: torch.isfinite(a).double(), "remainder_int": lambda a, b, c: (torch.arange(7) % 3).double(), "floordiv_int": lambda a, b, c: (torch.arange(7) // 2).double(),
    # movement
    "reshape-1": lambda a, b, c: c.reshape(-1, 4), "view": lambda a, b, c: c.view(2, -1), "flatten": lambda a, b, c: c.flatten(1), "flatten01": lambda a, b, c: c.flatten(0, 1),
    "unflatten": lambda a, b, c: a.unflatten(1, (2, 2)), "squeeze": lambda a, b, c: c[:, :1].squeeze(1), "squeeze_all": lambda a, b, c: c[:1, :, :1].squeeze(), "unsqueeze-1": lambda a, b, c: a.unsqueeze(-1),
    "permute": lambda a, b, c: c.permute(2, 0, 1), "transpose": lambda a, b, c: c.transpose(0, -1), "movedim": lambda a, b, c: c.movedim(0, 2), "t": lambda a, b, c: a.t(),
    "flip": lambda a, b, c: c.flip(0, 2), "narrow": lambda a, b, c: a.narrow(1, 1, 2), "select": lambda a, b, c: c.select(1, 2), "index_select": lambda a, b, c: a.index_select(1, torch.tensor([3, 0, 0])),
    "gather0": lambda a, b, c: a.gather(0, torch.tensor([[2, 1, 0, 0]])), "adv_index": lambda a, b, c: a[torch.tensor([2, 0]), torch.tensor([1, 3])], "neg_index": lambda a, b, c: a[-1, ::-2] if False else a[-1, 1::2],
    "ellipsis": lambda a, b, c: c[..., 0], "none_index": lambda a, b, c: a[:, None, :2], "list_index": lambda a, b, c: c[:, [0, 2]], "slice_step": lambda a, b, c: a[::2, 1:],
    "cat0": lambda a, b, c: torch.cat([a, b], 0), "cat-1": lambda a, b, c: torch.cat((a, b[:, :2]), -1), "stack1": lambda a, b, c: torch.stack([a, b], 1), "stack-1": lambda a, b, c: torch.stack([a, b], -1),
    "chunk": lambda a, b, c: torch.cat(c.chunk(3, 1)[::-1], 1), "split": lambda a, b, c: torch.cat(a.split(3, 1)[::-1], 1), "split_sizes": lambda a, b, c: torch.cat(a.split([1, 3], 1)[::-1], 1),
    "unbind": lambda a, b, c: torch.stack(c.unbind(1)[::-1], 0), "repeat": lambda a, b, c: a.repeat(2, 1, 2), "tile": lambda a, b, c: a.tile((2,)), "repeat_interleave": lambda a, b, c: a.repeat_interleave(2, dim=0),
    "repeat_interleave_flat": lambda a, b, c: a.repeat_interleave(2), "expand-1": lambda a, b, c: a[:, :1].expand(-1, 3), "expand_as": lambda a, b, c: a[:1].expand_as(b), "broadcast_to": lambda a, b, c: torch.broadcast_to(a[0], (2, 4)),
    "pad_neg": lambda a, b, c: F.pad(a, (1, 0, 0, 2), value=-1.0), "tril1": lambda a, b, c: torch.tril(SQ_(a), 1), "triu-1": lambda a, b, c: torch.triu(SQ_(a), -1), "diag_vec": lambda a, b, c: torch.diag(a[0]),
    "diag_off": lambda a, b, c: torch.diag(SQ_(a), 1), "diagonal": lambda a, b, c: torch.diagonal(SQ_(a)), "sort": lambda a, b, c: a.sort(dim=1)[0], "sort_desc_idx": lambda a, b, c: (a + torch.arange(4) * 0.01).sort(dim=1, descending=True)[1].double(),
    "argsort": lambda a, b, c: torch.argsort(a[0] + torch.arange(4) * 0.01).double(), "zeros_like": lambda a, b, c: torch.zeros_like(a) + torch.ones_like(b) * 2 + torch.full_like(a, 0.5), "new_ones": lambda a, b, c: a.new_ones(2, 2) + a.new_zeros(2, 2) + a.new_full((2, 2), 3.0),
    "type_as": lambda a, b, c: (a > 0).type_as(a), "to_float": lambda a, b, c: (a > 0).float().double(), "long": lambda a, b, c: (a * 2).long().double(),
    # linear algebra
    "mm": lambda a, b, c: torch.mm(a, b.t()), "mv": lambda a, b, c: torch.mv(a, b[0]), "dot": lambda a, b, c: torch.dot(a[0], b[1]), "outer": lambda a, b, c: torch.outer(a[0], b[:, 0]),
    "bmm": lambda a, b, c: torch.bmm(c, c.transpose(1, 2)), "matmul_1d2d": lambda a, b, c: a[0] @ b.t(), "matmul_batch": lambda a, b, c: c @ a.t(), "addmm": lambda a, b, c: torch.addmm(a[:, :3], a, b.t()),
    "linear_nobias": lambda a, b, c: F.linear(a, b), "det": lambda a, b, c: torch.det(SQ_(a)), "inverse": lambda a, b, c: torch.inverse(SQ_(a)), "slogdet": lambda a, b, c: torch.slogdet(SQ_(a))[1],
    "slogdet_sign": lambda a, b, c: torch.slogdet(-SQ_(a))[0], "logdet": lambda a, b, c: torch.logdet(SQ_(a) @ SQ_(a).t()), "solve_tri_lower": lambda a, b, c: torch.linalg.solve_triangular(torch.tril(SQ_(a)), a[:, :2], upper=False),
    "solve_tri_unit": lambda a, b, c: torch.linalg.solve_triangular(torch.triu(SQ_(a)), a[:, :2], upper=True, unitriangular=True),
    "conv1x1": lambda a, b, c: F.conv2d(c.reshape(1, 2, 3, 4), SQ_(a)[:2, :2].reshape(2, 2, 1, 1)),
    "batch_norm_eval": lambda a, b, c: F.batch_norm(a, V_(a), POS_(a)[0], weight=b[0], bias=b[1], training=False, eps=0.5),
    "layer_norm": lambda a, b, c: F.layer_norm(a, (4,), weight=b[0], bias=b[1], eps=0.5), "layer_norm_2d": lambda a, b, c: F.layer_norm(c, (3, 4), eps=0.25),
    "searchsorted": lambda a, b, c: torch.searchsorted(torch.tensor([-1.0, 0.0, 0.5, 2.0], dtype=torch.float64), a).double(),
    "searchsorted_right_rows": lambda a, b, c: torch.searchsorted(a.sort(dim=1)[0] if not isinstance(a, Sym) else sym(A.sort(dim=1)[0]), b, right=True).double(),
    "argmin": lambda a, b, c: torch.argmin(a + torch.arange(12).reshape(3, 4) * 0.001).double(), "argmax_dim": lambda a, b, c: (a + torch.arange(12).reshape(3, 4) * 0.001).argmax(dim=1).double(),
    "batch_norm_train": lambda a, b, c: F.batch_norm(a, None, None, training=True, eps=0.5),
}
_cur = {}
def POS_(a): return sym(POS) if isinstance(a, Sym) else POS
def SQ_(a): return sym(SQ) if isinstance(a, Sym) else SQ
def V_(a): return sym(V) if isinstance(a, Sym) else V


def run():
    old = Ctx.cur
    Ctx.cur = Ctx()
    bad, skipped = [], []
    try:
        for name, f in CASES.items():
            try:
                want = f(A.clone(), B.clone(), C3.clone())
            except Exception as e:
                bad.append((name, "native raised " + repr(e)[:100])); continue
            try:
                with Mode():
                    got = f(sym(A), sym(B), sym(C3))
                gv, gdt = back(got)
            except Exception as e:
                skipped.append((name, type(e).__name__ + ": " + str(e)[:120])); continue
            wv = want.detach().double().numpy()
            if tuple(gv.shape) != tuple(wv.shape): bad.append((name, f"shape {gv.shape} vs {wv.shape}")); continue
            if not np.allclose(gv, wv, atol=1e-9, rtol=1e-9): bad.append((name, f"values {gv.reshape(-1)[:4]} vs {wv.reshape(-1)[:4]}")); continue
            if gdt is not None and gdt != want.dtype: bad.append((name, f"dtype {gdt} vs {want.dtype}"))
    finally:
        Ctx.cur = old
    return bad, skipped


def main():
    bad, skipped = run()
    for n, m in skipped: print("SKIPPED (op model raises / unsupported):", n, m)
    for n, m in bad: print("MISMATCH:", n, m)
    print(f"selftest_ext: {len(CASES)} cases, {len(bad)} mismatches, {len(skipped)} unsupported")
    dbad = run_diff()
    for b in dbad: print("MISMATCH (differentiator):", b)
    print(f"selftest_ext: differentiator / normaliser on 14 term families, {len(dbad)} mismatches")
    sys.exit(1 if (bad or dbad) else 0)


# ------------------------------------------------------------------------------------------------
# differentiator and log-linear normaliser (trusted base): random terms, derivative term against central finite differences
# ------------------------------------------------------------------------------------------------
def _diff_cases():
    from .ops import s_exp, s_log, s_sqrt, s_softplus, s_sigmoid, s_tanh, s_atan
    x, y = z3.Real("dx"), z3.Real("dy")
    sq = lambda t: T.mul(t, t)
    cases = {
        "poly": T.add(T.mul(rv(3), sq(x)), T.mul(x, y)),
        "ratio": T.div(T.add(x, rv(1)), T.add(sq(x), T.add(sq(y), rv(1)))),
        "exp": s_exp(T.mul(rv(2), x)), "log": s_log(T.add(sq(x), rv(1))), "sqrt": s_sqrt(T.add(sq(x), rv(2))),
        "softplus": s_softplus(T.sub(x, y)), "softplus_beta": s_softplus(x, rv(2)), "sigmoid": s_sigmoid(T.mul(x, y)), "tanh": s_tanh(x), "atan": s_atan(T.mul(rv(3), x)),
        "ite": z3.If(x > y, sq(x), T.mul(rv(2), x)), "nested": s_log(T.add(rv(1), s_exp(T.neg(sq(x))))),
        "rq_like": T.div(T.mul(sq(x), T.add(y, rv(2))), T.add(rv(1), T.mul(x, T.sub(rv(1), x)))),
        "loglin": T.sub(T.mul(rv(2), s_log(T.add(x, rv(3)))), s_log(T.add(sq(y), rv(1)))),
    }
    return x, y, cases


def run_diff():
    import random
    bad = []
    old = Ctx.cur
    Ctx.cur = Ctx()
    try:
        x, y, cases = _diff_cases()
        rnd = random.Random(3)
        for name, t in cases.items():
            d = T.diff(t, x)
            for _ in range(4):
                xv, yv = rnd.uniform(-0.9, 0.9), rnd.uniform(-0.9, 0.9)
                if name == "ite" and abs(xv - yv) < 0.05: continue
                at = lambda term, xx: ev(term, {}, {"dx": xx, "dy": yv})
                h = 1e-6
                fd = (at(t, xv + h) - at(t, xv - h)) / (2 * h)
                got = at(d, xv)
                if abs(fd - got) > 1e-5 * (1 + abs(fd)):
                    bad.append((name, xv, yv, got, fd))
            if name == "loglin":
                rest, numr, den = T.exp_of_loglin(t)
                xv, yv = 0.3, -0.4
                at = lambda term: ev(term, {}, {"dx": xv, "dy": yv})
                if abs(math.exp(at(t)) - math.exp(at(rest)) * at(numr) / at(den)) > 1e-9:
                    bad.append(("exp_of_loglin", xv, yv, math.exp(at(t)), math.exp(at(rest)) * at(numr) / at(den)))
    finally:
        Ctx.cur = old
    return bad


if __name__ == "__main__":
    main()
