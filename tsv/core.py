"""tsv core: symbolic tensors over the real torch API, path exploration, obligations.

The real nflows functions are executed by CPython; every torch call arrives at `dispatch`
(through Sym.__torch_function__ or the TorchFunctionMode) and is answered by an op model from
tsv.ops working on numpy object arrays of z3 terms.  See DESIGN.md section 3.
"""
import os, sys, time, itertools, math
from fractions import Fraction
import numpy as np
import torch, z3
import torch.utils._pytree as pytree
from torch.overrides import TorchFunctionMode

REPO = os.path.realpath(os.environ.get("TSV_REPO", "/repo"))


class Fork(Exception):
    """raised when the current decision prefix became infeasible"""


class Unsupported(Exception):
    """an op / construct without a model: the run is undecided, never a pass or a violation"""


class PathLimit(Exception):
    pass


# ----------------------------------------------------------------------------------------------
# term helpers
# ----------------------------------------------------------------------------------------------
R = z3.RealSort()
I = z3.IntSort()
B = z3.BoolSort()
TRUE = z3.BoolVal(True)
FALSE = z3.BoolVal(False)


def simplest_fraction(v: float, single=False) -> Fraction:
    """the simplest rational that rounds to the float v (float32 rounding when single) (DESIGN 3.3.2)"""
    if isinstance(v, (np.floating, np.integer)):
        v = v.item()          # numpy scalars print as np.float64(...)
    if v != v or v in (float("inf"), float("-inf")):
        raise Unsupported("nan/inf constant")
    if v == int(v) and abs(v) < 2 ** 53:
        return Fraction(int(v))
    rnd = (lambda c: float(np.float32(float(c)))) if single else float
    fr = Fraction(repr(v)) if not single else Fraction(repr(float(np.float32(v)))) if False else Fraction(str(np.float32(v))) if single else Fraction(repr(v))
    for lim in (10, 100, 1000, 10 ** 4, 10 ** 6, 10 ** 9):
        c = Fraction(v).limit_denominator(lim)
        if rnd(c) == v:
            return c if c.denominator <= fr.denominator else fr
    return fr


def rv(x) -> z3.ExprRef:
    if isinstance(x, Fraction):
        return z3.RealVal(x.numerator) if x.denominator == 1 else z3.RealVal(f"{x.numerator}/{x.denominator}")
    if isinstance(x, int):
        return z3.RealVal(x)
    if isinstance(x, float):
        return rv(simplest_fraction(x))
    raise TypeError(x)


class TFloat(float):
    """a Python float that also carries an exact symbolic term (np.log / np.sqrt / np.pi constants)"""
    __slots__ = ("term",)

    def __new__(cls, value, term):
        o = float.__new__(cls, value)
        o.term = term
        return o

    def _bin(self, other, fop, top, swap=False):
        from . import ops
        if isinstance(other, (Sym, torch.Tensor)):
            return NotImplemented
        if isinstance(other, (bool, np.bool_)):
            other = int(other)
        if isinstance(other, (np.floating, np.integer)):
            other = other.item()
        if not isinstance(other, (int, float)):
            return NotImplemented
        ot = other.term if isinstance(other, TFloat) else rv(other)
        a, b = (float(other), float(self)) if swap else (float(self), float(other))
        ta, tb = (ot, self.term) if swap else (self.term, ot)
        return TFloat(fop(a, b), top(ta, tb))

    def __add__(self, o): return self._bin(o, lambda a, b: a + b, lambda a, b: a + b)
    def __radd__(self, o): return self._bin(o, lambda a, b: a + b, lambda a, b: a + b, True)
    def __sub__(self, o): return self._bin(o, lambda a, b: a - b, lambda a, b: a - b)
    def __rsub__(self, o): return self._bin(o, lambda a, b: a - b, lambda a, b: a - b, True)
    def __mul__(self, o): return self._bin(o, lambda a, b: a * b, lambda a, b: a * b)
    def __rmul__(self, o): return self._bin(o, lambda a, b: a * b, lambda a, b: a * b, True)
    def __truediv__(self, o): return self._bin(o, lambda a, b: a / b, lambda a, b: a / b)
    def __rtruediv__(self, o): return self._bin(o, lambda a, b: a / b, lambda a, b: a / b, True)
    def __neg__(self): return TFloat(-float(self), -self.term)
    def __pos__(self): return self


class SymFloat(TFloat):
    """a Python float argument whose value is symbolic (the float value is only a placeholder: no numeric enclosure is attached)"""
    __slots__ = ()


def lift(v):
    """python / numpy scalar -> z3 term"""
    if isinstance(v, z3.ExprRef):
        return v
    if isinstance(v, TFloat):
        t = v.term
        ctx = Ctx.cur
        if ctx is not None and not is_num(t) and not isinstance(v, SymFloat):
            key = ("tfloat", t.get_id())
            if key not in ctx.memo:
                # numeric enclosure of a transcendental constant: the float evaluation is accurate to ~1e-15 relative
                ctx.memo[key] = t
                fv = float(v)
                delta = Fraction(1, 10 ** 9) * (1 + Fraction(abs(fv)))
                ctx.axiom([t], z3.And(t >= rv(Fraction(fv) - delta), t <= rv(Fraction(fv) + delta)))
        return t
    if isinstance(v, SymScalar):
        return v.term
    if isinstance(v, (bool, np.bool_)):
        return z3.BoolVal(bool(v))
    if isinstance(v, (int, np.integer)):
        return z3.IntVal(int(v))
    if isinstance(v, (float, np.floating)):
        return rv(float(v))
    if isinstance(v, Fraction):
        return rv(v)
    raise Unsupported(f"cannot lift {type(v).__name__}")


def is_num(t):
    return z3.is_rational_value(t) or z3.is_int_value(t)


def num(t) -> Fraction:
    if z3.is_int_value(t):
        return Fraction(t.as_long())
    return Fraction(t.numerator_as_long(), t.denominator_as_long())


def toreal(t):
    t = lift(t)
    if z3.is_bool(t):
        if z3.is_true(t): return rv(1)
        if z3.is_false(t): return rv(0)
        return z3.If(t, rv(1), rv(0))
    if z3.is_int(t):
        if z3.is_int_value(t): return rv(t.as_long())
        return z3.ToReal(t)
    return t


def toint(t):
    t = lift(t)
    if z3.is_bool(t):
        if z3.is_true(t): return z3.IntVal(1)
        if z3.is_false(t): return z3.IntVal(0)
        return z3.If(t, z3.IntVal(1), z3.IntVal(0))
    if z3.is_real(t):
        if z3.is_rational_value(t):
            f = num(t)
            return z3.IntVal(int(f) if f >= 0 or f.denominator == 1 else -int(-f))  # trunc (torch .long())
        # torch .long() truncates toward zero
        fl = z3.ToInt(t)
        return z3.If(t >= 0, fl, -z3.ToInt(-t))
    return t


def tobool(t):
    t = lift(t)
    if z3.is_bool(t): return t
    if is_num(t): return z3.BoolVal(num(t) != 0)
    return t != (0 if z3.is_int(t) else rv(0))


def conv_for(dtype):
    if dtype == torch.bool: return tobool
    if dtype.is_floating_point: return toreal
    return toint


_fresh = itertools.count()


def fresh(prefix, sort=R):
    return z3.Const(f"{prefix}!{next(_fresh)}", sort)


# ----------------------------------------------------------------------------------------------
# context: one execution path
# ----------------------------------------------------------------------------------------------
class Obligation:
    __slots__ = ("name", "kind", "label", "hyps", "goal", "nfacts", "ncuts", "loc", "line", "meta", "under_cut")

    def __init__(self, name, kind, label, hyps, goal, nfacts, ncuts, loc, line, meta, under_cut):
        self.name, self.kind, self.label, self.hyps, self.goal = name, kind, label, hyps, goal
        self.nfacts, self.ncuts, self.loc, self.line, self.meta, self.under_cut = nfacts, ncuts, loc, line, meta, under_cut


class Ctx:
    cur = None
    MAX_DECISIONS = 4000
    FEAS_TIMEOUT_MS = 2000

    def __init__(self, prefix=()):
        self.prefix = list(prefix)
        self.pos = 0
        self.new_alts = []
        self.facts = []          # [expr, dropped?]  (path condition, in order)
        self.axioms = []         # (trigger term ids, expr): instantiated axioms of abstractions
        self.cutdefs = []        # fresh == actual equalities of hard cuts (for un-abstracted re-check)
        self.obls = []
        self.solver = z3.Solver()
        self.solver.set("timeout", self.FEAS_TIMEOUT_MS)
        self.memo = {}           # functional abstractions (softmax, ...) keyed on argument terms
        self.intcache = {}       # symbolic index term id -> decided value
        self.ordinals = {}
        self.partial = {}        # term id -> (term, cond, kind, loc, line)
        self.total = set()       # ids of NaN-aware comparison terms
        self.feas_unknown = False
        self.writes = []         # (owner tag, loc)
        self.owners = {}         # id(root ndarray) -> (root, tag)
        self.notes = {}          # free-form ghost data for contracts
        self.atoms = []          # (kind, argterm(s), result term(s), extra) for replay reconstruction
        self.events = []

    # -- facts -------------------------------------------------------------------------------
    def assume(self, c):
        c = lift(c) if not isinstance(c, z3.ExprRef) else c
        if z3.is_true(c):
            return
        self.facts.append([c, False])
        self.solver.add(c)

    def axiom(self, triggers, c):
        self.axioms.append((tuple(t.get_id() for t in triggers), c, triggers))
        self.solver.add(c)

    def hyps(self):
        return [f for f, dropped in self.facts if not dropped]

    def feasible(self, c):
        """may the path continue under c?  `unsat` prunes; anything else continues (an over-approximation of the feasible paths)"""
        self.solver.set("timeout", 400)
        self.solver.push()
        self.solver.add(c)
        r = self.solver.check()
        self.solver.pop()
        if r == z3.unknown:
            # second opinion: nlsat on the purified hypotheses (uninterpreted applications replaced by constants; unsat carries over)
            try:
                from .solve import purify, nlsat_tactic, relevant_axioms
                hy = self.hyps() + [c]
                ph = purify(hy + relevant_axioms(self.axioms, hy))
                sv = nlsat_tactic().solver()
                sv.set("timeout", 1500)
                sv.add(*ph)
                r2 = sv.check()
                if r2 == z3.unsat:
                    return False
                if r2 == z3.sat:
                    return True
            except z3.Z3Exception:
                pass
            self.feas_unknown = True
        return r != z3.unsat

    def decide(self, options):
        """options: [(label, cond)] mutually exclusive; picks per decision prefix, registers alternatives"""
        if self.pos < len(self.prefix):
            lab = self.prefix[self.pos]
            cond = dict(options)[lab]
            if self.pos >= self.nchecked and not self.feasible(cond):
                raise Fork()
        else:
            feas = [(l, c) for l, c in options if self.feasible(c)]
            if not feas:
                raise Fork()
            lab = feas[0][0]
            for l, _ in feas[1:]:
                self.new_alts.append(self.prefix[: self.pos] + [l])
            self.prefix.append(lab)
            cond = feas[0][1]
        self.pos += 1
        if self.pos > self.MAX_DECISIONS:
            raise PathLimit()
        self.assume(cond)
        return lab

    nchecked = 0

    # -- obligations -------------------------------------------------------------------------
    def where(self):
        """innermost frame that lies in the repository: (relative file, function qualname, line)"""
        f = sys._getframe(2)
        while f is not None:
            fn = f.f_code.co_filename
            if fn.startswith(REPO + os.sep) and (os.sep + "nflows" + os.sep) in fn:
                return fn[len(REPO) + 1:], f.f_code.co_qualname.replace("<locals>.", ""), f.f_lineno
            f = f.f_back
        return "-", "-", 0

    def oblige(self, kind, goal, label=None, loc=None, meta=None, narrow=False, hyps=None):
        if loc is None:
            loc = self.where()
        file, func, line = loc
        key = (kind, label, file, func)
        n = self.ordinals.get(key, 0)
        self.ordinals[key] = n + 1
        name = f"{kind}{':' + label if label else ''}@{file}:{func}#{n}"
        goal = goal if isinstance(goal, z3.ExprRef) else z3.BoolVal(bool(goal))
        under_cut = any(d for _, d in self.facts) or bool(self.cutdefs)
        hy = self.hyps()
        if hyps is not None:
            cur = {f.get_id() for f in hy}
            hy = [f for f in hyps if f.get_id() in cur]       # an explicit SUBSET of the current hypotheses
        if narrow:
            # use only the hypotheses that speak exclusively about symbols of the goal (a subset of the hypotheses: sound)
            from .terms import base_symbols
            from .solve import relevant_axioms
            gs = set(base_symbols(goal))
            for ax in relevant_axioms(self.axioms, [goal]):
                gs |= base_symbols(ax)
            hy = [f for f in hy if base_symbols(f) <= gs]
        self.obls.append(Obligation(name, kind, label, hy, goal, len(self.facts), len(self.cutdefs),
                                    f"{file}:{func}", line, meta or {}, under_cut))
        if kind not in ("cut-lemma", "ieee-bump-effective", "cover") and self.notes.get("bumps"):
            # does the goal compare something against a value that was bumped by a tiny literal?  (then its real-arithmetic proof
            # relies on the bump being effective, which is a rounding question: re-discharged in IEEE-754, DESIGN 4-C17)
            bumps = self.notes["bumps"]
            hit = []
            seen = set()
            stack = [goal]
            while stack:
                u = stack.pop()
                if u.get_id() in seen: continue
                seen.add(u.get_id())
                if z3.is_app(u):
                    if u.decl().kind() in (z3.Z3_OP_LE, z3.Z3_OP_LT, z3.Z3_OP_GE, z3.Z3_OP_GT):
                        ch = u.children()
                        for c, other in ((ch[0], ch[1]), (ch[1], ch[0])):
                            if c.get_id() in bumps and not is_num(other):      # compared with a non-constant: strictness may hinge on the bump
                                hit.append(c.get_id())
                    stack.extend(u.children())
            for bid in hit:
                bt, base, eps = bumps[bid]
                if ("bump", bid) not in self.memo:
                    self.memo[("bump", bid)] = bt
                    # what the path knows about the magnitude of the base (a bound makes the IEEE question decidable in our favour)
                    bound = None
                    if not is_num(base):
                        for cand in (2, 64):
                            sv = z3.Solver(); sv.set("timeout", 1500)
                            sv.add(*self.hyps()); sv.add(z3.Or(base > cand, base < -cand))
                            if sv.check() == z3.unsat:
                                bound = cand; break
                    self.oblige("ieee-bump-effective", z3.BoolVal(True), loc=loc, meta={"fp": True, "eps": str(eps), "base": str(base)[:80],
                                                                                        "base_num": str(num(base)) if is_num(base) else None, "base_abs_le": bound})
        return name

    def check(self, kind, goal, **kw):
        """obligation, then assume (like an assert that continues)"""
        self.oblige(kind, goal, **kw)
        self.assume(goal)

    # -- partial operations (lazy definedness) -----------------------------------------------
    def mark_partial(self, term, cond, kind):
        if z3.is_true(cond):
            return
        tid = term.get_id()
        if tid not in self.partial:
            file, func, line = self.where()
            self.partial[tid] = (term, cond, kind, (file, func, line))

    def defcond(self, t, _cache=None):
        """condition under which t is a defined (finite) number; TRUE when no partial op is involved"""
        if not self.partial:
            return TRUE
        sites = self.partial_sites([t])
        if not sites:
            return TRUE
        return z3.And([z3.Implies(g, c) if not z3.is_true(g) else c for g, (_, c, _, _) in sites])

    def partial_sites(self, terms):
        """[(guard, partial-entry)] for every partial op reachable from terms, guards from enclosing ite"""
        if not self.partial:
            return []
        found = {}
        seen = {}

        def walk(t, guard):
            tid = t.get_id()
            gk = guard.get_id()
            if (tid, gk) in seen:
                return
            seen[(tid, gk)] = True
            if tid in self.total:
                return
            if tid in self.partial:
                found.setdefault(tid, []).append(guard)
            if z3.is_app(t):
                if t.decl().kind() == z3.Z3_OP_ITE:
                    c, a, b = t.children()
                    walk(c, guard)
                    walk(a, c if z3.is_true(guard) else z3.And(guard, c))
                    walk(b, z3.Not(c) if z3.is_true(guard) else z3.And(guard, z3.Not(c)))
                else:
                    for ch in t.children():
                        walk(ch, guard)

        for t in terms:
            if isinstance(t, z3.ExprRef):
                walk(t, TRUE)
        out = []
        for tid, guards in found.items():
            g = TRUE if any(z3.is_true(x) for x in guards) else (guards[0] if len(guards) == 1 else z3.Or(guards))
            out.append((g, self.partial[tid]))
        return out

    def oblige_defined(self, terms, label="result"):
        """the finiteness obligations for the given (result) terms"""
        for g, (term, cond, kind, loc) in self.partial_sites(list(terms)):
            goal = cond if z3.is_true(g) else z3.Implies(g, cond)
            self.oblige(kind, goal, label=None, loc=loc)

    # -- hard cut ------------------------------------------------------------------------------
    def hard_cut(self, defs, facts, keep_terms=()):
        """defs: [(fresh, actual)], facts over the fresh symbols (already proved as obligations by caller).
        Drops path facts that mention a base symbol of the abstracted definitions (except those of keep_terms)."""
        from .terms import base_symbols
        drop_syms = set()
        for _, actual in defs:
            drop_syms |= base_symbols(actual)
        for k in keep_terms:
            drop_syms -= base_symbols(k)
        for f in self.facts:
            if not f[1] and (base_symbols(f[0]) & drop_syms):
                f[1] = True
        for fr, actual in defs:
            self.cutdefs.append(fr == actual)
        for c in facts:
            self.facts.append([c, False])
        self.rebuild_solver()

    def rebuild_solver(self):
        """feasibility solver over the current (un-dropped) hypotheses only: fewer hypotheses = over-approximation = sound"""
        from .solve import relevant_axioms
        self.solver = z3.Solver()
        self.solver.set("timeout", self.FEAS_TIMEOUT_MS)
        hy = self.hyps()
        self.solver.add(*hy)
        self.solver.add(*relevant_axioms(self.axioms, hy))

    # -- ownership / frames --------------------------------------------------------------------
    def set_owner(self, arr, tag):
        r = root_of(arr)
        self.owners[id(r)] = (r, tag)

    def owner_of(self, arr):
        r = root_of(arr)
        e = self.owners.get(id(r))
        return e[1] if e else "fresh"

    def log_write(self, arr, what):
        file, func, line = self.where()
        self.writes.append((self.owner_of(arr), what, f"{file}:{func}", line))


def root_of(arr):
    while getattr(arr, "base", None) is not None:
        arr = arr.base
    return arr


def C() -> Ctx:
    if Ctx.cur is None:
        raise RuntimeError("no symbolic context active")
    return Ctx.cur


# ----------------------------------------------------------------------------------------------
# symbolic python scalars (.item(), float(), int() of a symbolic element)
# ----------------------------------------------------------------------------------------------
class SymScalar:
    """result of .item() on a symbolic element; comparisons fork"""
    __slots__ = ("term",)

    def __init__(self, term):
        self.term = term

    def _b(self, o, f):
        o = lift(o)
        a, b = self.term, o
        if z3.is_bool(a) != z3.is_bool(b):
            a, b = toint(a), toint(b)
        if z3.is_real(a) or z3.is_real(b):
            a, b = toreal(a), toreal(b)
        return f(a, b)

    def _cmp(self, o, f):
        c = self._b(o, f)
        cs = z3.simplify(c)
        if z3.is_true(cs): return True
        if z3.is_false(cs): return False
        return C().decide([(True, c), (False, z3.Not(c))])

    def __lt__(self, o): return self._cmp(o, lambda a, b: a < b)
    def __le__(self, o): return self._cmp(o, lambda a, b: a <= b)
    def __gt__(self, o): return self._cmp(o, lambda a, b: a > b)
    def __ge__(self, o): return self._cmp(o, lambda a, b: a >= b)
    def __eq__(self, o): return self._cmp(o, lambda a, b: a == b)
    def __ne__(self, o): return self._cmp(o, lambda a, b: a != b)
    def __hash__(self): return hash(self.term.get_id())
    def __add__(self, o): return SymScalar(self._b(o, lambda a, b: a + b))
    __radd__ = __add__
    def __sub__(self, o): return SymScalar(self._b(o, lambda a, b: a - b))
    def __rsub__(self, o): return SymScalar(self._b(o, lambda a, b: b - a))
    def __mul__(self, o): return SymScalar(self._b(o, lambda a, b: a * b))
    __rmul__ = __mul__
    def __neg__(self): return SymScalar(-self.term)
    def __bool__(self):
        return SymScalar(tobool(self.term))._cmp(True, lambda a, b: a == b) if not z3.is_bool(self.term) else \
            self._decide_bool()
    def _decide_bool(self):
        cs = z3.simplify(self.term)
        if z3.is_true(cs): return True
        if z3.is_false(cs): return False
        return C().decide([(True, self.term), (False, z3.Not(self.term))])
    def __index__(self):
        return self.concretize()
    def __int__(self):
        return self.concretize()
    def concretize(self):
        t = z3.simplify(toint(self.term))
        if z3.is_int_value(t):
            return t.as_long()
        raise Unsupported("int() of a symbolic scalar without finite range")


# ----------------------------------------------------------------------------------------------
# the symbolic tensor
# ----------------------------------------------------------------------------------------------
class Sym(torch.Tensor):
    @staticmethod
    def make(payload, dtype=torch.float32, requires_grad=False):
        if not isinstance(payload, np.ndarray) or payload.dtype != object:
            payload = obj_array(payload)
        t = torch.Tensor._make_subclass(Sym, torch.empty(payload.shape, dtype=dtype, device="meta"), False)
        t._p = payload
        t._g = None    # ghost dict (gradset/valset/taint ...), lazily created
        return t

    def __repr__(self):
        return f"Sym{tuple(self._p.shape)}:{str(self.dtype).replace('torch.', '')}"

    __str__ = __repr__

    def __format__(self, spec):
        return repr(self)

    def __hash__(self):
        return id(self)

    def __deepcopy__(self, memo):
        s = Sym.make(self._p.copy(), self.dtype)
        s._g = dict(self._g) if self._g else None
        return s

    def __reduce_ex__(self, proto):
        raise Unsupported("pickling a symbolic tensor")

    @classmethod
    def __torch_function__(cls, func, types, args=(), kwargs=None):
        from .ops import dispatch
        return dispatch(func, args, kwargs or {})


def obj_array(x):
    """nested lists / scalars of z3 terms or python numbers -> numpy object array of z3 terms"""
    if isinstance(x, np.ndarray) and x.dtype == object:
        return x
    if isinstance(x, z3.ExprRef) or not isinstance(x, (list, tuple, np.ndarray)):
        a = np.empty((), dtype=object)
        a[()] = lift(x)
        return a
    def shape_of(v):
        if isinstance(v, (list, tuple, np.ndarray)) and not isinstance(v, z3.ExprRef):
            if len(v) == 0: return (0,)
            return (len(v),) + shape_of(v[0])
        return ()
    shp = shape_of(x)
    a = np.empty(shp, dtype=object)
    def fill(v, idx):
        if len(idx) == len(shp):
            a[idx] = lift(v)
        else:
            for i, e in enumerate(v):
                fill(e, idx + (i,))
    if all(s > 0 for s in shp):
        fill(x, ())
    return a


def P(x):
    """payload (numpy object array of z3 terms) of anything tensor-like"""
    if isinstance(x, Sym):
        return x._p
    if isinstance(x, torch.Tensor):
        if x.device.type == "meta":
            raise Unsupported("plain meta tensor reached an op model")
        a = np.empty(tuple(x.shape), dtype=object)
        if x.numel():
            flat = x.detach().reshape(-1).tolist()
            if x.dtype in (torch.float32, torch.float16, torch.bfloat16):
                a.reshape(-1)[:] = [rv(simplest_fraction(v, single=True)) for v in flat]
            else:
                a.reshape(-1)[:] = [lift(v) for v in flat]
        return a
    if isinstance(x, np.ndarray):
        return obj_array(x.tolist())
    return obj_array(x)


def const_like(shape, value, dtype):
    a = np.empty(tuple(shape), dtype=object)
    a[...] = conv_for(dtype)(value)
    return Sym.make(a, dtype)


def sym_input(name, shape, dtype=torch.float32, owner=None):
    """a tensor of fresh named symbols  name[i,j,...]"""
    sort = B if dtype == torch.bool else (R if dtype.is_floating_point else I)
    a = np.empty(tuple(shape), dtype=object)
    for idx in np.ndindex(*shape):
        a[idx] = z3.Const(name + ("[" + ",".join(map(str, idx)) + "]" if idx else ""), sort)
    s = Sym.make(a, dtype)
    if owner is not None and Ctx.cur is not None:
        Ctx.cur.set_owner(a, owner)
    return s


# ----------------------------------------------------------------------------------------------
# mode + exploration
# ----------------------------------------------------------------------------------------------
class Mode(TorchFunctionMode):
    def __torch_function__(self, func, types, args=(), kwargs=None):
        from .ops import dispatch_mode
        return dispatch_mode(func, args, kwargs or {})


class PathResult:
    def __init__(self, ctx, kind, value):
        self.ctx, self.kind, self.value = ctx, kind, value   # kind: "ret" | "raise"


def explore(run, max_paths=2000, on_path=None):
    """run(ctx) executes real code; all feasible paths are explored by re-execution with decision prefixes."""
    from .npproxy import installed
    with installed():
        return _explore(run, max_paths, on_path)


def _explore(run, max_paths, on_path):
    work = [[]]
    results = []
    while work:
        prefix = work.pop()
        ctx = Ctx(prefix)
        ctx.nchecked = max(0, len(prefix) - 1)  # all but the last decision were feasibility-checked when registered
        Ctx.cur = ctx
        try:
            with Mode():
                out = PathResult(ctx, "ret", run(ctx))
        except Fork:
            continue
        except (Unsupported, PathLimit):
            Ctx.cur = None
            raise
        except Exception as e:  # the real code raised
            out = PathResult(ctx, "raise", e)
        finally:
            pass
        work.extend(ctx.new_alts)
        if on_path is not None:
            with Mode():
                on_path(out)
        results.append(out)
        if len(results) > max_paths:
            Ctx.cur = None
            raise PathLimit(f"more than {max_paths} paths")
    Ctx.cur = None
    return results
