"""trusted-base self test: op models vs CPU torch on random rational tensors (a sanity check, not a proof)."""
import random
from fractions import Fraction
import numpy as np
import torch, z3
from .core import Sym, P, Ctx, Mode, rv, num, is_num, obj_array


def _sym(t):
    return Sym.make(obj_array([[rv(Fraction(int(v * 8), 8)) for v in row] for row in t.tolist()]), torch.float64)


def _back(s):
    p = P(s)
    out = np.zeros(p.shape)
    for idx in np.ndindex(*p.shape):
        v = z3.simplify(p[idx])
        if z3.is_true(v): out[idx] = 1.0
        elif z3.is_false(v): out[idx] = 0.0
        else:
            assert is_num(v), v
            out[idx] = float(num(v))
    return out


CASES = [
    ("addcmul", lambda a, b: torch.addcmul(a, a, b, value=0.5) + a.clone().addcmul_(b, b)), ("addcdiv", lambda a, b: torch.addcdiv(a, b, a * a + 1)),
    ("add", lambda a, b: a + b), ("sub", lambda a, b: a - b), ("mul", lambda a, b: a * b), ("div", lambda a, b: a / (b * b + 1)),
    ("matmul", lambda a, b: a @ b.t()), ("cumsum", lambda a, b: torch.cumsum(a, -1)), ("sum", lambda a, b: a.sum(-1)),
    ("sumall", lambda a, b: torch.sum(a, dim=[0, 1])), ("sum_emptydims", lambda a, b: torch.sum(a, dim=[]) + torch.sum(b, dim=())), ("cat", lambda a, b: torch.cat([a, b], 1)), ("stack", lambda a, b: torch.stack([a, b], 0)),
    ("permute", lambda a, b: a.reshape(2, 3, 2).permute(2, 0, 1).reshape(4, 3)), ("pad", lambda a, b: torch.nn.functional.pad(a, (1, 2), value=0.5)),
    ("gather", lambda a, b: a.gather(1, torch.tensor([[0, 2], [1, 1], [3, 0]]))), ("index", lambda a, b: a[:, [2, 0]]),
    ("slice", lambda a, b: a[..., 1:] - a[..., :-1]), ("clamp", lambda a, b: torch.clamp(a, -0.5, 0.5)), ("abs", lambda a, b: torch.abs(a) * torch.sign(b)),
    ("where", lambda a, b: torch.where(a > b, a, b)), ("minmax", lambda a, b: torch.min(a) + torch.max(b)), ("ge", lambda a, b: (a >= b).to(torch.float64)),
    ("mean", lambda a, b: a.mean(0)), ("var", lambda a, b: a.var(0)), ("chunk", lambda a, b: torch.cat(a.chunk(2, 1)[::-1], 1)),
    ("expand", lambda a, b: a[:, :1].expand(3, 4) * b), ("repeat", lambda a, b: a.repeat(2, 1)), ("tril", lambda a, b: torch.tril(a @ b.t(), -1) + torch.triu(a @ b.t(), 1)),
    ("linear", lambda a, b: torch.nn.functional.linear(a, b, b[:, 0])), ("solve_tri", lambda a, b: torch.linalg.solve_triangular(torch.triu(a @ b.t()) + 3 * torch.eye(3, dtype=a.dtype), b[:, :2], upper=True)),
    ("pow", lambda a, b: a.pow(2) + b ** 3), ("floor", lambda a, b: torch.floor(a * 3)), ("maxdim", lambda a, b: a.max(dim=1)[0] + a.min(dim=0)[0][:3]),
    ("slogdet", lambda a, b: torch.exp(torch.slogdet(a[:, :3] + 3 * torch.eye(3, dtype=a.dtype))[1]) if not isinstance(a, Sym) else None),
    ("flip", lambda a, b: torch.flip(a, [1])), ("setitem", lambda a, b: _setitem(a, b)), ("inplace", lambda a, b: _inplace(a, b)),
    ("diag", lambda a, b: torch.diag(a[0, :3]) + torch.diag(a[:, :3], 0).sum()), ("any", lambda a, b: ((a > 0).any(1) & (b > 0).all(1)).to(torch.float64)),
]


def _setitem(a, b):
    c = a.clone(); c[..., 0] = 2.0; c[c > 1] = 0.0 if not isinstance(c, Sym) else 0.0
    return c


def _inplace(a, b):
    c = a.clone(); v = c[:, 1:3]; v += b[:, :2]; c[..., -1] *= 2
    return c


def run(seed=0):
    g = torch.Generator().manual_seed(1234 + seed)
    a = (torch.randint(-16, 16, (3, 4), generator=g).double() / 8)
    b = (torch.randint(-16, 16, (3, 4), generator=g).double() / 8)
    old = Ctx.cur
    Ctx.cur = Ctx()
    try:
        for name, f in CASES:
            want = f(a.clone(), b.clone())
            if want is None: continue
            with Mode():
                got = f(_sym(a), _sym(b))
            if True:
                if got is None: continue
                gv = _back(got)
                if tuple(gv.shape) != tuple(want.shape) or not np.allclose(gv, want.numpy(), atol=1e-12):
                    raise SystemExit(f"SELFTEST FAILED for op model '{name}': {gv} vs {want}")
    finally:
        Ctx.cur = old
    # dtype rules of the matmul family (meta tensors do not check them): which ops raise on mixed dtypes, which promote
    a32, a64 = torch.eye(2), torch.eye(2, dtype=torch.float64)
    from . import ops_move
    expect_raise = {"matmul": lambda x, y: x @ y, "linear": lambda x, y: torch.nn.functional.linear(x, y), "mv": lambda x, y: torch.mv(x, y[0]), "dot": lambda x, y: torch.dot(x[0], y[0]),
                    "addmm": lambda x, y: torch.addmm(x, x, y)}
    for name, f in expect_raise.items():
        try:
            f(a32, a64); raised = False
        except RuntimeError:
            raised = True
        if not raised:
            raise SystemExit(f"SELFTEST FAILED: torch no longer raises on mixed dtypes in '{name}' (the same-dtype rule of the op model is wrong)")
    if torch.linalg.solve_triangular(a64, a32, upper=True).dtype != torch.float64 or torch.ger(a32[0], a64[0]).dtype != torch.float64:
        raise SystemExit("SELFTEST FAILED: solve_triangular / ger dtype promotion")
    return len(CASES)
