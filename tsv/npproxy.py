"""exact symbolic scalar constants: np.log / np.exp / np.sqrt / np.pi ... computed by the code on Python floats (DESIGN 3.3.2).

For the duration of a symbolic run the names `np` / `math` in the nflows module namespaces are bound to a proxy whose scalar
transcendental functions return TFloat (a float carrying the exact term); everything else passes through to numpy / math."""
import sys, math as _math
import numpy as _np
import z3
from .core import TFloat, rv, lift
from . import terms as T


def _term(x):
    return x.term if isinstance(x, TFloat) else rv(x if isinstance(x, (int, float)) and not isinstance(x, bool) else float(x))


def _is_scalar(x):
    return isinstance(x, (int, float, _np.floating, _np.integer)) and not isinstance(x, bool)


def _log(x):
    t = _term(x)
    if T.is_num(t) and T.num(t) == 1: return TFloat(0.0, rv(0))
    if z3.is_app(t) and t.decl().name() == "expf": return TFloat(_math.log(x), t.arg(0))
    return TFloat(_math.log(x), T.logf(t))


def _exp(x):
    t = _term(x)
    if T.is_num(t) and T.num(t) == 0: return TFloat(1.0, rv(1))
    if z3.is_app(t) and t.decl().name() == "logf": return TFloat(_math.exp(x), t.arg(0))
    return TFloat(_math.exp(x), T.expf(t))


def _sqrt(x):
    t = _term(x)
    if T.is_num(t):
        n = T.num(t)
        rn, rd = _math.isqrt(n.numerator), _math.isqrt(n.denominator)
        if n >= 0 and rn * rn == n.numerator and rd * rd == n.denominator:
            from fractions import Fraction
            return TFloat(_math.sqrt(x), rv(Fraction(rn, rd)))
    return TFloat(_math.sqrt(x), T.sqrtf(t))


def _tanh(x):
    t = _term(x)
    e = T.expf(2 * t)
    return TFloat(_math.tanh(x), (e - 1) / (e + 1))


SCALAR = {"log": _log, "exp": _exp, "sqrt": _sqrt, "tanh": _tanh}


class Proxy:
    def __init__(self, real):
        object.__setattr__(self, "_real", real)

    def __getattr__(self, name):
        real = object.__getattribute__(self, "_real")
        if name == "pi":
            return TFloat(_math.pi, T.PI)
        f = getattr(real, name)
        if name in ("prod", "sum", "mod"):
            def py_scalar(*a, **k):
                # numpy scalars swallow float subclasses (np.float64 * TFloat -> np.float64): hand out Python scalars instead
                r = f(*a, **k)
                return r.item() if isinstance(r, (_np.integer, _np.floating)) else r
            return py_scalar
        if name in SCALAR:
            sf = SCALAR[name]
            def wrapped(x, *a, **k):
                import torch as _torch
                from .core import Sym
                if isinstance(x, Sym) and not a and not k and hasattr(_torch, name):
                    return getattr(_torch, name)(x)      # math.log / np.log of a symbolic (0-dim) tensor: the tensor op (natively it goes through float())
                if _is_scalar(x) and not a and not k:
                    return sf(x)
                return f(x, *a, **k)
            return wrapped
        return f


class installed:
    """context manager: bind np / math in all nflows modules to proxies"""

    def __enter__(self):
        self.saved = []
        import torch
        from . import ops
        self._randint = torch.randint

        def randint(*a, **k):
            # torch's C++ argument parser rejects symbolic scalars before the TorchFunctionMode sees the call
            from .core import Ctx
            if Ctx.cur is not None:
                return ops.HANDLERS["randint"](self._randint, a, k)
            return self._randint(*a, **k)
        torch.randint = randint
        # the same for Tensor methods that take a Number argument: a symbolic scalar (result of .item()) is handed to the op model directly
        self._tensor_methods = {}
        from .core import SymScalar, Ctx as _Ctx

        def wrap(name):
            cur = getattr(torch.Tensor, name)
            orig = getattr(cur, "_tsv_orig", cur)          # nested installs: always delegate to the real method

            def method(self_, *a, **k):
                if _Ctx.cur is not None and any(isinstance(v, SymScalar) for v in list(a) + list(k.values())):
                    return ops.HANDLERS[name](orig, (self_,) + a, k)
                return orig(self_, *a, **k)
            method._tsv_orig = orig
            method.__name__ = name
            return cur, method
        for name in ("new_full", "fill_", "masked_fill", "masked_fill_"):
            if name in ops.HANDLERS:
                cur, method = wrap(name)
                self._tensor_methods[name] = cur
                setattr(torch.Tensor, name, method)
        # dtype / device conversions of modules create new parameter objects (so a converted symbolic parameter gets its new dtype)
        self._ow = torch.__future__.get_overwrite_module_params_on_conversion()
        torch.__future__.set_overwrite_module_params_on_conversion(True)
        for m in list(sys.modules.values()):
            if m is None or not getattr(m, "__name__", "").startswith("nflows"):
                continue
            for k, v in list(vars(m).items()):
                if v is _np or v is _math:
                    self.saved.append((m, k, v))
                    setattr(m, k, Proxy(v))
        return self

    def __exit__(self, *a):
        import torch
        torch.randint = self._randint
        for name, orig in self._tensor_methods.items():
            setattr(torch.Tensor, name, orig)
        torch.__future__.set_overwrite_module_params_on_conversion(self._ow)
        for m, k, v in self.saved:
            setattr(m, k, v)
