"""harness = one contract instance (a real function + configuration + requires/ensures + native replay)."""
import time, json, math, os, sys, traceback, random
from fractions import Fraction
import numpy as np
import torch, z3
from .core import (Sym, P, C, Ctx, explore, Unsupported, PathLimit, sym_input, lift, toreal, is_num, num, Mode, REPO)
from . import solve, terms as T
from .instrument import source_hash

SAFETY = {"division-nonzero", "log-arg-positive", "sqrt-arg-nonneg", "pow-domain", "index-in-range", "assert-holds",
          "no-unexpected-raise"}


class Harness:
    """
    hid        unique id, e.g. "rq_spline[K=3,inverse=False]"
    run(h, ctx)            builds symbolic arguments with h.inp(...), calls the real function, returns its value
    post(h, ctx, value)    emits `ensures` obligations with ctx.oblige("ensures", goal, label=...)
    raises     {ExceptionType: fn(h, ctx) -> z3 condition under which raising is REQUIRED/allowed (raises-iff)}
    native_call(h, inp)    calls the real function on native tensors built from inp (dict name -> np.ndarray)
    native_clauses(h, inp, result) -> {label: bool}
    native_raises {ExceptionType: fn(h, inp) -> bool}
    sample(h, rng) -> inp  random native inputs satisfying the precondition (refutation helper)
    """

    def __init__(self, hid, run, post=None, raises=None, native_call=None, native_clauses=None, native_raises=None,
                 sample=None, functions=(), config=None, budget=None, check_defined=True, max_paths=2000):
        self.hid, self._run, self._post = hid, run, post
        self.raises = raises or {}
        self.native_call, self.native_clauses, self.native_raises = native_call, native_clauses, native_raises or {}
        self.sample = sample
        self.functions = list(functions)
        self.config = config or {}
        self.budget = budget
        self.check_defined = check_defined
        self.max_paths = max_paths
        self.inputs = {}

    # -- symbolic inputs ---------------------------------------------------------------------------
    def inp(self, name, shape=(), dtype=torch.float32, owner="arg"):
        s = sym_input(name, shape, dtype, owner=f"{owner}:{name}" if owner else None)
        self.inputs[name] = s
        return s

    # -- one symbolic path -------------------------------------------------------------------------
    def _exec(self, ctx):
        self.inputs = {}
        return self._run(self, ctx)

    def _finish(self, res):
        ctx = res.ctx
        Ctx.cur = ctx
        if res.kind == "raise":
            e = res.value
            for et, condf in self.raises.items():
                if isinstance(e, et):
                    ctx.oblige("raises-only-if", condf(self, ctx), label=et.__name__, loc=("contract", self.hid.split("[")[0], 0))
                    break
            else:
                tb = traceback.extract_tb(e.__traceback__)
                where = next((f"{os.path.relpath(f.filename, REPO)}:{f.name}" for f in reversed(tb) if f.filename.startswith(REPO)), "?")
                ctx.oblige("no-unexpected-raise", z3.BoolVal(False), label=type(e).__name__,
                           loc=(where.split(":")[0], where.split(":")[-1], 0), meta={"message": str(e)[:200]})
        else:
            for et, condf in self.raises.items():
                ctx.oblige("returns-only-if-not", z3.Not(condf(self, ctx)), label=et.__name__, loc=("contract", self.hid.split("[")[0], 0))
            if self.check_defined:
                leaves = [x for x in _tensor_leaves(res.value) if isinstance(x, Sym)]
                ctx.oblige_defined([e for o in leaves for e in P(o).reshape(-1)])
            if self._post is not None:
                self._post(self, ctx, res.value)


def _tensor_leaves(v):
    if isinstance(v, torch.Tensor):
        yield v
    elif isinstance(v, (tuple, list)):
        for x in v:
            yield from _tensor_leaves(x)
    elif isinstance(v, dict):
        for x in v.values():
            yield from _tensor_leaves(x)


# ----------------------------------------------------------------------------------------------------
# model -> native inputs
# ----------------------------------------------------------------------------------------------------
def _val(model, t):
    v = model.eval(t, model_completion=True)
    if z3.is_rational_value(v) or z3.is_int_value(v):
        return float(Fraction(v.numerator_as_long(), v.denominator_as_long())) if z3.is_rational_value(v) else float(v.as_long())
    if z3.is_algebraic_value(v):
        a = v.approx(20)
        return float(Fraction(a.numerator_as_long(), a.denominator_as_long()))
    if z3.is_true(v): return 1.0
    if z3.is_false(v): return 0.0
    raise ValueError("non-numeric model value " + str(v))


def model_inputs(h, ctx, model):
    """numpy arrays for every declared input; base variables that only feed a transcendental abstraction are
    reconstructed from the value the model gives to that abstraction (inverse samplers)."""
    override = {}
    for kind, arg, res, extra in ctx.atoms:
        try:
            if kind == "softmax":
                ps = [_val(model, r) for r in res]
                if all(z3.is_const(a) and a.decl().kind() == z3.Z3_OP_UNINTERPRETED for a in arg) and all(p > 0 for p in ps):
                    for a, p in zip(arg, ps):
                        override.setdefault(a.get_id(), math.log(p))
            elif kind == "softplus" and z3.is_const(arg) and arg.decl().kind() == z3.Z3_OP_UNINTERPRETED:
                v = _val(model, res); beta = 1.0 if extra is None else _val(model, extra)
                if v > 0:
                    bv = beta * v
                    override.setdefault(arg.get_id(), (bv + math.log1p(-math.exp(-bv))) / beta if bv < 30 else v)
            elif kind == "sigmoid" and z3.is_const(arg) and arg.decl().kind() == z3.Z3_OP_UNINTERPRETED:
                v = _val(model, res)
                if 0 < v < 1:
                    override.setdefault(arg.get_id(), math.log(v / (1 - v)))
            elif kind == "exp" and z3.is_const(arg) and arg.decl().kind() == z3.Z3_OP_UNINTERPRETED:
                v = _val(model, res)
                if v > 0:
                    override.setdefault(arg.get_id(), math.log(v))
        except Exception:
            pass
    inp = {}
    for name, s in h.inputs.items():
        p = P(s)
        a = np.zeros(p.shape, dtype=np.float64)
        for idx in np.ndindex(*p.shape):
            t = p[idx]
            a[idx] = override[t.get_id()] if t.get_id() in override else _val(model, t)
        inp[name] = a
    return inp


def native_eval(h, inp):
    """float64 evaluation of every clause; the safety clauses (no unexpected raise, finite results, raises-iff) are evaluated
    again in float32 (the library's default precision) and must hold in both"""
    from contracts import common
    out = _native_eval(h, inp)
    if getattr(h, "native_float32", True):
        common.NATIVE_DTYPE[0] = torch.float32
        try:
            inp32 = {k: np.asarray(v, dtype=np.float32).astype(np.float64) if np.asarray(v).dtype.kind == "f" else v for k, v in inp.items()}
            c32 = bool(getattr(h, "clauses32", False))
            o32 = _native_eval(h, inp32, clauses=c32)
            for k in (list(o32) if c32 else ("no-raise", "finite")):
                if not k.startswith("_") and o32.get(k) is False and out.get(k) is not False:
                    out[k] = False; out["_outcome32"] = o32.get("_outcome")
        except Exception as e:
            out["_float32_error"] = f"{type(e).__name__}: {e}"
        finally:
            common.NATIVE_DTYPE[0] = torch.float64
    return out


def _native_eval(h, inp, clauses=True):
    out = {}
    try:
        with torch.no_grad() if False else _nullctx():
            res = h.native_call(h, inp)
    except Exception as e:
        for et, pred in h.native_raises.items():
            if isinstance(e, et):
                out["raises-only-if:" + et.__name__] = bool(pred(h, inp))
                out["no-raise"] = True
                out["_outcome"] = "raise " + type(e).__name__
                return out
        out["no-raise"] = False
        out["_outcome"] = f"raise {type(e).__name__}: {str(e)[:120]}"
        return out
    out["no-raise"] = True
    for et, pred in h.native_raises.items():
        out["returns-only-if-not:" + et.__name__] = not bool(pred(h, inp))
    fin = True
    for t in _tensor_leaves(res):
        if t.is_floating_point() and not bool(torch.isfinite(t).all()):
            fin = False
    out["finite"] = fin
    out["_outcome"] = "ret"
    if h.native_clauses is not None and clauses:
        try:
            out.update({k: bool(v) for k, v in h.native_clauses(h, inp, res).items()})
        except Exception as e:
            out["_clauses_error"] = f"{type(e).__name__}: {e}"
    return out


class _nullctx:
    def __enter__(self): return self
    def __exit__(self, *a): return False


def keys_for(ob):
    if ob["kind"] in ("raises-only-if", "returns-only-if-not"):
        return [ob["kind"] + ":" + ob["label"]]
    if ob["kind"] in SAFETY:
        return ["finite", "no-raise"]
    if ob["kind"] in ("cut-lemma", "ieee-bump-effective"):
        return ["*"]      # a failed lemma is witnessed by ANY contract clause failing natively
    return [ob["label"] or ob["kind"]]


def violated(nat, keys):
    if keys == ["*"]:
        return any(v is False for k, v in nat.items() if not k.startswith("_"))
    return any(nat.get(k) is False for k in keys)


def inp_jsonable(inp):
    return {k: np.asarray(v).tolist() for k, v in inp.items()}


# ----------------------------------------------------------------------------------------------------
# run one harness completely (symbolic exploration, discharge, adjudication of failures)
# ----------------------------------------------------------------------------------------------------
def run_harness(h, budget_s=20.0, seed=0, native_tries=300):
    t0 = time.time()
    rec = {"harness": h.hid, "config": h.config, "functions": {f.__module__ + "." + f.__qualname__: source_hash(f) for f in h.functions},
           "obligations": [], "paths": 0, "status": "ok", "failures": [], "explore_s": 0.0, "solve_s": 0.0}
    budget_s = h.budget or budget_s
    try:
        results = explore(h._exec, max_paths=h.max_paths, on_path=h._finish)
    except Unsupported as e:
        rec["status"] = "undecided"; rec["reason"] = "unsupported: " + str(e); rec["trace"] = traceback.format_exc()[-1500:]
        return rec
    except PathLimit as e:
        rec["status"] = "undecided"; rec["reason"] = "path-limit: " + str(e)
        return rec
    rec["explore_s"] = time.time() - t0
    rec["paths"] = len(results)
    rec["path_kinds"] = {}
    for res in results:
        k = "ret" if res.kind == "ret" else "raise:" + type(res.value).__name__
        rec["path_kinds"][k] = rec["path_kinds"].get(k, 0) + 1
    seen = {}
    rec["assumed"] = sorted({a for res in results for a in res.ctx.notes.get("assumed", [])})
    for pi, res in enumerate(results):
        ctx = res.ctx
        Ctx.cur = ctx
        for ob in ctx.obls:
            d = solve.discharge(ob, ctx, budget_s)
            rec["solve_s"] += d["time"]
            o = {"name": ob.name, "kind": ob.kind, "label": ob.label, "path": pi, "line": ob.line, "status": d["status"],
                 "backend": d["backend"], "time": round(d["time"], 3)}
            if ob.meta: o["meta"] = ob.meta
            if ctx.feas_unknown and d["status"] == "sat":
                o["status"] = "unknown"; o["note"] = "path feasibility unknown"
            rec["obligations"].append(o)
            if o["status"] != "unsat":
                fail = dict(o)
                fail["goal"] = str(d.get("goal"))[:600]
                if d["status"] == "sat":
                    # is the `sat` a counterexample over the reals?  not if the query speaks about uninterpreted abstractions (exp, log, stubs ...)
                    g_ = d.get("goal")
                    try:
                        trivially_false = g_ is not None and z3.is_false(z3.simplify(g_))
                        fail["sat_untrusted"] = bool((not trivially_false) and T.has_abstracted_function(list(d.get("assertions") or ob.hyps) + [g_]))
                        if fail["sat_untrusted"] and d.get("model") is not None:
                            # the model is re-evaluated with the real exp / log / ... in place of their abstractions
                            from . import realcheck
                            okc, why = realcheck.confirm(d["model"], list(d.get("assertions") or ob.hyps), g_)
                            fail["real_evaluation"] = why
                            if os.environ.get("TSV_DEBUG"): print("real-evaluation:", ob.name, okc, why, file=sys.stderr)
                            if okc: fail["sat_untrusted"] = False
                    except Exception:
                        fail["sat_untrusted"] = False
                fail["solver_output"] = str(d["model"])[:1500] if d.get("model") is not None else d["status"]
                if d["status"] == "sat" and d.get("model") is not None and h.native_call is not None and ob.kind != "ieee-bump-effective":
                    try:
                        inp = model_inputs(h, ctx, d["model"])
                        if h.sample is not None:
                            # inputs the model does not speak about (seeds, unused tensors) get sampled defaults
                            base = h.sample(h, np.random.default_rng(seed))
                            base.update(inp); inp = base
                        nat = native_eval(h, inp)
                        fail["model_inputs"] = inp_jsonable(inp)
                        fail["native"] = {k: v for k, v in nat.items()}
                        if violated(nat, keys_for(o)):
                            fail["replayed"] = True
                            fail["replay_inputs"] = inp_jsonable(inp)
                    except Exception as e:
                        fail["replay_error"] = f"{type(e).__name__}: {e}"
                rec["failures"].append(fail)
    Ctx.cur = None
    # refutation helper: native random search for failures that did not replay
    pend = [f for f in rec["failures"] if not f.get("replayed")]
    if pend and h.native_call is not None and h.sample is not None:
        rng = random.Random(seed)
        nprng = np.random.default_rng(seed)
        for _ in range(getattr(h, "native_tries", None) or native_tries):
            if not pend: break
            try:
                inp = h.sample(h, nprng)
                nat = native_eval(h, inp)
            except Exception as e:
                break
            for f in list(pend):
                if violated(nat, keys_for(f)):
                    f["replayed"] = True; f["replay_inputs"] = inp_jsonable(inp); f["native"] = nat; f["found_by"] = "native-search"
                    pend.remove(f)
    rec["wall_s"] = time.time() - t0
    return rec
