"""re-evaluation of a solver model under the TRUE interpretation of the abstracted real functions (trusted base).

The solver sees exp, log, atan, ... only through instances of their laws, so a `sat` answer may assign them values no real function has.  Before
such a model is reported as a counterexample of a verification condition, the condition is evaluated again at the model's values of the free
constants and of the ARBITRARY function symbols (conditioner / embedding / stage stubs: any interpretation of those is legitimate), with every
abstracted symbol replaced by the real function it stands for (mpmath, 60 digits).  The model is confirmed when every hypothesis that mentions an
abstracted symbol is true and the goal is false, each by a clear margin; anything else (margins not met, an arbitrary function applied to a
transcendental value, quantifiers) leaves the obligation undecided.  Hypotheses without abstracted symbols are satisfied by the model already."""
import z3
import mpmath as mp
from . import terms as T

mp.mp.dps = 60
MARGIN = mp.mpf(10) ** -9      # goals must fail / strict hypotheses must hold by this (relative) margin
EQTOL = mp.mpf(10) ** -30      # equalities among transcendental expressions count as true below this (relative) difference


class Unknown(Exception):
    pass


REAL = {
    "expf": mp.exp, "logf": None, "atanf": mp.atan, "tanf": mp.tan, "sinf": mp.sin, "cosf": mp.cos, "erff": mp.erf, "acosf": None, "cbrtf": mp.cbrt,
}


def _log(x):
    if x <= 0: raise Unknown("log of a non-positive value")
    return mp.log(x)


def _acos(x):
    if x < -1 or x > 1: raise Unknown("acos outside [-1, 1]")
    return mp.acos(x)


REAL["logf"] = _log
REAL["acosf"] = _acos


def _is_abstracted_app(u):
    return z3.is_app(u) and u.decl().kind() == z3.Z3_OP_UNINTERPRETED and ((u.num_args() > 0 and u.decl().name() in T.ABSTRACTED_FUNCTIONS) or (u.num_args() == 0 and u.decl().name() == "PI"))


class Evaluator:
    def __init__(self, model):
        self.m = model
        self.memo = {}
        self.trans = {}
        self.margin = MARGIN

    def transcendental(self, t):
        """does t mention an abstracted symbol (or PI)?"""
        k = t.get_id()
        if k in self.trans: return self.trans[k]
        r = _is_abstracted_app(t) or any(self.transcendental(c) for c in t.children())
        if z3.is_quantifier(t): raise Unknown("quantifier")
        self.trans[k] = r
        return r

    def _num(self, v):
        if z3.is_rational_value(v):
            return mp.mpf(v.numerator_as_long()) / mp.mpf(v.denominator_as_long())
        if z3.is_int_value(v):
            return mp.mpf(v.as_long())
        if z3.is_algebraic_value(v):
            a = v.approx(40)
            return mp.mpf(a.numerator_as_long()) / mp.mpf(a.denominator_as_long())
        raise Unknown(f"model value {v}")

    def model_value(self, t):
        v = self.m.eval(t, model_completion=True)
        if z3.is_bool(t):
            if z3.is_true(v): return True
            if z3.is_false(v): return False
            raise Unknown(f"model value {v}")
        return self._num(v)

    def val(self, t):
        """numeric value of an arithmetic term"""
        k = t.get_id()
        if k in self.memo: return self.memo[k]
        r = self._val(t)
        self.memo[k] = r
        return r

    def _val(self, t):
        if not self.transcendental(t):
            return self.model_value(t)
        if not z3.is_app(t): raise Unknown("non-application")
        kind = t.decl().kind(); ch = t.children()
        if kind == z3.Z3_OP_UNINTERPRETED:
            name = t.decl().name()
            if name == "PI" and not ch: return mp.pi
            if name in REAL and len(ch) == 1:
                return REAL[name](self.val(ch[0]))
            raise Unknown(f"arbitrary function {name} applied to a transcendental value")
        if kind == z3.Z3_OP_ADD: return mp.fsum(self.val(c) for c in ch)
        if kind == z3.Z3_OP_SUB:
            r = self.val(ch[0])
            for c in ch[1:]: r = r - self.val(c)
            return r
        if kind == z3.Z3_OP_UMINUS: return -self.val(ch[0])
        if kind == z3.Z3_OP_MUL:
            r = mp.mpf(1)
            for c in ch: r = r * self.val(c)
            return r
        if kind == z3.Z3_OP_DIV:
            d = self.val(ch[1])
            if abs(d) < MARGIN: raise Unknown("division by (nearly) zero")
            return self.val(ch[0]) / d
        if kind == z3.Z3_OP_POWER:
            b, e = self.val(ch[0]), self.val(ch[1])
            if e == int(e):
                if b == 0 and e < 0: raise Unknown("0 ** negative")
                return b ** int(e)
            if b <= 0: raise Unknown("fractional power of a non-positive value")
            return b ** e
        if kind == z3.Z3_OP_ITE:
            c = self.truth(ch[0])
            if c is None: raise Unknown("ite condition within margin")
            return self.val(ch[1] if c else ch[2])
        if kind == z3.Z3_OP_TO_REAL: return self.val(ch[0])
        raise Unknown(f"operator {t.decl().name()}")

    def truth(self, t):
        """True / False by a clear margin, None when within the margin"""
        if not self.transcendental(t):
            return self.model_value(t)
        if not z3.is_app(t): raise Unknown("non-application")
        kind = t.decl().kind(); ch = t.children()
        if kind == z3.Z3_OP_NOT:
            r = self.truth(ch[0]); return None if r is None else (not r)
        if kind == z3.Z3_OP_AND:
            rs = [self.truth(c) for c in ch]
            if any(r is False for r in rs): return False
            return None if any(r is None for r in rs) else True
        if kind == z3.Z3_OP_OR:
            rs = [self.truth(c) for c in ch]
            if any(r is True for r in rs): return True
            return None if any(r is None for r in rs) else False
        if kind == z3.Z3_OP_IMPLIES:
            a, b = self.truth(ch[0]), self.truth(ch[1])
            if a is False or b is True: return True
            if a is True and b is False: return False
            return None
        if kind == z3.Z3_OP_ITE:
            c = self.truth(ch[0])
            if c is None: return None
            return self.truth(ch[1] if c else ch[2])
        if kind in (z3.Z3_OP_EQ, z3.Z3_OP_DISTINCT) and len(ch) == 2:
            if z3.is_bool(ch[0]):
                a, b = self.truth(ch[0]), self.truth(ch[1])
                if a is None or b is None: return None
                return (a == b) if kind == z3.Z3_OP_EQ else (a != b)
            a, b = self.val(ch[0]), self.val(ch[1])
            sc = 1 + abs(a) + abs(b)
            d = abs(a - b)
            eq = True if d <= EQTOL * sc else (False if d > self.margin * sc else None)
            if eq is None: return None
            return eq if kind == z3.Z3_OP_EQ else (not eq)
        if kind in (z3.Z3_OP_LE, z3.Z3_OP_LT, z3.Z3_OP_GE, z3.Z3_OP_GT):
            a, b = self.val(ch[0]), self.val(ch[1])
            if kind in (z3.Z3_OP_GE, z3.Z3_OP_GT): a, b = b, a
            sc = 1 + abs(a) + abs(b)
            if a < b - self.margin * sc: return True
            if a > b + self.margin * sc: return False
            if kind in (z3.Z3_OP_LE, z3.Z3_OP_GE) and abs(a - b) <= EQTOL * sc: return True
            return None
        raise Unknown(f"operator {t.decl().name()}")


def confirm(model, assertions, goal):
    """(confirmed, reason): is the model a counterexample of  /\\ assertions -> goal  under the real interpretation of the abstracted functions?"""
    try:
        ev = Evaluator(model)
        g = ev.truth(goal)
        if g is not False:
            return False, "goal is not false by a clear margin under the real functions" if g is None else "goal holds under the real functions at the model's point"
        ev.margin = 10 * EQTOL      # hypotheses only have to be TRUE at 60 digits; the goal has to fail by the clear margin
        for a in assertions:
            r = ev.truth(a)      # (assertions without abstracted symbols: the model's own value, which must be true as well)
            if r is not True:
                return False, "a hypothesis is not true under the real functions at the model's point: " + str(a)[:160]
        return True, "goal false and every hypothesis true under the real functions (60-digit evaluation)"
    except Unknown as e:
        return False, "not evaluable: " + str(e)
    except (ZeroDivisionError, OverflowError, ValueError, z3.Z3Exception, RecursionError) as e:
        return False, f"not evaluable: {type(e).__name__}: {e}"
