"""term utilities: folding constructors, base symbols, differentiator, log-linear normaliser (trusted base)."""
from fractions import Fraction
import z3
from .core import rv, num, is_num, toreal, Unsupported, R

expf = z3.Function("expf", R, R)
logf = z3.Function("logf", R, R)
sqrtf = z3.Function("sqrtf", R, R)
IMPLICIT = {}       # id of a cut symbol th -> (th, G) with G(th, ...) == 0 its defining equation (implicit function theorem)
SQRT_DEFS = {}      # id of a fresh sqrt constant -> (const, radicand)
PI = z3.Real("PI")          # the constant pi, carried symbolically (3.14159 < PI < 3.14160 as axiom when needed)

OPAQUE_UNARY = {}


def opaque(name):
    f = OPAQUE_UNARY.get(name)
    if f is None:
        f = OPAQUE_UNARY[name] = z3.Function(name, R, R)
    return f


def add(a, b):
    if is_num(a) and is_num(b): return _mk(num(a) + num(b), a, b)
    if is_num(a) and num(a) == 0: return b
    if is_num(b) and num(b) == 0: return a
    return a + b


def sub(a, b):
    if is_num(a) and is_num(b): return _mk(num(a) - num(b), a, b)
    if is_num(b) and num(b) == 0: return a
    return a - b


def mul(a, b):
    if is_num(a) and is_num(b): return _mk(num(a) * num(b), a, b)
    for x, y in ((a, b), (b, a)):
        if is_num(x):
            if num(x) == 1: return y
            if num(x) == 0 and True: return _mk(Fraction(0), a, b)
    return a * b


def neg(a):
    if is_num(a): return _mk(-num(a), a, a)
    return -a


def div(a, b):
    """real division (callers register the partiality)"""
    if is_num(a) and is_num(b) and num(b) != 0: return rv(num(a) / num(b))
    if is_num(b) and num(b) == 1: return a
    return a / b


def _mk(fr, a, b):
    if z3.is_int(a) and z3.is_int(b) and fr.denominator == 1:
        return z3.IntVal(int(fr))
    return rv(fr)


def ipow(x, e: int):
    if e == 0: return rv(1)
    r = x
    for _ in range(e - 1):
        r = mul(r, x)
    return r


_bs_cache = {}


def base_symbols(t):
    """ids of uninterpreted constants occurring in t (cached on term id; term kept alive)"""
    tid = t.get_id()
    hit = _bs_cache.get(tid)
    if hit is not None:
        return hit[1]
    out = set()
    stack = [t]
    seen = set()
    while stack:
        u = stack.pop()
        uid = u.get_id()
        if uid in seen: continue
        seen.add(uid)
        if z3.is_const(u):
            if u.decl().kind() == z3.Z3_OP_UNINTERPRETED:
                out.add(uid)
                _names[uid] = u
        else:
            stack.extend(u.children())
    fs = frozenset(out)
    _bs_cache[tid] = (t, fs)
    return fs


_names = {}


def sym_by_id(i):
    return _names[i]


def subterm_ids(ts):
    seen = set()
    stack = list(ts)
    while stack:
        u = stack.pop()
        uid = u.get_id()
        if uid in seen: continue
        seen.add(uid)
        stack.extend(u.children())
    return seen


ABSTRACTED_FUNCTIONS = {"expf", "logf", "atanf", "tanf", "sinf", "cosf", "erff", "acosf", "cbrtf"}


def has_abstracted_function(ts):
    """does a term mention an uninterpreted symbol that stands for a SPECIFIC real function (exp, log, ...)?  A `sat` answer over such symbols
    need not be realisable over the reals (only instances of their laws are given to the solver).  Uninterpreted functions that stand for
    ARBITRARY user functions (conditioner / embedding / stage stubs) are different: a model for them is a genuine counterexample."""
    seen = set()
    stack = list(ts)
    while stack:
        u = stack.pop()
        uid = u.get_id()
        if uid in seen: continue
        seen.add(uid)
        if z3.is_app(u) and u.num_args() > 0 and u.decl().kind() == z3.Z3_OP_UNINTERPRETED and u.decl().name() in ABSTRACTED_FUNCTIONS:
            return True
        stack.extend(u.children())
    return False


def has_uf(ts):
    seen = set()
    stack = list(ts)
    while stack:
        u = stack.pop()
        uid = u.get_id()
        if uid in seen: continue
        seen.add(uid)
        if z3.is_app(u) and u.num_args() > 0 and u.decl().kind() == z3.Z3_OP_UNINTERPRETED:
            return True
        if z3.is_quantifier(u):
            return True
        stack.extend(u.children())
    return False


# ------------------------------------------------------------------------------------------------
# differentiation of z3 real terms w.r.t. a constant (calculus rules = trusted base)
# ------------------------------------------------------------------------------------------------
DERIV_RULES = {}   # uninterpreted unary function name -> lambda(arg, app) -> derivative wrt arg


def diff(t, x, cache=None):
    if cache is None: cache = {}
    tid = t.get_id()
    if tid in cache: return cache[tid]
    r = _diff(t, x, cache)
    cache[tid] = r
    return r


def _diff(t, x, cache):
    if z3.eq(t, x): return rv(1)
    ch = t.children()
    if not ch:
        im = IMPLICIT.get(t.get_id())
        if im is not None and not z3.eq(t, x):
            th, G = im
            # d th/dx = -(dG/dx | th const) / (dG/dth)
            gx = _diff_holding(G, x, th)
            if is_num(gx) and num(gx) == 0: return rv(0)
            gth = _diff_holding(G, th, None)
            return neg(div(gx, gth))
        sd = SQRT_DEFS.get(t.get_id())
        if sd is not None:
            da = diff(sd[1], x, cache)
            if is_num(da) and num(da) == 0: return rv(0)
            return div(da, mul(rv(2), t))
        return rv(0)
    k = t.decl().kind()
    if k == z3.Z3_OP_ADD:
        r = rv(0)
        for c in ch: r = add(r, diff(c, x, cache))
        return r
    if k == z3.Z3_OP_SUB:
        r = diff(ch[0], x, cache)
        for c in ch[1:]: r = sub(r, diff(c, x, cache))
        return r
    if k == z3.Z3_OP_UMINUS: return neg(diff(ch[0], x, cache))
    if k == z3.Z3_OP_MUL:
        tot = rv(0)
        for i in range(len(ch)):
            term = diff(ch[i], x, cache)
            if is_num(term) and num(term) == 0: continue
            for j in range(len(ch)):
                if j != i: term = mul(term, ch[j])
            tot = add(tot, term)
        return tot
    if k == z3.Z3_OP_DIV:
        a, b = ch
        da, db = diff(a, x, cache), diff(b, x, cache)
        if is_num(db) and num(db) == 0:
            return div(da, b)
        return div(sub(mul(da, b), mul(a, db)), mul(b, b))
    if k == z3.Z3_OP_ITE:
        return z3.If(ch[0], diff(ch[1], x, cache), diff(ch[2], x, cache))
    if k == z3.Z3_OP_TO_REAL: return rv(0)
    if k == z3.Z3_OP_POWER:
        base, e = ch
        if is_num(e) and num(e).denominator == 1 and num(e) >= 1:
            n = int(num(e))
            return mul(mul(rv(n), ipow(base, n - 1)), diff(base, x, cache))
        raise Unsupported("diff power")
    if k == z3.Z3_OP_UNINTERPRETED:
        name = t.decl().name()
        if len(ch) == 1:
            da = diff(ch[0], x, cache)
            if is_num(da) and num(da) == 0: return rv(0)
            if name == "logf": return div(da, ch[0])
            if name == "expf": return mul(da, t)
            if name == "sqrtf": return div(da, mul(rv(2), t))
            if name in DERIV_RULES: return mul(da, DERIV_RULES[name](ch[0], t))
        else:
            from .core import C
            # row-wise / multi-argument uninterpreted function: partial derivatives are fresh UFs
            tot = rv(0)
            for i, c in enumerate(ch):
                dc = diff(c, x, cache)
                if is_num(dc) and num(dc) == 0: continue
                pd = z3.Function(f"d{i}_{name}", *([a.sort() for a in ch] + [R]))
                tot = add(tot, mul(dc, pd(*ch)))
            return tot
    raise Unsupported("diff " + str(t.decl()))


def _diff_holding(G, x, hold):
    """partial derivative of G wrt x, treating `hold` (an implicit symbol) as independent of x"""
    saved = None
    if hold is not None:
        saved = IMPLICIT.pop(hold.get_id(), None)
    elif x.get_id() in IMPLICIT:
        saved = IMPLICIT.pop(x.get_id()); hold = x
    try:
        return diff(G, x, {})
    finally:
        if saved is not None:
            IMPLICIT[hold.get_id()] = saved


def depends_on(t, x):
    xid = x.get_id()
    return xid in subterm_ids([t])


# ------------------------------------------------------------------------------------------------
# log-linear normaliser:  t == rest + sum c_i * logf(p_i)
# ------------------------------------------------------------------------------------------------
def loglin(t):
    k = t.decl().kind()
    ch = t.children()
    if k == z3.Z3_OP_UNINTERPRETED and t.decl().name() == "logf":
        return rv(0), [(Fraction(1), ch[0])]
    if k == z3.Z3_OP_ADD:
        rest = rv(0); terms = []
        for c in ch:
            r, ts = loglin(c); rest = add(rest, r); terms += ts
        return rest, terms
    if k == z3.Z3_OP_SUB:
        rest, terms = loglin(ch[0])
        terms = list(terms)
        for c in ch[1:]:
            r, ts = loglin(c); rest = sub(rest, r); terms += [(-a, p) for a, p in ts]
        return rest, terms
    if k == z3.Z3_OP_UMINUS:
        r, ts = loglin(ch[0]); return neg(r), [(-a, p) for a, p in ts]
    if k == z3.Z3_OP_MUL and len(ch) == 2:
        for a_, b_ in ((ch[0], ch[1]), (ch[1], ch[0])):
            if is_num(a_):
                r, ts = loglin(b_); c = num(a_)
                return mul(a_, r), [(c * a, p) for a, p in ts]
    if k == z3.Z3_OP_DIV and is_num(ch[1]) and num(ch[1]) != 0:
        r, ts = loglin(ch[0]); c = 1 / num(ch[1])
        return div(r, ch[1]), [(c * a, p) for a, p in ts]
    if k == z3.Z3_OP_ITE:
        return t, []
    return t, []


def exp_of_loglin(t):
    """t = rest + sum c_i log p_i with integer c_i  ->  (rest, num, den) with exp(t) = exp(rest) * num/den"""
    rest, terms = loglin(t)
    numr = rv(1); den = rv(1)
    for c, p in terms:
        if c.denominator != 1:
            raise Unsupported("fractional log coefficient")
        for _ in range(abs(int(c))):
            if c > 0: numr = mul(numr, p)
            else: den = mul(den, p)
    return rest, numr, den
