"""check driver: runs harnesses in a process pool, applies ledger / known-findings rules, writes evidence, exit codes.

exit 0 held (or only KNOWN-FINDING) | 1 VIOLATION | 2 undecided | 3 crash        (DESIGN 3.9)
"""
import os, sys, json, time, fnmatch, hashlib, traceback, multiprocessing as mp
import torch

VERIF = os.path.dirname(os.path.dirname(os.path.abspath(__file__)))
TRUSTED_BASE = [
    "CPython executes the real nflows function bodies (imported from the repository working tree); AST insertion only adds cut/assert hooks",
    "op models of tsv/ops*.py = assumed contracts of torch (exact data movement; float arithmetic treated as real arithmetic)",
    "axioms for exp/log/sqrt/softplus/sigmoid/tanh; softmax abstracted as a point of the open simplex",
    "term differentiator and log-linear normaliser of tsv/terms.py",
    "z3 5.1.0 answers unsat only for unsatisfiable formulas",
    "sympy 1.14 polynomial arithmetic (cancel / groebner / reduce) for the obligations whose back end is sympy-ring+z3 (rational-function identities; z3 proves the denominators non-zero)",
    "mathematical lemmas 4a-4d, the Gaussian normaliser and the exp/log/sqrt/softplus/sigmoid/tanh/arctan/softmax axiom schemas are machine-checked in lemmas/Lemmas.lean (Lean 4.33 + Mathlib, lemmas/check.sh); 4e, 4f, 4h are trusted",
]

_H = []


def _work(i_budget_seed):
    i, budget, seed = i_budget_seed
    from .harness import run_harness
    torch.set_num_threads(1)
    h = _H[i]
    try:
        return run_harness(h, budget, seed)
    except Exception as e:
        return {"harness": h.hid, "status": "crash", "reason": f"{type(e).__name__}: {e}", "trace": traceback.format_exc()[-3000:],
                "obligations": [], "failures": [], "paths": 0, "config": h.config, "functions": {}}


def load_json(path, default):
    try:
        with open(path) as f:
            return json.load(f)
    except FileNotFoundError:
        return default


def finding_matches(kf, pid, hid, name):
    return kf.get("property") == pid and kf.get("status", "open") == "open" and fnmatch.fnmatchcase(hid, kf["harness"]) \
        and fnmatch.fnmatchcase(name, kf["obligation"])


def run_check(pid, harnesses, tier="quick", seed=0, budget=None, level="proof", assumptions=(), not_decided=(),
              bounded_in=None, unbounded_in=None, update_ledger=False, extra_cov=None, jobs=None, explanation=None):
    t0 = time.time()
    budget = budget or (6.0 if tier == "quick" else 30.0)
    global _H
    _H = list(harnesses)
    ids = [h.hid for h in _H]
    assert len(set(ids)) == len(ids), "duplicate harness ids"
    import nflows
    from .core import REPO
    assert os.path.realpath(nflows.__file__).startswith(REPO + os.sep), (nflows.__file__, REPO)
    jobs = jobs or min(16, max(1, len(_H)))
    torch.set_num_threads(1)
    if jobs > 1 and len(_H) > 1:
        ctx = mp.get_context("fork")
        with ctx.Pool(jobs) as pool:
            recs = pool.map(_work, [(i, budget, seed) for i in range(len(_H))], chunksize=1)
    else:
        recs = [_work((i, budget, seed)) for i in range(len(_H))]

    ledger_path = os.path.join(VERIF, "ledger", f"{pid}.json")
    ledger = load_json(ledger_path, {})
    known = load_json(os.path.join(VERIF, "known_findings.json"), {"findings": []})["findings"]
    os.makedirs(os.path.join(VERIF, "replays"), exist_ok=True)
    os.makedirs(os.path.join(VERIF, "evidence"), exist_ok=True)

    n_obl = n_dis = 0
    n_known_obl = 0
    violations, undecided, crashes, known_hits, notes = [], [], [], [], []
    by_kind, by_backend = {}, {}
    solve_s = 0.0; max_t = 0.0; paths = 0
    functions = {}
    samples = []
    new_ledger = {}
    assumed_in_runs = set()
    for rec in recs:
        hid = rec["harness"]
        functions.update(rec.get("functions", {}))
        assumed_in_runs.update(rec.get("assumed", []))
        if rec["status"] == "crash":
            crashes.append((hid, rec["reason"], rec.get("trace", "")))
            continue
        if rec["status"] == "undecided":
            undecided.append((hid, "-", rec["reason"]))
            continue
        paths += rec["paths"]
        names = set()
        for o in rec["obligations"]:
            if o["kind"] == "proof-side-condition" and o["status"] != "unsat":
                names.add(o["name"])
                continue            # reported as a note (see below), not an obligation of the property
            n_obl += 1
            names.add(o["name"])
            by_kind[o["kind"]] = by_kind.get(o["kind"], 0) + 1
            solve_s += o["time"]; max_t = max(max_t, o["time"])
            if o["status"] == "unsat":
                n_dis += 1
                by_backend[o["backend"]] = by_backend.get(o["backend"], 0) + 1
        new_ledger[hid] = sorted(n for n in names if not any(f["name"] == n for f in rec["failures"]))
        if len(samples) < 6 and rec["obligations"]:
            o = rec["obligations"][min(len(rec["obligations"]) - 1, 3)]
            samples.append({"harness": hid, "obligation": o["name"], "status": o["status"], "backend": o["backend"], "line": o["line"]})
        # vacuity: contract clauses of the ledger must still be generated
        led = set(ledger.get(hid, []))
        if led and not update_ledger:
            missing = [n for n in led if n not in names and (n.startswith("ensures") or n.startswith("raises") or n.startswith("returns"))]
            if missing:
                undecided.append((hid, missing[0], "obligation-missing (vacuity guard)"))
            if len(names) == 0:
                undecided.append((hid, "-", "zero obligations"))
        seen_fail = set()
        for f in rec["failures"]:
            key = (hid, f["name"])
            if key in seen_fail:
                continue
            seen_fail.add(key)
            kf = next((k for k in known if finding_matches(k, pid, hid, f["name"])), None)
            if kf is not None:
                known_hits.append((hid, f["name"], kf["what"]))
                n_known_obl += sum(1 for o in rec["obligations"] if o["name"] == f["name"] and o["status"] != "unsat")
                continue
            in_ledger = f["name"] in led
            if f.get("kind") == "proof-side-condition":
                # a side condition of an inductive extension (not a clause of the property): when it no longer holds the claim falls back to the
                # enumerated counts, which are still proved; recorded as a note, no effect on the verdict
                notes.append((hid, f["name"], "induction side condition no longer holds, claim restricted to the enumerated loop counts: " + str(f.get("meta", ""))[:120]))
            elif f.get("replayed"):
                violations.append((hid, f, "replayed"))
            elif f["status"] == "sat" and in_ledger and not f.get("sat_untrusted"):
                violations.append((hid, f, "no-failing-input-found"))
            elif f["status"] == "sat" and in_ledger:
                # `sat` over uninterpreted abstractions of exp / log / ... is not a counterexample over the reals, and neither the model nor the
                # native search reproduced a failure on the real code: not decided
                undecided.append((hid, f["name"], "sat over abstracted real functions: the model is not a counterexample under the real exp/log/... (" + str(f.get("real_evaluation"))[:120] + "), and no failing input reproduced natively"))
            else:
                undecided.append((hid, f["name"], f"{f['status']}" + ("" if in_ledger else " (obligation not in ledger)")))
        if not rec["obligations"]:
            undecided.append((hid, "-", "zero obligations"))

    if update_ledger:
        os.makedirs(os.path.dirname(ledger_path), exist_ok=True)
        with open(ledger_path, "w") as f:
            json.dump(new_ledger, f, indent=0, sort_keys=True)

    # ---- report ------------------------------------------------------------------------------------
    seen_what = {}
    for hid, name, what in sorted(set(known_hits)):
        seen_what.setdefault(what, []).append(f"{hid} :: {name}")
    for what, where in seen_what.items():
        print(f"KNOWN-FINDING: property={pid} {what} [{len(where)} obligation(s), e.g. {where[0]}]")
    vio_lines = 0
    for hid, f, how in violations:
        fn = hashlib.sha1((hid + f["name"]).encode()).hexdigest()[:10]
        path = os.path.join(VERIF, "replays", f"{pid}-{fn}.json")
        with open(path, "w") as fh:
            json.dump({"property": pid, "harness": hid, "obligation": f["name"], "line": f.get("line"), "how": how,
                       "goal": f.get("goal"), "inputs": f.get("replay_inputs"), "native": f.get("native"),
                       "solver_output": f.get("solver_output"), "found_by": f.get("found_by", "solver-model"),
                       "cut_status": f.get("cut_status"), "real_evaluation": f.get("real_evaluation")}, fh, indent=1, default=str)
        tail = "" if how == "replayed" else " no-failing-input-found"
        print(f"VIOLATION property={pid} replay={path}{tail}")
        print(f"  obligation {f['name']} (line {f.get('line')}) in {hid}: {f['status']}; native={f.get('native')}")
        vio_lines += 1
    for why in sorted({w for _, _, w in notes}):
        print(f"NOTE property={pid} {why} [{sum(1 for _, _, w in notes if w == why)} harness(es)]")
    for hid, name, why in undecided:
        print(f"UNDECIDED property={pid} harness={hid} obligation={name} reason={why}")
    for hid, why, tr in crashes:
        print(f"CRASH property={pid} harness={hid} {why}\n{tr}")

    wall = time.time() - t0
    cov = {
        "obligations": n_obl - n_known_obl, "discharged": n_dis,
        "obligations_failing_as_known_findings": n_known_obl,
        "checker_cmd": f"./check {pid} --tier {tier}",
        "trusted_base": TRUSTED_BASE,
        "harnesses": len(_H), "paths_explored": paths,
        "obligations_by_kind": by_kind, "discharged_by_backend": by_backend,
        "solver_time_s": round(solve_s, 2), "max_obligation_time_s": round(max_t, 2),
        "functions_under_contract": functions,
        "samples": samples,
        "known_findings_hit": [f"{h} :: {n}" for h, n, _ in sorted(set(known_hits))],
        "undecided": [f"{h} :: {n} :: {w}" for h, n, w in undecided],
        "notes": sorted({w for _, _, w in notes}),
        "not_decided_clauses": list(not_decided),
        "bounded_in": bounded_in or {}, "unbounded_in": unbounded_in or [],
    }
    if explanation:
        cov["explanation"] = explanation
    if extra_cov:
        cov.update(extra_cov)
    ev = {"property_id": pid, "tier": tier, "seed": int(seed), "level": level, "coverage": cov,
          "assumptions": list(assumptions) + ["assumed inside a contract (never counted as proved): " + a for a in sorted(assumed_in_runs)], "wall_s": round(wall, 2), "violations": vio_lines}
    with open(os.path.join(VERIF, "evidence", f"{pid}.json"), "w") as f:
        json.dump(ev, f, indent=1, default=str)
    print(f"{pid} [{tier}]: harnesses={len(_H)} paths={paths} obligations={n_obl} discharged={n_dis} known={len(set(known_hits))} "
          f"violations={vio_lines} undecided={len(undecided)} crashes={len(crashes)} wall={wall:.1f}s")
    if crashes:
        return 3
    if vio_lines:
        return 1
    if undecided:
        return 2
    return 0
