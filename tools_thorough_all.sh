#!/bin/bash
# run every thorough tier sequentially (each uses the whole machine); log under /verif/logs (untracked)
cd /verif; mkdir -p logs
for c in ${@:-C01 C02 C03 C04 C05 C06 C07 C08 C09 C10 C11 C12 C13 C14 C15 C16 C17 C18 C19 C20}; do
  s=$(date +%s)
  timeout 5400 ./check $c --tier thorough > logs/thorough_$c.log 2>&1; rc=$?
  echo "$c rc=$rc wall=$(( $(date +%s) - s ))s $(grep -E "^C[0-9]+ \[" logs/thorough_$c.log | tail -1)"
done
