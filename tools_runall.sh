#!/bin/sh
# runs every claimed check (quick tier) on the current tree and validates the evidence files; usage: tools_runall.sh [--update-ledger]
cd /verif
for c in $(python3 -c "import json;print(' '.join(x['property_id'] for x in json.load(open('MANIFEST.json'))['checks']))"); do
  timeout 900 ./check $c $1 2>&1 | grep -E "^VIOL|^UNDEC|^CRASH|^C[0-9]+ \[" | cut -c1-220 | tail -3
done
timeout 900 .venv/bin/python -m tsv.selftest_ext 2>&1 | grep -E "MISMATCH|selftest_ext"
python3-vt - <<'PY'
import json, jsonschema, glob
sch = json.load(open('/root/.vp/EVIDENCE.schema.json'))
for f in sorted(glob.glob('/verif/evidence/*.json')):
    e = json.load(open(f)); jsonschema.validate(e, sch)
    c = e['coverage']
    flag = "" if c.get('obligations') == c.get('discharged') else "   <-- MISMATCH"
    print(e['property_id'], e['level'], c.get('obligations'), c.get('discharged'), e.get('violations'), flag)
PY
