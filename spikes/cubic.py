"""SPIKE: real cubic_spline forward through the engine with knots+bin hard cuts: monotone, endpoints, range, logdet."""
import sys; sys.path.insert(0, '.')
from symt import *
import symt, quad, warnings; warnings.filterwarnings("ignore")   # quad adds floor/long/clamp/cat handlers
import cut2, dterm
from cut2 import instrument
import nflows.transforms.splines.cubic as cmod

@handles('sign')
def _sign(func, args, kwargs): return Sym.make(uf(lambda x: z3.If(toreal(x) > 0, z3.RealVal(1), z3.If(toreal(x) < 0, z3.RealVal(-1), z3.RealVal(0))))(P(args[0])), args[0].dtype)
def _minmax2(func, args, kwargs):
    if len(args) == 2 and isinstance(args[1], torch.Tensor):
        pa, pb = np.broadcast_arrays(P(args[0]), P(args[1])); mn = func.__name__ == 'min'
        return Sym.make(bf(lambda x, y: z3.If((toreal(x) <= toreal(y)) if mn else (toreal(x) >= toreal(y)), toreal(x), toreal(y)))(pa, pb), args[0].dtype)
    return symt._minmax(func, args, kwargs)
HANDLERS['min'] = HANDLERS['max'] = _minmax2
@handles('sigmoid')
def _sg(func, args, kwargs):
    sgf = z3.Function('sigmoidf', z3.RealSort(), z3.RealSort())
    def g(x):
        v = sgf(toreal(x)); C().assume(z3.And(v > 0, v < 1)); return v
    return Sym.make(uf(g)(P(args[0])), args[0].dtype)

def cut_knots(cut_id, a, b, c, d, cumwidths, cumheights, widths):
    """lemma after the coefficient computation: per bin, in terms of (w, h, d0, d1): the cubic's coefficients"""
    K = widths.shape[-1]; lead = widths.shape[:-1]
    outs = [np.empty(t.shape, dtype=object) for t in (a, b, c, d, cumwidths, cumheights, widths)]
    allf = []
    for idx in np.ndindex(lead):
        ra, rb, rc, rd, rcw, rch, rw = (P(t)[idx] for t in (a, b, c, d, cumwidths, cumheights, widths))
        def facts(a_, b_, c_, d_, cw, ch, w, hh, d0, d1):
            f = [cw[0] == 0, cw[K] == 1, ch[0] == 0, ch[K] == 1]
            for k in range(K):
                s = hh[k] / w[k]
                f += [w[k] > 0, hh[k] > 0, w[k] == cw[k+1] - cw[k], hh[k] == ch[k+1] - ch[k], d_[k] == ch[k],
                      d0[k] > 0, d1[k] > 0, d0[k] < 3 * s, d1[k] < 3 * s,
                      a_[k] * w[k] * w[k] == d0[k] + d1[k] - 2 * s, b_[k] * w[k] == 3 * s - 2 * d0[k] - d1[k], c_[k] == d0[k]]
            return f
        # witnesses for the existentially introduced per-bin quantities taken from the real terms
        hh_r = [rch[k+1] - rch[k] for k in range(K)]; d0_r = [rc[k] for k in range(K)]
        d1_r = [3 * ra[k] * rw[k] * rw[k] + 2 * rb[k] * rw[k] + rc[k] for k in range(K)]      # derivative at right knot
        for i, f in enumerate(facts(ra, rb, rc, rd, rcw, rch, rw, hh_r, d0_r, d1_r)): C().oblige(f"cut-lemma:{cut_id}#{i}", f)
        fr = {n: [fresh(n) for _ in range(len(r))] for n, r in zip(("a", "b", "c", "d", "cw", "ch", "w"), (ra, rb, rc, rd, rcw, rch, rw))}
        hh = [fresh("h") for _ in range(K)]; d0 = [fresh("d0") for _ in range(K)]; d1 = [fresh("d1") for _ in range(K)]
        fs = facts(fr["a"], fr["b"], fr["c"], fr["d"], fr["cw"], fr["ch"], fr["w"], hh, d0, d1); allf += fs
        for f in fs: C().assume(f)
        for o, n in zip(outs, ("a", "b", "c", "d", "cw", "ch", "w")): o[idx] = fr[n]
    # hard cut: drop exactly the path-condition conjuncts that talk about symbols of the abstracted values
    def syms(e):
        out = set(); seen = set()
        def rec(t):
            if t.get_id() in seen: return
            seen.add(t.get_id())
            if t.decl().kind() == z3.Z3_OP_UNINTERPRETED: out.add(str(t.decl()) if t.num_args() else str(t))
            for ch in t.children(): rec(ch)
        rec(e); return out
    S = set()
    for t in (a, b, c, d, cumwidths, cumheights, widths):
        for e in P(t).reshape(-1): S |= syms(e)
    kept = [cj for cj in C().pc if not (syms(cj) & S)]
    C().pc = kept + allf
    return tuple(Sym.make(o, widths.dtype) for o in outs)
cut2.CUTS["cubic.knots"] = cut_knots

def main(K):
    f = instrument(cmod.cubic_spline, [("d", "cubic.knots", ["a", "b", "c", "d", "cumwidths", "cumheights", "widths"], [])])
    x = z3.Real('x')
    uw = [z3.Real(f'uw{i}') for i in range(K)]; uh = [z3.Real(f'uh{i}') for i in range(K)]; dl, dr = z3.Reals('udl udr')
    def run():
        return f(Sym.make([x]), Sym.make([uw]), Sym.make([uh]), Sym.make([[dl]]), Sym.make([[dr]]), inverse=False)
    t0 = time.time(); res = explore(run); te = time.time() - t0; n = 0; bad = 0
    for ctx, out in res:
        goals = []
        if out[0] == "raise":
            goals.append(("raises-only-outside" if type(out[1]).__name__ == "InputOutsideDomain" else "unexpected:" + repr(out[1])[:100], ctx.solver.assertions(), z3.Or(x < 0, x > 1)))
        else:
            o = out[1][0]._p[0]; lad = out[1][1]._p[0]
            goals += [(k + "@" + loc.split(":")[1], pc, c) for k, loc, pc, c in ctx.obls]
            num, den = dterm.exp_of_loglin(lad); dd = dterm.diff(o, x)
            goals += [("range-lo", ctx.pc, o >= 0), ("range-hi", ctx.pc, o <= 1), ("logdet-is-log-derivative", ctx.pc, dd * den == num), ("strictly-increasing", ctx.pc, dd > 0)]
        for nm, pc, g in goals:
            s = z3.Then('simplify', 'solve-eqs', 'purify-arith', 'qfnra-nlsat').solver(); s.set("timeout", 20000); s.add(*pc); s.add(z3.Not(g)); r = s.check()
            if r == z3.unknown: r, dt, m = discharge(pc, g, 20000)
            n += 1
            if r != z3.unsat: bad += 1; print("   NOT PROVED", nm, r)
    print(f"cubic forward K={K}: paths={len(res)} explore={te:.1f}s obligations={n} notproved={bad} total={time.time()-t0:.1f}s", flush=True)
for K in (1, 2, 3): main(K)
