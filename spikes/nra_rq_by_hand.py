import z3, time
R = z3.Real
def prove(name, hyps, goal, timeout=60000, tactic=None):
    s = z3.Solver() if tactic is None else z3.Tactic(tactic).solver()
    s.set("timeout", timeout)
    for h in hyps: s.add(h)
    s.add(z3.Not(goal))
    t=time.time(); r = s.check(); dt=time.time()-t
    print(f"{name}: {'PROVED' if r==z3.unsat else r} in {dt:.2f}s")
    if r==z3.sat: print(s.model())

th, w, h, d0, d1, yk = R('th'), R('w'), R('h'), R('d0'), R('d1'), R('yk')
delta = h/w
hyp = [th>=0, th<=1, w>0, h>0, d0>0, d1>0]
t1mt = th*(1-th)
num = h*(delta*th*th + d0*t1mt)
den = delta + (d0+d1-2*delta)*t1mt
out = yk + num/den
dnum = delta*delta*(d1*th*th + 2*delta*t1mt + d0*(1-th)*(1-th))
prove("den>0", hyp, den>0)
prove("dnum>0", hyp, dnum>0)
# derivative wrt x: theta = (x - xk)/w ; d out/dx = (1/w) d out/d theta
# symbolic derivative by hand of num/den wrt theta:
dnum_th = h*(2*delta*th + d0*(1-2*th))
dden_th = (d0+d1-2*delta)*(1-2*th)
dout_dx = (dnum_th*den - num*dden_th)/(den*den)/w
prove("deriv identity", hyp, dout_dx == dnum/(den*den))
import copy
prove("endpoint0", hyp+[th==0], out==yk)
prove("endpoint1", hyp+[th==1], out==yk+h)
prove("range", hyp, z3.And(out>=yk, out<=yk+h))
# inverse
y = R('y'); s = R('s')
a = (y-yk)*(d0+d1-2*delta) + h*(delta-d0)
b = h*d0 - (y-yk)*(d0+d1-2*delta)
c = -delta*(y-yk)
disc = b*b-4*a*c
hypi = [w>0,h>0,d0>0,d1>0,y>=yk,y<=yk+h]
prove("disc>=0", hypi, disc>=0)
hypi2 = hypi+[s>=0, s*s==disc]
prove("den root !=0", hypi2, -b-s != 0)
root = (2*c)/(-b-s)
prove("root in [0,1]", hypi2, z3.And(root>=0, root<=1))
t = R('t')
num_t = h*(delta*t*t + d0*t*(1-t)); den_t = delta + (d0+d1-2*delta)*t*(1-t)
prove("fwd(root)=y", hypi2+[t==root], yk+num_t/den_t == y)
