"""SPIKE: two cut points (knots, root) on the real RQ spline; forward+inverse fully discharged?"""
import sys; sys.path.insert(0, '.')
from symt import *
import ast, inspect, textwrap
import nflows.transforms.splines.rational_quadratic as rqmod
from nflows.transforms.base import InputOutsideDomain

def instrument(func, cuts):
    """cuts: list of (after_name, cut_id, names, extra)"""
    src = textwrap.dedent(inspect.getsource(func)); tree = ast.parse(src)
    for after_name, cut_id, names, extra in cuts:
        best = None
        for node in ast.walk(tree):
            body_lists = [getattr(node, a) for a in ("body", "orelse") if isinstance(getattr(node, a, None), list)]
            for bl in body_lists:
                for i, st in enumerate(bl):
                    if isinstance(st, ast.Assign) and len(st.targets) == 1 and isinstance(st.targets[0], ast.Name) and st.targets[0].id == after_name:
                        if best is None or st.lineno > best[2]: best = (bl, i, st.lineno, st)
        bl, i, _, st = best
        call = ast.parse(f"{', '.join(names)}{',' if len(names)==1 else ''} = __cut__({cut_id!r}, {', '.join(names + extra)})").body[0]
        ast.copy_location(call, st); 
        for n in ast.walk(call): ast.copy_location(n, st)
        bl.insert(i + 1, call)
    ast.increment_lineno(tree, func.__code__.co_firstlineno - 1)
    ns = dict(func.__globals__); ns["__cut__"] = cut_hook
    exec(compile(tree, func.__code__.co_filename, "exec"), ns)
    return ns[func.__name__]

def cut_hook(cut_id, *a):
    return CUTS[cut_id](cut_id, *a)

def lemma_cut(cut_id, tensors, facts_fn, names):
    """prove facts on real payloads (elementwise over leading idx), then havoc to fresh symbols assuming facts"""
    lead = tensors[0].shape[:-1] if tensors[0].dim() > 1 or names[0] in ("w",) else tensors[0].shape
    return None

def cut_knots(cut_id, widths, cumwidths, heights, cumheights, derivatives, left, right, bottom, top):
    K = widths.shape[-1]
    def facts(w, cw, h, ch, d):
        f = [cw[0] == P(left)[()], cw[K] == P(right)[()], ch[0] == P(bottom)[()], ch[K] == P(top)[()]]
        for k in range(K): f += [w[k] == cw[k+1] - cw[k], w[k] > 0, h[k] == ch[k+1] - ch[k], h[k] > 0]
        return f + [d[k] > 0 for k in range(K+1)]
    outs = [np.empty(t.shape, dtype=object) for t in (widths, cumwidths, heights, cumheights, derivatives)]
    for idx in np.ndindex(widths.shape[:-1]):
        real = [P(t)[idx] for t in (widths, cumwidths, heights, cumheights, derivatives)]
        for i, f in enumerate(facts(*real)): C().oblige(f"cut-lemma:{cut_id}#{i}", f)
        fr = [[fresh(n) for _ in range(len(r))] for n, r in zip("w cw h ch d".split(), real)]
        for f in facts(*fr): C().assume(f)
        for o, v in zip(outs, fr): o[idx] = v
    return tuple(Sym.make(o, widths.dtype) for o in outs)

def cut_root(cut_id, root, inputs, ich, ih, idl, d0, d1):
    out = np.empty(root.shape, dtype=object)
    for idx in np.ndindex(root.shape):
        def facts(r):
            y, yk, h, dl, a0, a1 = (P(t)[idx] for t in (inputs, ich, ih, idl, d0, d1))
            return [r >= 0, r <= 1, (y - yk) * (dl + (a0 + a1 - 2*dl) * r * (1 - r)) == h * (dl * r * r + a0 * r * (1 - r))]
        for i, f in enumerate(facts(P(root)[idx])): C().oblige(f"cut-lemma:{cut_id}#{i}", f)
        th = fresh("theta")
        for f in facts(th): C().assume(f)
        out[idx] = th
    return (Sym.make(out, root.dtype),)

CUTS = {"rq.knots": cut_knots, "rq.root": cut_root}

def main(K, inverse, timeout=20000):
    f = instrument(rqmod.rational_quadratic_spline, [
        ("heights", "rq.knots", ["widths", "cumwidths", "heights", "cumheights", "derivatives"], ["left", "right", "bottom", "top"]),
        ("root", "rq.root", ["root"], ["inputs", "input_cumheights", "input_heights", "input_delta", "input_derivatives", "input_derivatives_plus_one"])])
    x = z3.Real('x'); left, right, bottom, top = z3.Reals('left right bottom top')
    uw = [z3.Real(f'uw{i}') for i in range(K)]; uh = [z3.Real(f'uh{i}') for i in range(K)]; ud = [z3.Real(f'ud{i}') for i in range(K+1)]
    def run():
        C().assume(left < right); C().assume(bottom < top)
        if inverse: C().assume(bottom == left); C().assume(top == right)
        r = f(Sym.make([x]), Sym.make([uw]), Sym.make([uh]), Sym.make([ud]), inverse=inverse,
                 left=Sym.make(left), right=Sym.make(right), bottom=Sym.make(bottom), top=Sym.make(top))
        return r
    t0 = time.time(); res = explore(run); te = time.time() - t0
    lo, hi, olo, ohi = (left, right, bottom, top) if not inverse else (bottom, top, left, right)
    n = fails = 0; tsolve = 0; worst = 0
    for ctx, out in res:
        goals = []
        if out[0] == "raise":
            if isinstance(out[1], InputOutsideDomain): goals.append(("raises-only-outside", ctx.pc, z3.Or(x < lo, x > hi)))
            else: goals.append(("unexpected-raise:" + type(out[1]).__name__, ctx.pc, z3.BoolVal(False)))
        else:
            o = out[1][0]._p[0]
            goals += [(k + "@" + loc, pc, c) for k, loc, pc, c in ctx.obls]
            goals += [("returns-only-inside", ctx.pc, z3.And(x >= lo, x <= hi)), ("range", ctx.pc, z3.And(o >= olo, o <= ohi)),
                      ("endpoint-lo", ctx.pc, z3.Implies(x == lo, o == olo)), ("endpoint-hi", ctx.pc, z3.Implies(x == hi, o == ohi))]
        for name, pc, g in goals:
            r, dt, m = discharge(pc, g, timeout); n += 1; tsolve += dt; worst = max(worst, dt)
            if r != z3.unsat: fails += 1; print("  NOT PROVED", name, r, str(m)[:300] if m else "")
    print(f"K={K} inverse={inverse}: paths={len(res)} explore={te:.1f}s obligations={n} notproved={fails} solve={tsolve:.1f}s worst={worst:.2f}s", flush=True)
if __name__ == "__main__":
    for K in (1, 2, 3, 5):
        for inv in (False, True): main(K, inv)
