import z3, time
for name, sort in (("float32", z3.Float32()), ("float64", z3.Float64())):
    last = z3.FP('last', sort); x = z3.FP('x', sort)
    eps = z3.FPVal(1e-6, sort); rm = z3.RNE()
    s = z3.Solver(); s.set("timeout", 60000)
    s.add(z3.Not(z3.fpIsNaN(last)), z3.Not(z3.fpIsInf(last)), last > 0)     # RQ call site: last knot == right == tail_bound > 0 (any finite float)
    bumped = z3.fpAdd(rm, last, eps)
    s.add(z3.Not(bumped > last))                                             # obligation: the epsilon bump is effective
    t = time.time(); r = s.check()
    print(name, "generic right:", r, f"{time.time()-t:.2f}s", s.model()[last] if r == z3.sat else "")
    s2 = z3.Solver(); s2.add(last == z3.FPVal(1.0, sort)); s2.add(z3.Not(z3.fpAdd(rm, last, eps) > last)); print(name, "last==1.0:", s2.check())
    # smallest failing magnitude
    s3 = z3.Optimize() if False else None
