import torch, warnings
warnings.filterwarnings("ignore")
from nflows.transforms import splines
from nflows import transforms
x = torch.tensor([[0.3,0.6]])
print("quad inv zeros:", splines.quadratic_spline(x, torch.zeros(1,2,4), torch.zeros(1,2,5), inverse=True))
print("cubic inv zeros:", splines.cubic_spline(x, torch.zeros(1,2,4), torch.zeros(1,2,4), torch.zeros(1,2,1), torch.zeros(1,2,1), inverse=True))
print("cubic fwd zeros:", splines.cubic_spline(x, torch.zeros(1,2,4), torch.zeros(1,2,4), torch.zeros(1,2,1), torch.zeros(1,2,1), inverse=False))
print("linear inv zeros:", splines.linear_spline(x, torch.zeros(1,2,4), inverse=True))
print("rq inv zeros:", splines.rational_quadratic_spline(x, torch.zeros(1,2,4), torch.zeros(1,2,4), torch.zeros(1,2,5), inverse=True))
