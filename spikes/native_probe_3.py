import torch, warnings, copy
warnings.filterwarnings("ignore")
from nflows import transforms, distributions, flows, utils
torch.manual_seed(0)
def trial(name, f):
    try:
        r = f(); print("[%s] ->" % name, r)
    except Exception as e:
        print("[%s] EXC %s: %s" % (name, type(e).__name__, str(e)[:300]))

def mk(cls):
    if cls is transforms.LULinear: return cls(3, using_cache=True, identity_init=False)
    if cls is transforms.QRLinear: return cls(3, 2, using_cache=True)
    if cls is transforms.SVDLinear: return cls(3, 2, using_cache=True, identity_init=False)
    if cls is transforms.NaiveLinear: return cls(3, orthogonal_initialization=False, using_cache=True)
    if cls is transforms.OneByOneConvolution: return cls(3, using_cache=True, identity_init=False)
for cls in [transforms.LULinear, transforms.QRLinear, transforms.SVDLinear, transforms.NaiveLinear, transforms.OneByOneConvolution]:
    x = torch.randn(4,3) if cls is not transforms.OneByOneConvolution else torch.randn(2,3,2,2)
    def stale():
        t = mk(cls); t.eval(); t(x)
        t2 = mk(cls)
        t.load_state_dict(t2.state_dict())
        y,l = t(x); t.use_cache(False); y2,l2 = t(x)
        return float((y-y2).abs().max()), float((l-l2).abs().max())
    trial(cls.__name__+" stale after load_state_dict", stale)
    def dbl():
        t = mk(cls); t.eval(); t(x); t.inverse(x)
        t.double()
        y,l = t(x.double()); 
        return y.dtype, l.dtype
    trial(cls.__name__+" double after cache", dbl)
    def dbl_nocache():
        t = mk(cls); t.use_cache(False); t.eval(); t.double()
        y,l = t(x.double()); yi, li = t.inverse(x.double())
        w = t.weight(); wi = t.weight_inverse()
        return y.dtype, l.dtype, yi.dtype, wi.dtype
    trial(cls.__name__+" double no cache", dbl_nocache)
    def bw2():
        t = mk(cls); t.eval()
        for i in range(2):
            xi = x.clone().requires_grad_(True)
            y,l = t(xi); (y.sum()+l.sum()).backward()
        return "ok"
    trial(cls.__name__+" backward twice cached", bw2)
    def bw2i():
        t = mk(cls); t.eval()
        for i in range(2):
            xi = x.clone().requires_grad_(True)
            y,l = t.inverse(xi); (y.sum()+l.sum()).backward()
        return "ok"
    trial(cls.__name__+" inverse backward twice cached", bw2i)

# sample with context and batch_size
d = distributions.StandardNormal([2])
trial("StdNormal sample(5,ctx3,bs=2)", lambda: d.sample(5, context=torch.randn(3,1), batch_size=2).shape)
trial("StdNormal sample(4,ctx3,bs=2)", lambda: d.sample(4, context=torch.randn(3,1), batch_size=2).shape)
trial("StdNormal sample(5,bs=2)", lambda: d.sample(5, batch_size=2).shape)
trial("sample(True)", lambda: d.sample(True).shape)
trial("sample(0)", lambda: d.sample(0).shape)
trial("sample(2.0)", lambda: d.sample(2.0).shape)
trial("logprob ctx mismatch", lambda: d.log_prob(torch.randn(3,2), context=torch.randn(2,1)))
f = flows.Flow(transforms.MaskedAffineAutoregressiveTransform(2, 4, context_features=1), d)
trial("flow s&lp", lambda: [t.shape for t in f.sample_and_log_prob(3, context=torch.randn(2,1))])
trial("flow sample bs", lambda: f.sample(5, context=torch.randn(2,1), batch_size=2).shape)
trial("flow sample_and_log_prob(0)", lambda: f.sample_and_log_prob(0))
trial("matrix double", lambda: transforms.HouseholderSequence(3,2).double().matrix().dtype)
