"""SPIKE E: class invariant of Linear's cache over all abstract pre-states; real Linear.forward/inverse/train/use_cache with stub accessors."""
import sys; sys.path.insert(0, '.')
from symt import *
import symt, itertools, warnings; warnings.filterwarnings("ignore")

from torch import nn
from nflows.transforms.linear import Linear

# handlers needed
@handles('linear')
def _lin(func, args, kwargs):
    x, W = P(args[0]), P(args[1]); b = P(args[2]) if len(args) > 2 and args[2] is not None else None
    out = np.empty(x.shape[:-1] + (W.shape[0],), dtype=object)
    for idx in np.ndindex(x.shape[:-1]):
        for o in range(W.shape[0]):
            acc = z3.Sum([toreal(x[idx + (i,)]) * toreal(W[o, i]) for i in range(W.shape[1])])
            out[idx + (o,)] = acc + toreal(b[o]) if b is not None else acc
    return Sym.make(out, args[0].dtype)
@handles('new_ones')
def _no(func, args, kwargs):
    p = np.empty((args[1],) if isinstance(args[1], int) else tuple(args[1]), dtype=object); p[...] = lift(1.0); return Sym.make(p, args[0].dtype)

D = 2
def sym(name, shape):
    a = np.empty(shape, dtype=object)
    for idx in np.ndindex(shape): a[idx] = z3.Real(f"{name}{list(idx)}")
    return Sym.make(a)
class StubLinear(Linear):
    """accessors are uninterpreted functions of the current parameters (their mutual agreement is C11)"""
    def __init__(self): super().__init__(D); self.P = sym("P", (3,))
    def _acc(self, name, shape):
        a = np.empty(shape, dtype=object); ps = [self.P._p[i] for i in range(3)]
        for idx in np.ndindex(shape):
            f = z3.Function(f"{name}_{'_'.join(map(str, idx))}", *([z3.RealSort()] * 4)); a[idx] = f(*ps)
        return Sym.make(a)
    def weight(self): return self._acc("W", (D, D))
    def weight_inverse(self): return self._acc("V", (D, D))
    def logabsdet(self): return self._acc("L", ())
    def forward_no_cache(self, inputs): return torch.nn.functional.linear(inputs, self.weight(), self.bias), self.logabsdet() * inputs.new_ones(inputs.shape[0])
    def inverse_no_cache(self, inputs): return torch.nn.functional.linear(inputs - self.bias, self.weight_inverse()), (-self.logabsdet()) * inputs.new_ones(inputs.shape[0])

def eq(a, b): return z3.And([x == y for x, y in zip(P(a).reshape(-1), P(b).reshape(-1))]) if a is not None and b is not None else z3.BoolVal(a is None and b is None)
def inv(t):
    c = t.cache; cl = []
    if t.training: cl.append(z3.BoolVal(c.weight is None and c.inverse is None and c.logabsdet is None))
    if c.weight is not None: cl.append(eq(c.weight, t.weight()))
    if c.inverse is not None: cl.append(eq(c.inverse, t.weight_inverse()))
    if c.logabsdet is not None: cl.append(eq(c.logabsdet, t.logabsdet()))
    return z3.And(cl) if cl else z3.BoolVal(True)

def prestate(training, using, pat):
    t = StubLinear(); t.bias = None; t._parameters['bias'] = sym("bias", (D,))
    t.training = training; t.using_cache = using
    if pat[0]: t.cache.weight = t.weight()
    if pat[1]: t.cache.inverse = t.weight_inverse()
    if pat[2]: t.cache.logabsdet = t.logabsdet()
    return t
OPS = {
  "forward": lambda t, x: (t.forward(x), t.forward_no_cache(x)),
  "inverse": lambda t, x: (t.inverse(x), t.inverse_no_cache(x)),
  "train": lambda t, x: (t.train(True), None), "eval": lambda t, x: (t.train(False), None),
  "use_cache_on": lambda t, x: (t.use_cache(True), None), "use_cache_off": lambda t, x: (t.use_cache(False), None),
  # environment transitions modelled from the nn.Module contract:
  "optimizer_step[training only]": lambda t, x: (setattr(t, "P", sym("P2", (3,))), None),
  "load_state_dict": lambda t, x: (setattr(t, "P", sym("P2", (3,))), None),
}
n = 0; fails = {}
t0 = time.time()
for opname, op in OPS.items():
    for training, using in itertools.product([True, False], repeat=2):
        for pat in itertools.product([False, True], repeat=3):
            if training and any(pat): continue            # pre-state must satisfy the invariant
            if opname.startswith("optimizer") and not training: continue
            def run():
                t = prestate(training, using, pat); x = sym("x", (2, D))
                res, ref = op(t, x)
                goals = [("invariant-preserved", inv(t))]
                if ref is not None: goals += [("equals-uncached-output", eq(res[0], ref[0])), ("equals-uncached-logdet", eq(res[1], ref[1]))]
                return goals
            for ctx, out in explore(run):
                assert out[0] == "ret", out
                for gname, g in out[1]:
                    r, dt, m = discharge(ctx.pc, g, 10000); n += 1
                    if r != z3.unsat: fails.setdefault((opname, gname), []).append((training, using, pat, str(r)))
print(f"obligations={n} in {time.time()-t0:.1f}s; failing (op, clause) -> pre-states:")
for k, v in fails.items(): print("  ", k, v[:3], "..." if len(v) > 3 else "")
