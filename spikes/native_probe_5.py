import torch, warnings, copy, itertools
warnings.filterwarnings("ignore")
from nflows import transforms as T, distributions as D, flows as Fl, utils
from nflows.nn import nets
from nflows.transforms import splines
torch.manual_seed(1)
def trial(name, f):
    try: print("[%s] ->" % name, f())
    except Exception as e: print("[%s] EXC %s: %s" % (name, type(e).__name__, str(e)[:200]))
# linear spline last-bin inverse error in float64
def lin():
    up = torch.randn(1, 1, 4).double(); x = torch.tensor([[0.1], [0.9]]).double().reshape(2,1)
    up = up.expand(2,1,4)
    y, ld = splines.linear_spline(x, up); xr, ldi = splines.linear_spline(y, up, inverse=True)
    return (xr - x).abs().flatten().tolist(), (ld + ldi).abs().flatten().tolist()
trial("linear_spline f64 roundtrip [first bin, last bin]", lin)
# C04: sample_and_log_prob vs log_prob, conditional
def c04():
    f = Fl.Flow(T.CompositeTransform([T.MaskedAffineAutoregressiveTransform(3, 8, context_features=2), T.RandomPermutation(3), T.MaskedAffineAutoregressiveTransform(3, 8, context_features=2)]), D.StandardNormal([3])).double().eval()
    for p in f.parameters(): p.data += .3 * torch.randn_like(p)
    ctx = torch.randn(4, 2).double()
    s, lp = f.sample_and_log_prob(5, context=ctx)
    lp2 = torch.stack([f.log_prob(s[i], context=ctx[i:i+1].expand(5, 2)) for i in range(4)])
    return float((lp - lp2).abs().max())
trial("C04 conditional flow s&lp vs log_prob", c04)
def c04b():
    f = Fl.Flow(T.MaskedAffineAutoregressiveTransform(3, 8, context_features=2), D.ConditionalDiagonalNormal([3], context_encoder=torch.nn.Linear(2, 6))).double().eval()
    ctx = torch.randn(4, 2).double(); s, lp = f.sample_and_log_prob(5, context=ctx)
    lp2 = torch.stack([f.log_prob(s[i], context=ctx[i:i+1].expand(5, 2)) for i in range(4)])
    return float((lp - lp2).abs().max())
trial("C04 conditional base", c04b)
def c04c():
    emb = torch.nn.Linear(3, 2).double()
    f = Fl.Flow(T.MaskedAffineAutoregressiveTransform(3, 8, context_features=2), D.StandardNormal([3]), embedding_net=emb).double().eval()
    ctx = torch.randn(4, 3).double(); s, lp = f.sample_and_log_prob(5, context=ctx)
    lp2 = torch.stack([f.log_prob(s[i], context=ctx[i:i+1].expand(5, 3)) for i in range(4)])
    return float((lp - lp2).abs().max()), f.sample(2, context=ctx).shape
trial("C04 embedding net", c04c)
trial("C04 unconditional sample", lambda: Fl.Flow(T.MaskedAffineAutoregressiveTransform(3, 8), D.StandardNormal([3])).sample(4).shape)
# C08 multiscale
def ms(shape, split_dim, n):
    class St(T.Transform):
        def __init__(s, k): super().__init__(); s.k = k
        def forward(s, x, context=None): return x * s.k + 1, x.new_full((x.shape[0],), float(s.k))
        def inverse(s, x, context=None): return (x - 1) / s.k, x.new_full((x.shape[0],), -float(s.k))
    m = T.MultiscaleCompositeTransform(n, split_dim=split_dim); sh = shape
    for i in range(n):
        sh = m.add_transform(St(i + 2), sh)
    x = torch.arange(2 * int(torch.tensor(shape).prod())).double().reshape(2, *shape)
    y, ld = m(x); xr, ldi = m.inverse(y)
    return tuple(y.shape), float((xr - x).abs().max()), ld.tolist(), ldi.tolist()
for shape, sd, n in [((5,), 1, 2), ((4, 3), 2, 2), ((3, 5), 2, 3), ((2, 3, 4), 3, 2), ((6, 2), 1, 3)]:
    trial(f"C08 multiscale shape={shape} split_dim={sd} n={n}", lambda: ms(shape, sd, n))
# C14 histories
def actnorm_hist():
    a = T.ActNorm(3); out = []
    a.eval(); a(torch.randn(4,3)); out.append(bool(a.initialized))
    a.inverse(torch.randn(4,3)); out.append(bool(a.initialized))
    a.train(); a.inverse(torch.randn(4,3)); out.append(bool(a.initialized))
    x = torch.randn(6,3)*3+1; y,_ = a(x); out.append((bool(a.initialized), float(y.mean(0).abs().max()), float((y.std(0)-1).abs().max())))
    ls = a.log_scale.clone(); a(torch.randn(6,3)*5); out.append(bool(torch.equal(ls, a.log_scale)))
    b = T.ActNorm(3); b.load_state_dict(a.state_dict()); b.train(); b(torch.randn(6,3)*7); out.append(bool(torch.equal(b.log_scale, a.log_scale)))
    return out
trial("C14 actnorm", actnorm_hist)
def bn_hist():
    b = T.BatchNorm(3); x = torch.randn(8,3)*2+1
    b.train(); b(x); rm = b.running_mean.clone()
    ok1 = torch.allclose(rm, 0.1 * x.mean(0)); rv_ok = torch.allclose(b.running_var, 0.1 * x.var(0))
    b.eval(); b(x); ok2 = torch.equal(rm, b.running_mean)
    b.train()
    try: b.inverse(x); inv = "no raise"
    except T.InverseNotAvailable: inv = "raises"
    return ok1, rv_ok, ok2, inv
trial("C14 batchnorm", bn_hist)
# C05 ConditionalDiagonalNormal / Bernoulli multi-dim shapes
trial("CDN [2,3]", lambda: D.ConditionalDiagonalNormal([2,3]).sample_and_log_prob(4, context=torch.randn(5,12))[1].shape)
trial("Bern [2,3]", lambda: D.ConditionalIndependentBernoulli([2,3]).sample_and_log_prob(4, context=torch.randn(5,6))[1].shape)
trial("StdNormal [2,3] mean", lambda: D.StandardNormal([2,3]).mean().shape)
trial("kde", lambda: utils.gaussian_kde_log_eval(torch.randn(50,2), torch.randn(7,1,2)).shape)
