"""SPIKE: z3-term differentiation + log-linear normal form; prove C01 for real RQ forward."""
import sys; sys.path.insert(0, '.')
from symt import *
import cut2, cut3
from cut2 import instrument
import nflows.transforms.splines.rational_quadratic as rqmod

def diff(t, x):
    if z3.eq(t, x): return z3.RealVal(1)
    k = t.decl().kind(); ch = t.children()
    if not ch: return z3.RealVal(0)
    if k == z3.Z3_OP_ADD: return z3.Sum([diff(c, x) for c in ch])
    if k == z3.Z3_OP_SUB: 
        r = diff(ch[0], x)
        for c in ch[1:]: r = r - diff(c, x)
        return r
    if k == z3.Z3_OP_UMINUS: return -diff(ch[0], x)
    if k == z3.Z3_OP_MUL:
        tot = z3.RealVal(0)
        for i in range(len(ch)):
            term = diff(ch[i], x)
            for j in range(len(ch)):
                if j != i: term = term * ch[j]
            tot = tot + term
        return tot
    if k == z3.Z3_OP_DIV:
        a, b = ch; return (diff(a, x) * b - a * diff(b, x)) / (b * b)
    if k == z3.Z3_OP_ITE: return z3.If(ch[0], diff(ch[1], x), diff(ch[2], x))
    if k == z3.Z3_OP_TO_REAL: return z3.RealVal(0)
    if k == z3.Z3_OP_UNINTERPRETED and t.decl().name() == 'logf': return diff(ch[0], x) / ch[0]
    if k == z3.Z3_OP_UNINTERPRETED and t.decl().name() == 'expf': return diff(ch[0], x) * t
    raise Unsupported("diff " + str(t.decl()))

def loglin(t):
    """t == rest + sum c_i*logf(p_i). returns (rest, [(c_i, p_i)]) with rational c_i"""
    from fractions import Fraction
    k = t.decl().kind(); ch = t.children()
    if k == z3.Z3_OP_UNINTERPRETED and t.decl().name() == 'logf': return z3.RealVal(0), [(Fraction(1), ch[0])]
    if k == z3.Z3_OP_ADD:
        rest = z3.RealVal(0); terms = []
        for c in ch:
            r, ts = loglin(c); rest = rest + r; terms += ts
        return rest, terms
    if k == z3.Z3_OP_SUB:
        rest, terms = loglin(ch[0])
        for c in ch[1:]:
            r, ts = loglin(c); rest = rest - r; terms += [(-a, p) for a, p in ts]
        return rest, terms
    if k == z3.Z3_OP_UMINUS:
        r, ts = loglin(ch[0]); return -r, [(-a, p) for a, p in ts]
    if k == z3.Z3_OP_MUL and len(ch) == 2:
        for a_, b_ in ((ch[0], ch[1]), (ch[1], ch[0])):
            a_s = z3.simplify(a_)
            if z3.is_rational_value(a_s):
                r, ts = loglin(b_); c = Fraction(a_s.numerator_as_long(), a_s.denominator_as_long())
                return a_s * r, [(c * a, p) for a, p in ts]
    return t, []

def exp_of_loglin(t):
    rest, terms = loglin(t)
    rest = z3.simplify(rest)
    assert z3.is_rational_value(rest) and rest.numerator_as_long() == 0, ("nonzero rest", rest)
    num = z3.RealVal(1); den = z3.RealVal(1)
    for c, p in terms:
        assert c.denominator == 1
        for _ in range(abs(int(c))):
            if c > 0: num = num * p
            else: den = den * p
    return num, den

def main(K):
    f = instrument(rqmod.rational_quadratic_spline, [
        ("heights", "rq.knots", ["widths", "cumwidths", "heights", "cumheights", "derivatives"], ["left", "right", "bottom", "top"]),
        ("input_heights", "rq.bin", ["input_cumwidths", "input_bin_widths", "input_cumheights", "input_delta", "input_derivatives", "input_derivatives_plus_one", "input_heights"], ["inputs", "inverse"])])
    x = z3.Real('x'); left, right, bottom, top = z3.Reals('left right bottom top')
    uw = [z3.Real(f'uw{i}') for i in range(K)]; uh = [z3.Real(f'uh{i}') for i in range(K)]; ud = [z3.Real(f'ud{i}') for i in range(K+1)]
    def run():
        C().assume(left < right); C().assume(bottom < top)
        return f(Sym.make([x]), Sym.make([uw]), Sym.make([uh]), Sym.make([ud]), inverse=False,
                 left=Sym.make(left), right=Sym.make(right), bottom=Sym.make(bottom), top=Sym.make(top))
    res = explore(run); n = 0
    for ctx, out in res:
        if out[0] != "ret": continue
        o = out[1][0]._p[0]; lad = out[1][1]._p[0]
        d = diff(o, x)
        num, den = exp_of_loglin(lad)
        r, dt, m = discharge(ctx.pc, z3.And(d * den == num, d > 0), 20000); n += 1
        print(f"  K={K} bin-path: logabsdet == log d(out)/dx and d>0 : {r} {dt:.2f}s")
main(2); main(4)
