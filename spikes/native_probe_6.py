import torch, warnings
warnings.filterwarnings("ignore")
from nflows import transforms as T, distributions as D, flows as Fl
torch.manual_seed(1)
def trial(name, f):
    try: print("[%s] ->" % name, f())
    except Exception as e: print("[%s] EXC %s: %s" % (name, type(e).__name__, str(e)[:200]))
def c04(emb):
    cf = 2
    f = Fl.Flow(T.CompositeTransform([T.MaskedAffineAutoregressiveTransform(3, 8, context_features=cf), T.RandomPermutation(3), T.MaskedAffineAutoregressiveTransform(3, 8, context_features=cf)]), D.StandardNormal([3]), embedding_net=torch.nn.Linear(3, 2) if emb else None).eval()
    for p in f.parameters(): p.data += .3 * torch.randn_like(p)
    ctx = torch.randn(4, 3 if emb else 2)
    s, lp = f.sample_and_log_prob(5, context=ctx)
    lp2 = torch.stack([f.log_prob(s[i], context=ctx[i:i+1].expand(5, ctx.shape[1])) for i in range(4)])
    return float((lp - lp2).abs().max()), tuple(f.sample(2, context=ctx).shape)
trial("C04 conditional flow", lambda: c04(False)); trial("C04 embedding", lambda: c04(True))
trial("double flow log_prob", lambda: Fl.Flow(T.MaskedAffineAutoregressiveTransform(3, 8), D.StandardNormal([3])).double().log_prob(torch.randn(2,3).double()).dtype)
trial("double flow sample", lambda: Fl.Flow(T.MaskedAffineAutoregressiveTransform(3, 8), D.StandardNormal([3])).double().sample(2).dtype)
trial("double CDN sample", lambda: D.ConditionalDiagonalNormal([3]).double().sample(2, context=torch.randn(2,6).double()).dtype)
trial("MoG double logprob", lambda: D.MADEMoG(3, 8, 2).double().log_prob(torch.randn(4,3).double(), context=torch.randn(4,2).double()).dtype)
