"""SPIKE: hard cuts (forget PC) : knots, bin, root on the real RQ spline."""
import sys; sys.path.insert(0, '.')
from symt import *
from cut2 import instrument, cut_knots
import cut2
import nflows.transforms.splines.rational_quadratic as rqmod
from nflows.transforms.base import InputOutsideDomain

def hard(ctx_facts):
    """forget path condition for discharge purposes (keep solver for feasibility)"""
    C().pc = list(ctx_facts)

def cut_bin(cut_id, icw, ibw, ich, idl, d0, d1, ih, inputs, inverse):
    ts = (icw, ibw, ich, idl, d0, d1, ih)
    outs = [np.empty(t.shape, dtype=object) for t in ts]
    allf = []
    for idx in np.ndindex(icw.shape):
        x = P(inputs)[idx]
        def facts(cw, w, ch, dl, a0, a1, h):
            f = [w > 0, h > 0, dl * w == h, a0 > 0, a1 > 0]
            f += [x >= ch, x <= ch + h] if inverse else [x >= cw, x <= cw + w]
            return f
        real = [P(t)[idx] for t in ts]
        for i, f in enumerate(facts(*real)): C().oblige(f"cut-lemma:{cut_id}#{i}", f)
        fr = [fresh(n) for n in "cw w ch dl d0 d1 h".split()]
        fs = facts(*fr); allf += fs
        for f in fs: C().assume(f)
        for o, v in zip(outs, fr): o[idx] = v
    hard(allf)
    return tuple(Sym.make(o, icw.dtype) for o in outs)

def cut_root(cut_id, root, inputs, ich, ih, idl, d0, d1):
    out = np.empty(root.shape, dtype=object); allf = []
    for idx in np.ndindex(root.shape):
        def facts(r):
            y, yk, h, dl, a0, a1 = (P(t)[idx] for t in (inputs, ich, ih, idl, d0, d1))
            return [r >= 0, r <= 1, (y - yk) * (dl + (a0 + a1 - 2*dl) * r * (1 - r)) == h * (dl * r * r + a0 * r * (1 - r))]
        for i, f in enumerate(facts(P(root)[idx])): C().oblige(f"cut-lemma:{cut_id}#{i}", f)
        th = fresh("theta"); fs = facts(th); allf += fs
        for f in fs: C().assume(f)
        out[idx] = th
    C().pc = C().pc + allf
    return (Sym.make(out, root.dtype),)
cut2.CUTS.update({"rq.bin": cut_bin, "rq.root": cut_root})

def main(K, inverse, timeout=20000):
    f = instrument(rqmod.rational_quadratic_spline, [
        ("heights", "rq.knots", ["widths", "cumwidths", "heights", "cumheights", "derivatives"], ["left", "right", "bottom", "top"]),
        ("input_heights", "rq.bin", ["input_cumwidths", "input_bin_widths", "input_cumheights", "input_delta", "input_derivatives", "input_derivatives_plus_one", "input_heights"], ["inputs", "inverse"]),
        ("root", "rq.root", ["root"], ["inputs", "input_cumheights", "input_heights", "input_delta", "input_derivatives", "input_derivatives_plus_one"])])
    x = z3.Real('x'); left, right, bottom, top = z3.Reals('left right bottom top')
    uw = [z3.Real(f'uw{i}') for i in range(K)]; uh = [z3.Real(f'uh{i}') for i in range(K)]; ud = [z3.Real(f'ud{i}') for i in range(K+1)]
    def run():
        C().assume(left < right); C().assume(bottom < top)
        if inverse: C().assume(bottom == left); C().assume(top == right)
        return f(Sym.make([x]), Sym.make([uw]), Sym.make([uh]), Sym.make([ud]), inverse=inverse,
                 left=Sym.make(left), right=Sym.make(right), bottom=Sym.make(bottom), top=Sym.make(top))
    t0 = time.time(); res = explore(run); te = time.time() - t0
    lo, hi = (left, right) if not inverse else (bottom, top)
    n = fails = 0; tsolve = 0; worst = 0
    for ctx, out in res:
        goals = []
        if out[0] == "raise":
            if isinstance(out[1], InputOutsideDomain): goals.append(("raises-only-outside", ctx.solver.assertions(), z3.Or(x < lo, x > hi)))
            else: goals.append(("unexpected-raise:" + type(out[1]).__name__, ctx.solver.assertions(), z3.BoolVal(False)))
        else:
            goals += [(k + "@" + loc, pc, c) for k, loc, pc, c in ctx.obls]
            goals += [("returns-only-inside", ctx.solver.assertions(), z3.And(x >= lo, x <= hi))]
        for name, pc, g in goals:
            r, dt, m = discharge(pc, g, timeout); n += 1; tsolve += dt; worst = max(worst, dt)
            if r != z3.unsat: fails += 1; print("  NOT PROVED", name, r, str(m)[:300] if m else "")
    print(f"K={K} inverse={inverse}: paths={len(res)} explore={te:.1f}s obligations={n} notproved={fails} solve={tsolve:.1f}s worst={worst:.2f}s", flush=True)
if __name__ == "__main__":
    for K in (1, 2, 3, 5, 8):
        for inv in (False, True): main(K, inv)
