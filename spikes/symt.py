"""SPIKE (not framework): symbolic torch via __torch_function__ + TorchFunctionMode."""
import torch, numpy as np, z3, sys, time, itertools, traceback
import torch.nn.functional as F
import torch.utils._pytree as pytree
from torch.overrides import TorchFunctionMode

REPO = __import__("os").environ.get("SPIKE_REPO", "/repo/")
class Fork(Exception): pass
class Unsupported(Exception): pass

class Ctx:
    cur = None
    def __init__(self, prefix):
        self.prefix = list(prefix); self.pos = 0; self.pc = []; self.obls = []; self.new_alts = []
        self.solver = z3.Solver(); self.solver.set("timeout", 5000)
        self.intcache = {}
    def assume(self, c): self.pc.append(c); self.solver.add(c)
    def feasible(self, c):
        self.solver.push(); self.solver.add(c); r = self.solver.check(); self.solver.pop(); return r != z3.unsat
    def decide(self, options):
        """options: list of (label, z3cond). returns chosen label. Explores all feasible."""
        feas = [(l, c) for l, c in options if self.feasible(c)]
        if not feas: raise Fork("infeasible path")
        if self.pos < len(self.prefix):
            lab = self.prefix[self.pos]
        else:
            lab = feas[0][0]
            for l, _ in feas[1:]: self.new_alts.append(self.prefix[:self.pos] + [l])
            self.prefix.append(lab)
        self.pos += 1
        cond = dict(options)[lab]
        self.assume(cond)
        return lab
    def oblige(self, kind, cond):
        loc = "?"
        f = sys._getframe(1)
        while f:
            if f.f_code.co_filename.startswith(REPO) and "/nflows/" in f.f_code.co_filename:
                loc = f"{f.f_code.co_filename[len(REPO):]}:{f.f_lineno}:{f.f_code.co_name}"; break
            f = f.f_back
        self.obls.append((kind, loc, list(self.pc), cond))

def C(): return Ctx.cur

def lift(v):
    if isinstance(v, np.floating): v = float(v)
    if isinstance(v, np.integer): v = int(v)
    if isinstance(v, bool): return z3.BoolVal(v)
    if isinstance(v, int): return z3.IntVal(v)
    if isinstance(v, float):
        if v != v or abs(v) == float('inf'): raise Unsupported("nan/inf const")
        from fractions import Fraction
        fr = Fraction(repr(v)); return z3.RealVal(f"{fr.numerator}/{fr.denominator}") if fr.denominator != 1 else z3.RealVal(fr.numerator)
    return v
def toreal(t):
    t = lift(t)
    if z3.is_bool(t): return z3.If(t, z3.RealVal(1), z3.RealVal(0))
    if z3.is_int(t): return z3.ToReal(t)
    return t

class Sym(torch.Tensor):
    @staticmethod
    def make(payload, dtype=torch.float32):
        payload = np.asarray(payload, dtype=object) if not isinstance(payload, np.ndarray) else payload
        t = torch.Tensor._make_subclass(Sym, torch.empty(payload.shape, dtype=dtype, device='meta'))
        t._p = payload
        return t
    def __repr__(self): return f"Sym{tuple(self._p.shape)}"
    @classmethod
    def __torch_function__(cls, func, types, args=(), kwargs=None):
        return dispatch(func, args, kwargs or {})

def P(x, like=None):
    """payload of anything tensor-like"""
    if isinstance(x, Sym): return x._p
    if isinstance(x, torch.Tensor):
        a = np.empty(x.shape, dtype=object)
        flat = x.detach().reshape(-1).tolist()
        a.reshape(-1)[:] = [lift(v) for v in flat] if x.numel() else []
        return a
    a = np.empty((), dtype=object); a[()] = lift(x); return a

def uf(f):
    return np.frompyfunc(f, 1, 1)
def bf(f):
    return np.frompyfunc(f, 2, 1)

_fresh = itertools.count()
def fresh(prefix, sort=z3.RealSort()):
    return z3.Const(f"{prefix}!{next(_fresh)}", sort)

expf = z3.Function('expf', z3.RealSort(), z3.RealSort())
logf = z3.Function('logf', z3.RealSort(), z3.RealSort())
def s_exp(t):
    e = expf(t); C().assume(e > 0); C().assume(logf(e) == t); return e
def s_log(t):
    C().oblige("log-arg-positive", t > 0)
    l = logf(t); C().assume(expf(l) == t); return l
def s_sqrt(t):
    C().oblige("sqrt-arg-nonneg", t >= 0)
    s = fresh("sqrt"); C().assume(s >= 0); C().assume(s*s == t); return s
def s_div(a, b):
    C().oblige("division-nonzero", b != 0); return a / b

def meta_call(func, args, kwargs):
    def f(x):
        if isinstance(x, Sym):
            return x.as_subclass(torch.Tensor)
        if isinstance(x, torch.Tensor) and x.device.type != 'meta': return x.to('meta')
        return x
    with torch._C.DisableTorchFunctionSubclass():
        return func(*pytree.tree_map(f, args), **pytree.tree_map(f, kwargs))

HANDLERS = {}
def handles(*names):
    def deco(fn):
        for n in names: HANDLERS[n] = fn
        return fn
    return deco

def dispatch(func, args, kwargs):
    name = getattr(func, '__name__', str(func))
    if name == '__get__':   # property access (shape, dtype, ...)
        return meta_call(func, args, kwargs)
    if name in ('dim', 'size', 'ndimension', 'numel', 'is_floating_point', 'stride', 'is_contiguous', '__len__', 'nelement'):
        return meta_call(func, args, kwargs)
    h = HANDLERS.get(name)
    if h is None: raise Unsupported(name)
    return h(func, args, kwargs)

def out_dtype(func, args, kwargs):
    m = meta_call(func, args, kwargs)
    return m.dtype if isinstance(m, torch.Tensor) else None

def elementwise2(op, safe=None):
    def h(func, args, kwargs):
        a, b = args[0], args[1]
        dt = out_dtype(func, args, kwargs)
        pa, pb = np.broadcast_arrays(P(a), P(b))
        def g(x, y):
            if dt.is_floating_point: x, y = toreal(x), toreal(y)
            return op(x, y)
        return Sym.make(bf(g)(pa, pb), dt)
    return h
for names, op in [(('add','__add__','__radd__'), lambda x,y: x+y), (('sub','__sub__'), lambda x,y: x-y), (('__rsub__','rsub'), lambda x,y: y-x),
                  (('mul','__mul__','__rmul__'), lambda x,y: x*y), (('div','true_divide','__truediv__'), s_div), (('__rtruediv__',), lambda x,y: s_div(y,x)),
                  (('ge','__ge__'), lambda x,y: x>=y), (('gt','__gt__'), lambda x,y: x>y), (('le','__le__'), lambda x,y: x<=y), (('lt','__lt__'), lambda x,y: x<y),
                  (('__and__','bitwise_and'), lambda x,y: z3.And(x,y)), (('__or__','bitwise_or'), lambda x,y: z3.Or(x,y))]:
    handles(*names)(elementwise2(op))

def inplace_of(opname):
    def h(func, args, kwargs):
        res = HANDLERS[opname](getattr(torch, opname), args, kwargs)
        tgt = args[0]
        tgt._p[...] = np.broadcast_to(res._p, tgt._p.shape)   # writes through numpy views => aliasing preserved
        WRITES.append(tgt)
        return tgt
    return h
WRITES = []
handles('__iadd__','add_')(inplace_of('add')); handles('__isub__','sub_')(inplace_of('sub'))
handles('__imul__','mul_')(inplace_of('mul')); handles('__itruediv__','div_')(inplace_of('div'))

def elementwise1(op):
    def h(func, args, kwargs):
        a = args[0]; return Sym.make(uf(lambda x: op(toreal(x)))(P(a)), a.dtype)
    return h
handles('exp')(elementwise1(s_exp)); handles('log')(elementwise1(s_log)); handles('sqrt')(elementwise1(s_sqrt))
handles('neg','__neg__')(elementwise1(lambda x: -x))
@handles('pow','__pow__')
def _pow(func, args, kwargs):
    a, e = args
    assert isinstance(e, int) and e >= 0
    def g(x):
        r = z3.RealVal(1)
        for _ in range(e): r = r * x
        return r
    return Sym.make(uf(lambda x: g(toreal(x)))(P(a)), a.dtype)
@handles('__invert__','bitwise_not')
def _inv(func, args, kwargs): return Sym.make(uf(z3.Not)(P(args[0])), torch.bool)

@handles('softmax')
def _softmax(func, args, kwargs):
    a = args[0]; dim = kwargs.get('dim', args[1] if len(args) > 1 else -1)
    p = P(a); assert dim in (-1, p.ndim-1)
    out = np.empty(p.shape, dtype=object)
    for idx in np.ndindex(p.shape[:-1]):
        vs = [fresh("softmax") for _ in range(p.shape[-1])]
        for v in vs: C().assume(v > 0)
        C().assume(z3.Sum(vs) == 1)
        out[idx] = vs
    return Sym.make(out, a.dtype)
@handles('softplus')
def _softplus(func, args, kwargs):
    a = args[0]; beta = kwargs.get('beta', 1)
    spf = z3.Function('softplusf', z3.RealSort(), z3.RealSort())
    def g(x):
        v = spf(toreal(x)); C().assume(v > 0); return v
    return Sym.make(uf(g)(P(a)), a.dtype)
@handles('cumsum')
def _cumsum(func, args, kwargs):
    a = args[0]; dim = kwargs.get('dim', args[1] if len(args) > 1 else None); p = P(a)
    assert dim in (-1, p.ndim-1)
    out = np.empty(p.shape, dtype=object)
    for idx in np.ndindex(p.shape[:-1]):
        acc = None; row = []
        for v in p[idx]:
            acc = v if acc is None else acc + v; row.append(acc)
        out[idx] = row
    return Sym.make(out, a.dtype)
@handles('pad')
def _pad(func, args, kwargs):
    a = args[0]; pad = kwargs.get('pad', args[1] if len(args) > 1 else None); value = kwargs.get('value', 0.0) or 0.0
    p = P(a); l, r = pad
    fill = np.empty(p.shape[:-1] + (1,), dtype=object); fill[...] = lift(float(value))
    return Sym.make(np.concatenate([fill]*l + [p] + [fill]*r, axis=-1), a.dtype)
@handles('sum')
def _sum(func, args, kwargs):
    a = args[0]; dim = kwargs.get('dim', args[1] if len(args) > 1 else None); p = P(a)
    dt = out_dtype(func, args, kwargs)
    conv = toreal if dt.is_floating_point else (lambda t: z3.If(t, 1, 0) if z3.is_bool(lift(t)) else lift(t))
    q = uf(conv)(p) if p.size else p
    if dim is None: return Sym.make(np.array(z3.Sum(list(q.reshape(-1))) if q.size else z3.IntVal(0), dtype=object), dt)
    dims = tuple(dim) if isinstance(dim, (list, tuple)) else (dim,)
    if not dims: return Sym.make(q, dt)
    r = np.add.reduce(q, axis=tuple(d % q.ndim for d in dims)) if q.size else np.zeros([s for i,s in enumerate(q.shape) if i not in [d%q.ndim for d in dims]],dtype=object)
    return Sym.make(np.asarray(r, dtype=object), dt)
@handles('min','max')
def _minmax(func, args, kwargs):
    assert len(args) == 1
    a = args[0]; vals = list(P(a).reshape(-1)); m = fresh(func.__name__)
    cmp = (lambda x, y: x <= y) if func.__name__ == 'min' else (lambda x, y: x >= y)
    C().assume(z3.And([cmp(m, v) for v in vals])); C().assume(z3.Or([m == v for v in vals]))
    return Sym.make(np.array(m, dtype=object), a.dtype)
@handles('any')
def _any(func, args, kwargs): return Sym.make(np.array(z3.Or(list(P(args[0]).reshape(-1))), dtype=object), torch.bool)
@handles('all')
def _all(func, args, kwargs): return Sym.make(np.array(z3.And(list(P(args[0]).reshape(-1))), dtype=object), torch.bool)
@handles('__bool__')
def _bool(func, args, kwargs):
    c = P(args[0]).reshape(-1)[0]
    c = z3.simplify(c) if not isinstance(c, bool) else z3.BoolVal(c)
    if z3.is_true(c): return True
    if z3.is_false(c): return False
    return C().decide([(True, c), (False, z3.Not(c))])
@handles('zeros_like','ones_like')
def _zl(func, args, kwargs):
    a = args[0]; p = np.empty(a.shape, dtype=object); p[...] = lift(0.0 if 'zeros' in func.__name__ else 1.0); return Sym.make(p, a.dtype)

def conc_index(ix):
    """convert index with possibly symbolic components; fork on symbolic int/bool tensors"""
    if not isinstance(ix, tuple): ix = (ix,)
    out = []
    for i in ix:
        if isinstance(i, Sym):
            p = i._p
            if i.dtype == torch.bool:
                vals = np.empty(p.shape, dtype=bool)
                for idx in np.ndindex(p.shape):
                    t = z3.simplify(p[idx])
                    vals[idx] = True if z3.is_true(t) else False if z3.is_false(t) else C().decide([(True, t), (False, z3.Not(t))])
                out.append(vals)
            else:
                raise Unsupported("sym int index in getitem")
        elif isinstance(i, torch.Tensor): out.append(i.numpy())
        else: out.append(i)
    return tuple(out)
@handles('__getitem__')
def _getitem(func, args, kwargs):
    a, ix = args; return Sym.make(P(a)[conc_index(ix)], a.dtype)
@handles('__setitem__')
def _setitem(func, args, kwargs):
    a, ix, v = args
    cix = conc_index(ix)
    pv = P(v)
    if a.dtype.is_floating_point: pv = uf(toreal)(pv) if pv.size else pv
    a._p[cix] = pv
    WRITES.append(a)
    return None
@handles('gather')
def _gather(func, args, kwargs):
    a, dim, index = args
    p = P(a); pi = P(index); assert dim in (-1, p.ndim-1)
    out = np.empty(pi.shape, dtype=object)
    for idx in np.ndindex(pi.shape):
        t = pi[idx]; n = p.shape[-1]
        C().oblige("gather-index-in-range", z3.And(t >= 0, t < n))
        ts = z3.simplify(t)
        if z3.is_int_value(ts): k = ts.as_long()
        else:
            key = ts.get_id()
            if key not in C().intcache:
                C().intcache[key] = C().decide([(k, ts == k) for k in range(n)])
            k = C().intcache[key]
        out[idx] = p[idx[:-1] + (k,)]
    return Sym.make(out, a.dtype)

@handles('unsqueeze')
def _unsq(func, args, kwargs): return Sym.make(np.expand_dims(P(args[0]), args[1]), args[0].dtype)
@handles('view', 'reshape')
def _view(func, args, kwargs):
    shape = args[1:] if not isinstance(args[1], (tuple, list, torch.Size)) else tuple(args[1])
    return Sym.make(P(args[0]).reshape(tuple(shape)), args[0].dtype)
@handles('expand')
def _expand(func, args, kwargs):
    shape = args[1:] if not isinstance(args[1], (tuple, list, torch.Size)) else tuple(args[1])
    p = P(args[0]); shape = tuple(p.shape[i - (len(shape) - p.ndim)] if s == -1 else s for i, s in enumerate(shape))
    return Sym.make(np.broadcast_to(p, shape), args[0].dtype)
@handles('abs')
def _abs(func, args, kwargs): return Sym.make(uf(lambda x: z3.If(toreal(x) >= 0, toreal(x), -toreal(x)))(P(args[0])), args[0].dtype)

class Mode(TorchFunctionMode):
    def __torch_function__(self, func, types, args=(), kwargs=None):
        kwargs = kwargs or {}
        if any(isinstance(x, Sym) for x in pytree.tree_leaves((args, kwargs))):
            return dispatch(func, args, kwargs)
        return func(*args, **kwargs)

def explore(run):
    """run(): executes the real code; returns outcome. explores all paths."""
    work = [[]]; results = []
    while work:
        prefix = work.pop()
        ctx = Ctx(prefix); Ctx.cur = ctx
        try:
            with Mode():
                out = ("ret", run())
        except Fork: continue
        except Unsupported: raise
        except Exception as e:
            out = ("raise", e)
        work.extend(ctx.new_alts)
        results.append((ctx, out))
    return results

def discharge(pc, goal, timeout=30000):
    s = z3.Solver(); s.set("timeout", timeout)
    s.add(*pc); s.add(z3.Not(goal))
    t = time.time(); r = s.check()
    return r, time.time()-t, (s.model() if r == z3.sat else None)
