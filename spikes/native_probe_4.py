import torch, warnings, copy, itertools
warnings.filterwarnings("ignore")
from nflows import transforms as T, distributions as D, flows as Fl, utils
from nflows.nn import nets
torch.manual_seed(1)
def trial(name, f):
    try:
        r = f(); print("[%s] ->" % name, r)
    except Exception as e: print("[%s] EXC %s: %s" % (name, type(e).__name__, str(e)[:200]))
def net(i, o): return nets.ResidualNet(i, o, hidden_features=8, num_blocks=1)
def cnet(i, o): return nets.ConvResidualNet(i, o, hidden_channels=4, num_blocks=1)
mask = torch.tensor([1., -1., 1., -1.])
zoo = {
 "affcoup": (lambda: T.AffineCouplingTransform(mask, net), (5,4)),
 "addcoup": (lambda: T.AdditiveCouplingTransform(mask, net), (5,4)),
 "rqcoup_tails": (lambda: T.PiecewiseRationalQuadraticCouplingTransform(mask, net, num_bins=4, tails="linear", tail_bound=3.), (5,4)),
 "quadcoup_tails": (lambda: T.PiecewiseQuadraticCouplingTransform(mask, net, num_bins=4, tails="linear", tail_bound=3.), (5,4)),
 "cubcoup_tails": (lambda: T.PiecewiseCubicCouplingTransform(mask, net, num_bins=4, tails="linear", tail_bound=3.), (5,4)),
 "lincoup_tails": (lambda: T.PiecewiseLinearCouplingTransform(mask, net, num_bins=4, tails="linear", tail_bound=3.), (5,4)),
 "rqcoup_img_uncond": (lambda: T.PiecewiseRationalQuadraticCouplingTransform(torch.tensor([1.,-1.]), cnet, num_bins=4, tails="linear", tail_bound=3., apply_unconditional_transform=True, img_shape=[3,3]), (4,2,3,3)),
 "maf": (lambda: T.MaskedAffineAutoregressiveTransform(4, 8), (5,4)),
 "marq": (lambda: T.MaskedPiecewiseRationalQuadraticAutoregressiveTransform(4, 8, num_bins=4, tails="linear", tail_bound=3.), (5,4)),
 "maquad": (lambda: T.MaskedPiecewiseQuadraticAutoregressiveTransform(4, 8, num_bins=4, tails="linear", tail_bound=3.), (5,4)),
 "lu": (lambda: T.LULinear(4, identity_init=False), (5,4)), "qr": (lambda: T.QRLinear(4, 3), (5,4)), "svd": (lambda: T.SVDLinear(4, 4, identity_init=False), (5,4)),
 "conv1x1": (lambda: T.OneByOneConvolution(2, identity_init=False), (4,2,3,3)),
 "actnorm": (lambda: T.ActNorm(4), (5,4)), "batchnorm": (lambda: T.BatchNorm(4), (5,4)),
 "perm": (lambda: T.RandomPermutation(4), (5,4)), "squeeze": (lambda: T.SqueezeTransform(), (4,2,4,4)),
 "logtanh": (lambda: T.LogTanh(), (5,4)), "leaky": (lambda: T.LeakyReLU(), (5,4)), "sigmoid": (lambda: T.Sigmoid(), (5,4)), "tanh": (lambda: T.Tanh(), (5,4)), "exp": (lambda: T.Exp(), (5,4)),
 "paff": (lambda: T.PointwiseAffineTransform(torch.randn(4), torch.rand(4)+.5), (5,4)),
 "rqcdf": (lambda: T.PiecewiseRationalQuadraticCDF([4], tails="linear", tail_bound=3.), (5,4)),
 "cubcdf": (lambda: T.PiecewiseCubicCDF([4], tails="linear", tail_bound=3.), (5,4)),
 "house": (lambda: T.HouseholderSequence(4, 3), (5,4)),
}
def jac_logdet(t, x):
    out = []
    for i in range(x.shape[0]):
        xi = x[i:i+1].clone()
        J = torch.autograd.functional.jacobian(lambda z: t(z)[0].reshape(-1), xi).reshape(xi.numel(), xi.numel())
        out.append(torch.slogdet(J)[1])
    return torch.stack(out)
for name, (mk, shape) in zoo.items():
    t = mk().double()
    if name in ("actnorm",): t.train(); t(torch.randn(shape).double())
    if name == "batchnorm": t.train(); [t(torch.randn(shape).double()) for _ in range(3)]
    t.eval()
    for p in t.parameters(): p.data += 0.3 * torch.randn_like(p)
    x = torch.randn(shape).double()
    res = []
    try:
        x0 = x.clone(); sd0 = copy.deepcopy(t.state_dict())
        y, ld = t(x)
        res.append("argmut" if not torch.equal(x, x0) else "")
        res.append("statemut" if any(not torch.equal(sd0[k], v) for k, v in t.state_dict().items()) else "")
        # C01
        jl = jac_logdet(t, x); res.append("LOGDET %.1e" % (jl - ld).abs().max() if (jl - ld).abs().max() > 1e-6 else "")
        # C12
        y1, ld1 = t(x[1:2]); res.append("BATCHDEP" if (y1 - y[1:2]).abs().max() > 1e-9 or (ld1 - ld[1:2]).abs().max() > 1e-9 else "")
        # C02
        try:
            y0 = y.clone(); xr, ldi = t.inverse(y); res.append("invargmut" if not torch.equal(y, y0) else "")
            res.append("RT %.1e" % (xr - x).abs().max() if (xr - x).abs().max() > 1e-6 else ""); res.append("NEGLD %.1e" % (ld + ldi).abs().max() if (ld + ldi).abs().max() > 1e-6 else "")
        except Exception as e: res.append("inverse EXC " + type(e).__name__ + str(e)[:60])
        # C16
        xg = x.clone().requires_grad_(True); yy, ll = t(xg); (yy.sum() + ll.sum()).backward()
        nog = [n for n, p in t.named_parameters() if p.grad is None]; res.append("NOGRAD " + ",".join(nog) if nog else "")
        # C15
        torch.manual_seed(99); t2 = mk().double(); t2.eval(); t2.load_state_dict(t.state_dict()); y2, ld2 = t2(x)
        res.append("RELOAD" if not (torch.equal(y2, y) and torch.equal(ld2, ld)) else "")
        # C19
        tf = copy.deepcopy(t).float(); yf, lf = tf(x.float()); res.append("DTYPE" if yf.dtype != torch.float32 or lf.dtype != torch.float32 or y.dtype != torch.float64 or ld.dtype != torch.float64 else "")
    except Exception as e: res.append("EXC " + type(e).__name__ + ": " + str(e)[:100])
    print(f"{name:18s}", " | ".join(r for r in res if r) or "ok")
