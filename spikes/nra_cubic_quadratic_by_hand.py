import z3, time
R = z3.Real
def prove(name, hyps, goal, timeout=120000):
    s = z3.Solver(); s.set("timeout", timeout)
    for h in hyps: s.add(h)
    s.add(z3.Not(goal))
    t=time.time(); r = s.check(); dt=time.time()-t
    print(f"{name}: {'PROVED' if r==z3.unsat else r} in {dt:.2f}s", flush=True)
    if r==z3.sat: print(s.model())
# cubic forward monotone
t,w,hh,d0,d1 = R('t'),R('w'),R('h'),R('d0'),R('d1')
s_ = hh/w
a = (d0+d1-2*s_)/(w*w); b=(3*s_-2*d0-d1)/w; c=d0
hyp=[w>0,hh>0,t>=0,t<=w,d0>0,d1>0,d0<3*s_,d1<3*s_]
prove("cubic deriv>0", hyp, 3*a*t*t+2*b*t+c>0)
prove("cubic endpoint", hyp+[t==w], a*t*t*t+b*t*t+c*t == hh)
# interior derivative rule: d = 2*min(min(s0,s1), 0.5*(w1*s0+w0*s1)/(w0+w1)) in (0, 3*min(s0,s1))
s0,s1,w0,w1,m1,m2,m = R('s0'),R('s1'),R('w0'),R('w1'),R('m1'),R('m2'),R('m')
hy=[s0>0,s1>0,w0>0,w1>0, m1==z3.If(s0<s1,s0,s1), m2==0.5*(w1*s0+w0*s1)/(w0+w1), m==z3.If(m1<m2,m1,m2)]
prove("interior deriv bounds", hy, z3.And(2*m>0, 2*m<3*s0, 2*m<3*s1))
# quadratic spline
al,hl,hr,wq,cq = R('al'),R('hl'),R('hr'),R('wq'),R('cq')
aq=0.5*(hr-hl)*wq; bq=hl*wq
hq=[al>=0,al<=1,hl>0,hr>0,wq>0]
prove("quad deriv>0", hq, al*(hr-hl)+hl>0)
prove("quad endpoint", hq+[al==1], aq*al*al+bq*al+cq == cq+0.5*(hl+hr)*wq)
# quad inverse div by zero: is 2a != 0 provable? expect counterexample
prove("quad inverse 2a!=0 (expect CEX)", hq, 2*aq != 0)
