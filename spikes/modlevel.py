"""SPIKE C: module-level runs through real nn.Module classes: coupling (identity bit-for-bit, conditioner inputs, frame), LULinear round trip."""
import sys; sys.path.insert(0, '.')
from symt import *
import symt, warnings; warnings.filterwarnings("ignore")
from torch import nn
from nflows import transforms

OWN = {}   # id(base payload array) -> owner tag
def base_of(a):
    while isinstance(a, np.ndarray) and a.base is not None: a = a.base
    return a
def own(t, tag): OWN[id(base_of(t._p))] = (tag, base_of(t._p)); return t
def frame_violations():
    out = []
    for t in symt.WRITES:
        b = base_of(t._p)
        if id(b) in OWN and OWN[id(b)][1] is b: out.append(OWN[id(b)][0])
    return out

@handles('empty_like')
def _el(func, args, kwargs):
    a = args[0]; p = np.empty(a.shape, dtype=object); p[...] = z3.Real("POISON"); return Sym.make(p, a.dtype)
@handles('new_zeros','new_ones')
def _nz(func, args, kwargs):
    a = args[0]; shape = args[1:] if not isinstance(args[1], (tuple, list, torch.Size)) else tuple(args[1])
    p = np.empty(tuple(shape), dtype=object); p[...] = lift(0.0 if 'zeros' in func.__name__ else 1.0); return Sym.make(p, a.dtype)
@handles('sigmoid')
def _sg(func, args, kwargs):
    def g(x):
        v = fresh("sigmoid"); C().assume(z3.And(v > 0, v < 1)); return v
    return Sym.make(uf(g)(P(args[0])), args[0].dtype)
@handles('linear')
def _lin(func, args, kwargs):
    x, W = P(args[0]), P(args[1]); b = P(args[2]) if len(args) > 2 and args[2] is not None else None
    out = np.empty(x.shape[:-1] + (W.shape[0],), dtype=object)
    for idx in np.ndindex(x.shape[:-1]):
        for o in range(W.shape[0]):
            acc = z3.Sum([toreal(x[idx + (i,)]) * toreal(W[o, i]) for i in range(W.shape[1])])
            out[idx + (o,)] = acc + toreal(b[o]) if b is not None else acc
    return Sym.make(out, args[0].dtype)
@handles('t')
def _t(func, args, kwargs): return Sym.make(P(args[0]).T, args[0].dtype)
@handles('solve_triangular','linalg_solve_triangular')
def _st(func, args, kwargs):
    A, Bm = P(args[0]), P(args[1]); upper = kwargs['upper']; unit = kwargs.get('unitriangular', False)
    n = A.shape[0]; X = np.empty(Bm.shape, dtype=object)
    order = range(n - 1, -1, -1) if upper else range(n)
    for c in range(Bm.shape[1]):
        for i in order:
            js = range(i + 1, n) if upper else range(0, i)
            acc = toreal(Bm[i, c])
            for j in js: acc = acc - toreal(A[i, j]) * X[j, c]
            X[i, c] = acc if unit else s_div(acc, toreal(A[i, i]))
    return Sym.make(X, args[1].dtype)

def symparams(m, prefix="p"):
    for name, mm in m.named_modules():
        for k, p in list(mm._parameters.items()):
            if p is None: continue
            a = np.empty(tuple(p.shape), dtype=object)
            for idx in np.ndindex(a.shape): a[idx] = z3.Real(f"{prefix}.{name}.{k}{list(idx)}")
            mm._parameters[k] = own(Sym.make(a), f"param:{name}.{k}")

class StubNet(nn.Module):
    """contract stub for a conditioner: row-wise uninterpreted function of (identity inputs, context); records what it was shown"""
    seen = []
    def __init__(self, nin, nout): super().__init__(); self.nin, self.nout = nin, nout
    def forward(self, x, context=None):
        px = P(x); StubNet.seen.append(px.copy())
        out = np.empty((px.shape[0], self.nout) + px.shape[2:], dtype=object)
        for idx in np.ndindex(out.shape):
            b, o, rest = idx[0], idx[1], idx[2:]
            args = [toreal(px[(b, i) + rest]) for i in range(px.shape[1])]
            f = z3.Function(f"net_{o}", *([z3.RealSort()] * (len(args) + 1)))
            out[idx] = f(*args)
        return Sym.make(out, x.dtype)

def coupling(mask, shape):
    n = len(mask); B = shape[0]
    def run():
        symt.WRITES.clear(); OWN.clear(); StubNet.seen.clear()
        t = transforms.AffineCouplingTransform(mask, lambda i, o: StubNet(i, o)); t.eval()
        xin = np.empty(shape, dtype=object)
        for idx in np.ndindex(shape): xin[idx] = z3.Real("x" + "_".join(map(str, idx)))
        x = own(Sym.make(xin.copy()), "arg:inputs")
        y, ld = t(x)
        return xin, y._p, ld._p, [s.copy() for s in StubNet.seen], frame_violations()
    res = explore(run); ok = True; nobl = 0
    for ctx, out in res:
        assert out[0] == "ret", out
        xin, y, ld, seen, fv = out[1]
        ident = [i for i, m in enumerate(mask) if m <= 0]; trans = [i for i, m in enumerate(mask) if m > 0]
        for idx in np.ndindex(shape):
            nobl += 1
            if idx[1] in ident: ok &= y[idx] is xin[idx] or z3.eq(y[idx], xin[idx])        # bit-for-bit: the very same symbol
        shown = {str(e) for s in seen for e in s.reshape(-1)}
        ok &= shown == {str(xin[idx]) for idx in np.ndindex(shape) if idx[1] in ident}; nobl += 1
        ok &= not any("POISON" in str(e) for e in y.reshape(-1)); nobl += 1
        ok &= fv == []; nobl += 1
        # batch independence: row b of y/ld mentions only row-b symbols
        for b in range(B):
            names = {str(v) for e in list(y[b].reshape(-1)) + [ld[b]] for v in z3util_vars(e)}
            ok &= all(nm.startswith(f"x{b}_") or not nm.startswith("x") for nm in names); nobl += 1
        for k, loc, pc, c in ctx.obls:
            r, dt, m = discharge(pc, c, 10000); nobl += 1; ok &= (r == z3.unsat)
    return ok, nobl
def z3util_vars(e):
    seen = set(); out = []
    def rec(t):
        if t.get_id() in seen: return
        seen.add(t.get_id())
        if z3.is_const(t) and t.decl().kind() == z3.Z3_OP_UNINTERPRETED: out.append(t)
        for c in t.children(): rec(c)
    rec(e); return out

t0 = time.time(); tot = 0
import itertools
for n in (2, 3):
    for mask in itertools.product([-1.0, 1.0], repeat=n):
        if all(m > 0 for m in mask) or all(m <= 0 for m in mask): continue
        for shape in ((2, n), (2, n, 2, 1)):
            ok, nobl = coupling(torch.tensor(mask), shape); tot += nobl
            if not ok: print("FAIL", mask, shape)
print(f"coupling: obligations={tot} in {time.time()-t0:.1f}s")

# LULinear round trip and frame, all parameter values
for D in (1, 2, 3):
    def run():
        symt.WRITES.clear(); OWN.clear()
        t = transforms.LULinear(D, identity_init=False); t.eval(); symparams(t)
        xin = np.array([[z3.Real(f"x{b}_{j}") for j in range(D)] for b in range(2)], dtype=object)
        x = own(Sym.make(xin.copy()), "arg:inputs")
        y, ld = t(x); xr, ldi = t.inverse(y)
        return xin, xr._p, ld._p, ldi._p, frame_violations()
    t0 = time.time(); res = explore(run); n = 0; bad = 0
    for ctx, out in res:
        assert out[0] == "ret", out
        xin, xr, ld, ldi, fv = out[1]
        goals = [(k, pc, c) for k, loc, pc, c in ctx.obls] + [("roundtrip", ctx.pc, xr[idx] == xin[idx]) for idx in np.ndindex(xin.shape)] + [("neg-logdet", ctx.pc, ld[b] + ldi[b] == 0) for b in range(2)]
        for name, pc, g in goals:
            s = z3.Then('simplify', 'solve-eqs', 'purify-arith', 'qfnra-nlsat').solver(); s.set("timeout", 20000); s.add(*pc); s.add(z3.Not(g)); r = s.check(); n += 1
            if r == z3.unknown:
                r, dt, m = discharge(pc, g, 20000)
            if r != z3.unsat: bad += 1; print("  NOT PROVED", name, r)
        if fv: print("  FRAME", fv)
    print(f"LULinear D={D}: paths={len(res)} obligations={n} notproved={bad} {time.time()-t0:.1f}s")
