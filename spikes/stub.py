"""SPIKE: modular verification — caller (unconstrained_rational_quadratic_spline, PiecewiseRationalQuadraticCDF) checked against the CALLEE'S CONTRACT (stub), not its body."""
import sys; sys.path.insert(0, '.')
from symt import *
import symt, quad, warnings; warnings.filterwarnings("ignore")
import nflows.transforms.splines.rational_quadratic as rqmod
import nflows.transforms.splines as splines_pkg
from nflows import transforms

CALLS = []
def make_stub():
    """contract stub of rational_quadratic_spline: per element uninterpreted f, ld over (x, all its parameters, box); ensures as axioms"""
    def stub(inputs, unnormalized_widths, unnormalized_heights, unnormalized_derivatives, inverse=False,
             left=0.0, right=1.0, bottom=0.0, top=1.0, **kw):
        px, pw, ph, pd = P(inputs), P(unnormalized_widths), P(unnormalized_heights), P(unnormalized_derivatives)
        box = [toreal(P(v)[()]) for v in (left, right, bottom, top)]
        lo, hi, olo, ohi = (box[0], box[1], box[2], box[3]) if not inverse else (box[2], box[3], box[0], box[1])
        out = np.empty(px.shape, dtype=object); ld = np.empty(px.shape, dtype=object)
        for idx in np.ndindex(px.shape):
            x = toreal(px[idx]); params = [toreal(v) for v in list(pw[idx]) + list(ph[idx]) + list(pd[idx])] + box
            C().oblige("requires:in-domain(callee rational_quadratic_spline)", z3.And(x >= lo, x <= hi))       # callee's precondition at the call site
            tag = "inv" if inverse else "fwd"; n = len(params) + 1
            f = z3.Function(f"rq_{tag}_{n}", *([z3.RealSort()] * (n + 1))); g = z3.Function(f"rq_ld_{tag}_{n}", *([z3.RealSort()] * (n + 1)))
            o = f(x, *params); l = g(x, *params)
            C().assume(z3.And(o >= olo, o <= ohi)); C().assume(z3.Implies(x == lo, o == olo)); C().assume(z3.Implies(x == hi, o == ohi))   # ensures (proved separately on the body)
            out[idx] = o; ld[idx] = l; CALLS.append((idx, x, params))
        return Sym.make(out, inputs.dtype), Sym.make(ld, inputs.dtype)
    return stub
def patch_everywhere(orig, new):
    saved = []
    for m in list(sys.modules.values()):
        if m is None or not getattr(m, "__name__", "").startswith("nflows"): continue
        for k, v in list(vars(m).items()):
            if v is orig: saved.append((m, k)); setattr(m, k, new)
    return saved

@handles('__setitem__')
def _setitem(func, args, kwargs):
    a, ix, v = args; cix = symt.conc_index(ix); pv = P(v)
    if a.dtype.is_floating_point and pv.size:
        q = np.empty(pv.shape, dtype=object)
        for i in np.ndindex(pv.shape): q[i] = toreal(pv[i])
        pv = q
    a._p[cix] = pv if pv.shape else pv[()]
    symt.WRITES.append(a)
@handles('neg', '__neg__')
def _neg(func, args, kwargs): return Sym.make(uf(lambda x: -toreal(x))(P(args[0])), args[0].dtype)

orig = rqmod.rational_quadratic_spline
saved = patch_everywhere(orig, make_stub())
print("rebound", [(m.__name__, k) for m, k in saved])
K = 2; Bd = z3.Real('B')
xs = [z3.Real('x0'), z3.Real('x1')]
uw = [[z3.Real(f'uw{e}_{i}') for i in range(K)] for e in range(2)]; uh = [[z3.Real(f'uh{e}_{i}') for i in range(K)] for e in range(2)]
ud = [[z3.Real(f'ud{e}_{i}') for i in range(K - 1)] for e in range(2)]
def run():
    C().assume(Bd > 0); CALLS.clear()
    r = rqmod.unconstrained_rational_quadratic_spline(Sym.make(xs), Sym.make(uw), Sym.make(uh), Sym.make(ud), inverse=False, tails="linear", tail_bound=Sym.make(Bd))
    return r, list(CALLS)
t0 = time.time(); res = explore(run); n = bad = 0
for ctx, out in res:
    assert out[0] == "ret", out
    (o, ld), calls = out[1]
    goals = [(k, pc, c) for k, loc, pc, c in ctx.obls]
    for e in range(2):
        inside = z3.And(xs[e] >= -Bd, xs[e] <= Bd)
        goals += [(f"outside⇒identity[{e}]", ctx.pc, z3.Implies(z3.Not(inside), z3.And(o._p[e] == xs[e], ld._p[e] == 0))),
                  (f"inside⇒in-box[{e}]", ctx.pc, z3.Implies(inside, z3.And(o._p[e] >= -Bd, o._p[e] <= Bd))),
                  (f"continuous-at-+B[{e}]", ctx.pc, z3.Implies(xs[e] == Bd, o._p[e] == Bd)), (f"continuous-at--B[{e}]", ctx.pc, z3.Implies(xs[e] == -Bd, o._p[e] == -Bd))]
    # row alignment of the masked gather/scatter: the callee saw element e's own parameters
    for idx, x, params in calls:
        e = [i for i in range(2) if z3.eq(x, xs[i])][0]
        ok = all(z3.eq(p, q) for p, q in zip(params[:2 * K], uw[e] + uh[e]))
        goals.append((f"callee-saw-own-params[{e}]", [], z3.BoolVal(ok)))
    for nm, pc, g in goals:
        r, dt, m = discharge(pc, g, 10000); n += 1
        if r != z3.unsat: bad += 1; print("  NOT PROVED", nm, r)
print(f"unconstrained RQ (callee stubbed): paths={len(res)} obligations={n} notproved={bad} {time.time()-t0:.1f}s")
for m, k in saved: setattr(m, k, orig)
