import torch, warnings, traceback
warnings.filterwarnings("ignore")
from nflows import transforms, distributions, flows, utils
from nflows.transforms import splines
torch.manual_seed(0)

def trial(name, f):
    try:
        r = f()
        print("[%s] ->" % name, r)
    except Exception as e:
        print("[%s] EXC %s: %s" % (name, type(e).__name__, str(e)[:200]))

# 1 searchsorted mutates arg
def t1():
    b = torch.tensor([0., .5, 1.]); b0=b.clone()
    utils.searchsorted(b, torch.tensor([.2]))
    return (b-b0).tolist()
trial("searchsorted mutates", t1)

# 2 large tail bound at boundary
def t2():
    t = transforms.PiecewiseRationalQuadraticCDF(shape=[1], num_bins=4, tails="linear", tail_bound=100.)
    x = torch.tensor([[100.0]])
    return t(x)
trial("RQ tail_bound=100 x=100 fwd", t2)
def t2b():
    t = transforms.PiecewiseRationalQuadraticCDF(shape=[1], num_bins=4, tails="linear", tail_bound=100.)
    x = torch.tensor([[100.0]])
    return t.inverse(x)
trial("RQ tail_bound=100 x=100 inv", t2b)
for cls in [transforms.PiecewiseLinearCDF, transforms.PiecewiseQuadraticCDF, transforms.PiecewiseCubicCDF]:
    for B in [1., 3., 100.]:
        def t():
            t = cls(shape=[1], num_bins=4, tails="linear", tail_bound=B)
            return [t(torch.tensor([[B]])), t(torch.tensor([[-B]])), t.inverse(torch.tensor([[B]])), t.inverse(torch.tensor([[-B]]))]
        trial(cls.__name__+" B=%s"%B, t)
for B in [1., 3., 100.]:
    def t():
        t = transforms.PiecewiseRationalQuadraticCDF(shape=[1], num_bins=4, tails="linear", tail_bound=B)
        return [t(torch.tensor([[B]])), t(torch.tensor([[-B]])), t.inverse(torch.tensor([[B]])), t.inverse(torch.tensor([[-B]]))]
    trial("RQ B=%s"%B, t)

# 3 householder
def t3():
    h = transforms.HouseholderSequence(features=1, num_transforms=4)
    return h(torch.ones(2,1)), h.q_vectors
trial("householder 1,4", t3)
def t3b():
    h = transforms.HouseholderSequence(features=2, num_transforms=6)
    return h(torch.ones(2,2)), h.q_vectors
trial("householder 2,6", t3b)
trial("householder 2,5", lambda: transforms.HouseholderSequence(features=2, num_transforms=5).q_vectors)
trial("householder 3,1", lambda: transforms.HouseholderSequence(features=3, num_transforms=1).q_vectors)
trial("householder 3,3", lambda: transforms.HouseholderSequence(features=3, num_transforms=3).q_vectors)

# 4 squeeze factor 3
def t4():
    s = transforms.SqueezeTransform(factor=3)
    x = torch.randn(2,1,3,3)
    y,_ = s(x)
    return s.inverse(y)[0].shape
trial("squeeze 3", t4)
def t4b():
    s = transforms.SqueezeTransform(factor=3)
    x = torch.randn(2,4,3,3)
    y,_ = s(x)
    xr = s.inverse(y)[0]
    return (xr-x).abs().max()
trial("squeeze 3 c=4", t4b)

# 5 GLU
def t5():
    g = transforms.GatedLinearUnit()
    x = torch.randn(3,4); c = torch.randn(3,1)
    return g(x, c)
trial("GLU", t5)
def t5b():
    g = transforms.GatedLinearUnit()
    x = torch.randn(3,4); c = torch.randn(3,4)
    y,l= g(x, c)
    return y.shape, l.shape
trial("GLU ctx [3,4]", t5b)

# 6 LeakyReLU dtype
def t6():
    l = transforms.LeakyReLU()
    y, ld = l(torch.randn(2,3).double())
    return y.dtype, ld.dtype
trial("leakyrelu double", t6)

# 7 DiagonalNormal mean
trial("DiagonalNormal mean", lambda: distributions.DiagonalNormal([3]).mean())
trial("DiagonalNormal [2,3] log_prob", lambda: distributions.DiagonalNormal([2,3]).log_prob(torch.randn(4,2,3)))
# 8 MADEMoG sample without context
trial("MADEMoG sample no ctx", lambda: distributions.MADEMoG(3, 8, None).sample(2).shape)
trial("MADEMoG sample ctx", lambda: distributions.MADEMoG(3, 8, 2).sample(2, context=torch.randn(4,2)).shape)
trial("MADEMoG logprob no ctx", lambda: distributions.MADEMoG(3, 8, None).log_prob(torch.randn(4,3)).shape)
# 9 LV normaliser
def t9():
    lv = distributions.LotkaVolterraOscillating()
    import math
    mean = torch.log(torch.tensor([0.01, 0.5, 1, 0.01])); s=.5
    true = -torch.log(0.5*(torch.erf((2-mean)/(s*math.sqrt(2))) - torch.erf((-5-mean)/(s*math.sqrt(2))))).sum()
    return lv._log_normalizer, true
trial("LV normaliser", t9)
