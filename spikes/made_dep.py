"""SPIKE D: may-dependency ghost domain through the REAL MADE constructor+forward (both copies), symbolic random masks."""
import sys; sys.path.insert(0, '.')
from symt import *
import symt
from torch import nn
import warnings; warnings.filterwarnings("ignore")

class Dep:
    __slots__ = ("deps", "live")
    def __init__(self, deps, live): self.deps = deps; self.live = live
def as_dep(v, D):
    if isinstance(v, Dep): return v
    v = lift(v)
    return Dep([z3.BoolVal(False)] * D, z3.simplify(v != 0) if not z3.is_bool(v) else v)
NF = [0]
def d_add(a, b):
    D = NF[0]; a, b = as_dep(a, D), as_dep(b, D)
    return Dep([z3.Or(x, y) for x, y in zip(a.deps, b.deps)], z3.Or(a.live, b.live))
def d_mul(a, b):
    D = NF[0]; a, b = as_dep(a, D), as_dep(b, D)
    return Dep([z3.Or(z3.And(x, b.live), z3.And(y, a.live)) for x, y in zip(a.deps, b.deps)], z3.And(a.live, b.live))
def d_un(a): return Dep(list(a.deps), z3.BoolVal(True)) if isinstance(a, Dep) else a

def isdep(p): return p.size > 0 and any(isinstance(e, Dep) for e in p.reshape(-1))
orig = dict(HANDLERS)
def wrap2(name, dfn):
    o = orig[name]
    def h(func, args, kwargs):
        pa, pb = P(args[0]), P(args[1])
        if isdep(pa) or isdep(pb):
            pa, pb = np.broadcast_arrays(pa, pb); return Sym.make(bf(dfn)(pa, pb), torch.float32)
        return o(func, args, kwargs)
    return h
for n in ('add','__add__','__radd__','sub','__sub__'): HANDLERS[n] = wrap2(n, d_add)
for n in ('mul','__mul__','__rmul__'): HANDLERS[n] = wrap2(n, d_mul)
HANDLERS['__iadd__'] = HANDLERS['add_'] = symt.inplace_of('add')
@handles('relu','dropout','tanh','sigmoid')
def _un(func, args, kwargs): return Sym.make(uf(d_un)(P(args[0])), torch.float32)
@handles('linear')
def _linear(func, args, kwargs):
    x, W = P(args[0]), P(args[1]); b = P(args[2]) if len(args) > 2 and args[2] is not None else None
    D = NF[0]; out = np.empty(x.shape[:-1] + (W.shape[0],), dtype=object)
    for idx in np.ndindex(x.shape[:-1]):
        for o in range(W.shape[0]):
            acc = Dep([z3.BoolVal(False)] * D, z3.BoolVal(False))
            for i in range(W.shape[1]): acc = d_add(acc, d_mul(x[idx + (i,)], W[o, i]))
            if b is not None: acc = d_add(acc, b[o])
            out[idx + (o,)] = acc
    return Sym.make(out, torch.float32)
@handles('batch_norm')
def _bn(func, args, kwargs):  # per-feature affine of the same feature (eval) ; in training also mixes batch rows (same feature) -> feature deps unchanged
    x = P(args[0]); out = np.empty(x.shape, dtype=object)
    for idx in np.ndindex(x.shape): out[idx] = d_un(as_dep(x[idx], NF[0]))
    if kwargs.get('training', args[5] if len(args) > 5 else False):   # batch statistics: OR over rows of same feature
        for j in range(x.shape[1]):
            col = as_dep(x[0, j], NF[0])
            for r in range(1, x.shape[0]): col = d_add(col, x[r, j])
            for r in range(x.shape[0]): out[r, j] = d_un(col)
    return Sym.make(out, torch.float32)

class SymInt:
    def __init__(self, t): self.t = t
    def _c(self, o): return o.t if isinstance(o, SymInt) else o
    def __lt__(self, o): return C().decide([(True, self.t < self._c(o)), (False, z3.Not(self.t < self._c(o)))])
    def __gt__(self, o): return C().decide([(True, self.t > self._c(o)), (False, z3.Not(self.t > self._c(o)))])
    def __ne__(self, o): return C().decide([(True, self.t != self._c(o)), (False, self.t == self._c(o))])
    def __eq__(self, o): return not self.__ne__(o)
@handles('item')
def _item(func, args, kwargs):
    t = P(args[0]).reshape(-1)[0]; ts = z3.simplify(t)
    if z3.is_int_value(ts): return ts.as_long()
    if z3.is_true(ts): return True
    if z3.is_false(ts): return False
    if z3.is_bool(ts): return SymInt(z3.If(ts, 1, 0))
    return SymInt(ts)
@handles('float')
def _float(func, args, kwargs): return Sym.make(uf(toreal)(P(args[0])), torch.float32)
handles('ge','__ge__')(symt.elementwise2(lambda x, y: x >= y)); 
def _minint(func, args, kwargs):
    vals = list(P(args[0]).reshape(-1)); m = fresh("min", z3.IntSort())
    C().assume(z3.And([m <= v for v in vals])); C().assume(z3.Or([m == v for v in vals])); return Sym.make(np.array(m, dtype=object), torch.long)
HANDLERS['min'] = _minint

class Mode2(Mode):
    def __torch_function__(self, func, types, args=(), kwargs=None):
        kwargs = kwargs or {}
        if getattr(func, '__name__', '') == 'randint':
            low = kwargs['low']; high = kwargs['high']; n = kwargs['size'][0]
            low = low.t if isinstance(low, SymInt) else low
            vs = [fresh("deg", z3.IntSort()) for _ in range(n)]
            for v in vs: C().assume(z3.And(v >= low, v < high))
            return Sym.make(np.array(vs, dtype=object), torch.long)
        return super().__torch_function__(func, types, args, kwargs)
symt.Mode = Mode2
_real_randint = torch.randint
def _randint(*a, **kw):
    if Ctx.cur is not None and 'low' in kw:
        low = kw['low']; high = kw['high']; n = kw['size'][0]
        low = low.t if isinstance(low, SymInt) else low
        vs = [fresh("deg", z3.IntSort()) for _ in range(n)]
        for v in vs: C().assume(z3.And(v >= low, v < high))
        return Sym.make(np.array(vs, dtype=object), torch.long)
    return _real_randint(*a, **kw)
torch.randint = _randint

def check(modname, features, hidden, blocks, residual, random_mask, mult, ctx, bn, train):
    mod = __import__(modname, fromlist=['MADE'])
    NF[0] = features; B = 2
    def run():
        torch.manual_seed(0)
        m = mod.MADE(features, hidden, context_features=ctx, num_blocks=blocks, output_multiplier=mult,
                     use_residual_blocks=residual, random_mask=random_mask, use_batch_norm=bn)
        m.train(train)
        # parameters: arbitrary values => Dep with no input-dependence, live=True
        for mm in m.modules():
            for k, p in list(mm._parameters.items()):
                if p is None: continue
                a = np.empty(tuple(p.shape), dtype=object)
                for idx in np.ndindex(a.shape): a[idx] = Dep([z3.BoolVal(False)] * features, z3.BoolVal(True))
                mm._parameters[k] = Sym.make(a)
        xin = np.empty((B, features), dtype=object)
        for r in range(B):
            for j in range(features): xin[r, j] = Dep([z3.BoolVal(j == jj) for jj in range(features)], z3.BoolVal(True))
        c = None
        if ctx:
            cp = np.empty((B, ctx), dtype=object)
            for idx in np.ndindex(cp.shape): cp[idx] = Dep([z3.BoolVal(False)] * features, z3.BoolVal(True))
            c = Sym.make(cp)
        return m(Sym.make(xin), c)
    try:
        res = explore(run)
    except Exception as e:
        return "ERR " + repr(e)[:200], 0, 0
    nobl = 0; bad = 0; rejected = 0
    for ctx_, out in res:
        if out[0] == "raise":
            rejected += 1; print("    raised:", repr(out[1])[:300]); continue
        o = out[1]._p
        for r in range(B):
            for u in range(features * mult):
                i = u // mult
                for j in range(i, features):
                    rr, dt, m = discharge(ctx_.solver.assertions(), z3.Not(o[r, u].deps[j]), 10000); nobl += 1
                    if rr != z3.unsat: bad += 1
    return f"paths={len(res)} rejected_by_ctor={rejected}", nobl, bad
import itertools
t0 = time.time(); tot = 0; totbad = 0
for modname in ("nflows.transforms.made", "nflows.nn.nde.made"):
    for (features, hidden, blocks, residual, random_mask, mult, ctx, bn) in [
        (1, 2, 1, True, False, 1, None, False), (3, 2, 1, False, False, 2, None, False), (3, 4, 2, True, False, 2, 2, False),
        (3, 4, 1, False, True, 1, None, False), (3, 4, 2, False, True, 2, 1, True), (2, 3, 0, False, True, 3, None, False), (4, 5, 1, True, False, 1, None, True)]:
        for train in (False, True):
            if train and not bn: continue
            info, n, bad = check(modname, features, hidden, blocks, residual, random_mask, mult, ctx, bn, train)
            tot += n; totbad += bad
            print(f"{modname.split('.')[-2]}.made D={features} H={hidden} blocks={blocks} res={residual} rand={random_mask} mult={mult} ctx={ctx} bn={bn} train={train}: {info} obligations={n} notproved={bad}", flush=True)
print(f"total obligations={tot} notproved={totbad} in {time.time()-t0:.1f}s")
