"""SPIKE J: real quadratic_spline / linear_spline through the engine; does it find the a=0 NaN by itself?"""
import sys; sys.path.insert(0, '.')
from symt import *
import symt, warnings; warnings.filterwarnings("ignore")
from nflows.transforms.splines.quadratic import quadratic_spline
from nflows.transforms.splines.linear import linear_spline
from nflows.transforms.base import InputOutsideDomain

@handles('floor')
def _floor(func, args, kwargs):
    def g(x):
        x = toreal(x); v = fresh("floor", z3.IntSort()); C().assume(z3.And(z3.ToReal(v) <= x, x < z3.ToReal(v) + 1)); return z3.ToReal(v)
    return Sym.make(uf(g)(P(args[0])), args[0].dtype)
@handles('long')
def _long(func, args, kwargs):
    return Sym.make(uf(lambda x: z3.ToInt(toreal(x)))(P(args[0])), torch.long)
@handles('float')
def _float(func, args, kwargs): return Sym.make(uf(toreal)(P(args[0])), torch.float32)
@handles('clamp')
def _clamp(func, args, kwargs):
    a = args[0]; lo = args[1] if len(args) > 1 else kwargs.get('min'); hi = args[2] if len(args) > 2 else kwargs.get('max')
    def g(x):
        x = toreal(x)
        if lo is not None: x = z3.If(x < lift(float(lo)), lift(float(lo)), x)
        if hi is not None: x = z3.If(x > lift(float(hi)), lift(float(hi)), x)
        return x
    return Sym.make(uf(g)(P(a)), a.dtype)
@handles('cat')
def _cat(func, args, kwargs):
    ts = args[0]; dim = kwargs.get('dim', args[1] if len(args) > 1 else 0)
    return Sym.make(np.concatenate([P(t) for t in ts], axis=dim), [t for t in ts if isinstance(t, Sym)][0].dtype)
_old_gather = HANDLERS['gather']
def run_case(name, fn, K, inverse, nh):
    x = z3.Real('x')
    uw = [z3.Real(f'uw{i}') for i in range(K)]; uh = [z3.Real(f'uh{i}') for i in range(nh)]
    def run():
        if fn is quadratic_spline:
            return fn(Sym.make([x]), Sym.make([uw]), Sym.make([uh]), inverse=inverse)
        return fn(Sym.make([x]), Sym.make([uw]), inverse=inverse)
    t0 = time.time(); res = explore(run); te = time.time() - t0
    n = 0; bad = []
    for ctx, out in res:
        if out[0] == "raise":
            if isinstance(out[1], InputOutsideDomain): goals = [("raises-only-outside", ctx.pc, z3.Or(x < 0, x > 1))]
            else: goals = [("unexpected-raise:" + repr(out[1])[:80], ctx.pc, z3.BoolVal(False))]
        else:
            goals = [(k + "@" + loc.split("/")[-1], pc, c) for k, loc, pc, c in ctx.obls]
        for nm, pc, g in goals:
            r, dt, m = discharge(pc, g, 15000); n += 1
            if r != z3.unsat: bad.append((nm, r, m))
    print(f"{name} K={K} inverse={inverse}: paths={len(res)} explore={te:.1f}s obligations={n} notproved={len(bad)}")
    seen = set()
    for nm, r, m in bad:
        if (nm, str(r)) in seen: continue
        seen.add((nm, str(r)))
        mm = {str(d): m[d] for d in m.decls() if str(d) in ("x",) or str(d).startswith(("uw", "uh"))} if m is not None else None
        print("   ", nm, r, mm)
for K in (2, 3):
    run_case("linear_spline", linear_spline, K, False, 0); run_case("linear_spline", linear_spline, K, True, 0)
    run_case("quadratic_spline", quadratic_spline, K, False, K + 1); run_case("quadratic_spline", quadratic_spline, K, True, K + 1)
