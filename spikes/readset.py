"""SPIKE: read-set + taint bookkeeping on real nn.Modules for C15 (state-dict completeness)."""
import torch, warnings; warnings.filterwarnings("ignore")
from torch import nn
from nflows import transforms
READS = []
def watch(mod, path=""):
    """swap each module's class for a subclass that logs attribute reads (plain attrs, params, buffers)"""
    for name, m in list(mod.named_modules()):
        base = type(m)
        def mk(base, name):
            class W(base):
                def __getattribute__(self, k):
                    v = base.__getattribute__(self, k)
                    if not k.startswith("__") and not callable(v) or isinstance(v, torch.Tensor):
                        READS.append((name, k))
                    return v
                def __getattr__(self, k):          # params / buffers / submodules live here
                    v = base.__getattr__(self, k)
                    if isinstance(v, torch.Tensor): READS.append((name, k))
                    return v
            W.__name__ = base.__name__; return W
        m.__class__ = mk(base, name)
torch.manual_seed(0)
t = transforms.CompositeTransform([transforms.RandomPermutation(4), transforms.MaskedAffineAutoregressiveTransform(4, 8, use_residual_blocks=False, random_mask=True), transforms.LeakyReLU(), transforms.ActNorm(4)])
t.eval(); watch(t)
sd = set(t.state_dict().keys())
t(torch.randn(3, 4))
seen = sorted({(n + "." + k).lstrip(".") for n, k in READS})
tens = []
for full in seen:
    obj = t
    try:
        for part in full.split("."): obj = getattr(obj, part)
    except Exception: continue
    if isinstance(obj, torch.Tensor): tens.append((full, full in sd))
print("state_dict keys:", len(sd)); print("tensor attributes read during forward (name, in state_dict):")
for x in tens: print("   ", x)
