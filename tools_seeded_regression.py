#!/usr/bin/env python3
"""re-run the checks against every kept seeded change: apply to /repo, run the check(s) named in meta.json's detection text (default: the property's own),
always revert; writes seeded/REGRESSION.txt.  usage: tools_seeded_regression.py [ids...]"""
import json, os, re, subprocess, sys, time
os.chdir("/verif")
ids = sys.argv[1:] or sorted(os.listdir("seeded"))
lines = []
for sid in ids:
    d = f"seeded/{sid}"
    if not os.path.exists(f"{d}/meta.json"): continue
    m = json.load(open(f"{d}/meta.json"))
    det = m.get("detection", "")
    expect = "missed" if det.startswith("missed") else "detected"
    checks = re.findall(r"\./check (C\d\d)", det) or [m["property"]]
    checks = list(dict.fromkeys(checks))
    if expect == "missed": checks = [m["property"]]
    r = subprocess.run(["git", "-C", "/repo", "apply", os.path.abspath(f"{d}/patch.diff")], capture_output=True, text=True)
    if r.returncode:
        lines.append(f"{sid} NOAPPLY {r.stderr.strip()[:100]}"); continue
    outcome = []
    try:
        for c in checks:
            t = time.time()
            try:
                p = subprocess.run(["./check", c], capture_output=True, text=True, timeout=2400)
                rc = p.returncode
                nviol = sum(1 for l in p.stdout.splitlines() if l.startswith("VIOLATION"))
                nrep = sum(1 for l in p.stdout.splitlines() if l.startswith("VIOLATION") and not l.rstrip().endswith("no-failing-input-found"))
            except subprocess.TimeoutExpired:
                rc, nviol, nrep = "timeout", 0, 0
            outcome.append(f"{c}:exit={rc},violations={nviol},replayed={nrep},{time.time() - t:.0f}s")
    finally:
        subprocess.run(["git", "-C", "/repo", "checkout", "--", "."])
        subprocess.run(["git", "-C", "/verif", "checkout", "--", "evidence"])
    got = "detected" if any("exit=1" in o for o in outcome) else ("undecided" if any("exit=2" in o for o in outcome) else "missed")
    flag = "OK" if got == expect else "CHANGED"
    line = f"{sid} expect={expect} got={got} {flag} " + " ".join(outcome)
    print(line, flush=True); lines.append(line)
if not sys.argv[1:]:
    open("seeded/REGRESSION.txt", "w").write("\n".join(lines) + "\n")
