"""contracts for nflows.transforms.autoregressive: the MADE is seen through its C06 contract (params_i = g_i(x_<i, context), g uninterpreted),
the spline functions through their contract stubs.  C01: triangular Jacobian with the returned log-det; C02: the D-pass inverse is exact."""
import numpy as np
import torch, z3
from torch import nn
from tsv.core import Sym, P, C, toreal, rv, R
from tsv.harness import Harness
from tsv.terms import base_symbols
from tsv import terms as T
from .common import *
from .modules import exp_of_term, zabs, ensure_logs_cancel
from .coupling import all_splines_stubbed
from nflows.transforms import autoregressive as AR


class MadeStub(nn.Module):
    """C06 contract: output unit i*m + k is an uninterpreted function of the inputs 0..i-1 of the same item and of its context"""

    def __init__(self, features, mult, hidden=None):
        super().__init__()
        self.features, self.mult = features, mult
        if hidden: self.hidden_features = hidden

    def forward(self, inputs, context=None):
        pi = P(inputs)
        B = pi.shape[0]
        out = np.empty((B, self.features * self.mult), dtype=object)
        for b in range(B):
            cargs = [toreal(t) for t in P(context)[b].reshape(-1)] if context is not None else []
            for i in range(self.features):
                args = [toreal(t) for t in pi[b, :i]] + cargs
                for k in range(self.mult):
                    name = f"made_{i}_{k}"
                    out[b, i * self.mult + k] = z3.Function(name, *([R] * (len(args) + 1)))(*args) if args else z3.Const(name + "_c", R)
        return Sym.make(out, inputs.dtype)


CLASSES = {
    "Affine": lambda D, **kw: AR.MaskedAffineAutoregressiveTransform(D, 4, num_blocks=1, **kw),
    "PwLinear": lambda D, **kw: AR.MaskedPiecewiseLinearAutoregressiveTransform(2, D, 4, num_blocks=1, **kw),
    "PwQuadratic": lambda D, **kw: AR.MaskedPiecewiseQuadraticAutoregressiveTransform(D, 4, num_bins=2, num_blocks=1, **kw),
    "PwQuadraticTails": lambda D, **kw: AR.MaskedPiecewiseQuadraticAutoregressiveTransform(D, 4, num_bins=2, num_blocks=1, tails="linear", tail_bound=2.0, **kw),
    "PwCubic": lambda D, **kw: AR.MaskedPiecewiseCubicAutoregressiveTransform(2, D, 4, num_blocks=1, **kw),
    "PwRQ": lambda D, **kw: AR.MaskedPiecewiseRationalQuadraticAutoregressiveTransform(D, 4, num_bins=2, num_blocks=1, **kw),
    "PwRQTails": lambda D, **kw: AR.MaskedPiecewiseRationalQuadraticAutoregressiveTransform(D, 4, num_bins=2, num_blocks=1, tails="linear", tail_bound=3.0, **kw),
}


def autoreg_harness(cname, D, mode, with_context=False, hidden=None):
    B = 2

    def run(h, ctx):
        t = CLASSES[cname](D, **({"context_features": 2} if with_context else {}))
        t.eval()
        t.autoregressive_net = MadeStub(D, t._output_dim_multiplier(), hidden=hidden)
        h.t = t
        x = h.inp("x", (B, D))
        c = h.inp("context", (B, 2)) if with_context else None
        with all_splines_stubbed():
            y, ld = t.forward(x, c)
            if mode == "forward":
                return y, ld
            x2, ldi = t.inverse(y, c)
            return y, ld, x2, ldi

    def post(h, ctx, value):
        px = P(h.inputs["x"])
        xid = {px[idx].get_id(): idx for idx in np.ndindex(*px.shape)}
        y, ld = value[0], value[1]
        py = P(y)
        if mode == "forward":
            tri = True
            for b in range(B):
                prod = rv(1)
                for i in range(D):
                    for sid in base_symbols(py[b, i]):
                        if sid in xid and not (xid[sid][0] == b and xid[sid][1] <= i):
                            tri = False
                    prod = T.mul(prod, diff(py[b, i], px[b, i]))
                numr, den = exp_of_term(P(ld)[b])
                ensure(h, ctx, "C01.logdet", z3.And(zabs(prod) * den == numr, prod != 0))
            ensure(h, ctx, "C01.triangular", z3.BoolVal(tri))
            rows = all(xid[s_][0] == b for b in range(B) for t_ in list(py[b]) + [P(ld)[b]] for s_ in base_symbols(t_) if s_ in xid)
            ensure(h, ctx, "C12.row-independent", z3.BoolVal(rows))
            ensure(h, ctx, "C13.no-write", z3.BoolVal(not [w for w in ctx.writes if w[0].startswith("arg:")]))
            return
        x2, ldi = value[2], value[3]
        for b in range(B):
            for i in range(D):       # in feature order: each proved equality is a lemma for the next feature (congruence of the conditioner)
                ensure(h, ctx, "C02.roundtrip_if", P(x2)[b, i] == px[b, i])
                ctx.assume(P(x2)[b, i] == px[b, i])
        for b in range(B):
            ensure_logs_cancel(h, ctx, "C02.neg-logdet", P(ld)[b] + P(ldi)[b])

    def native_build(inp):
        torch.manual_seed(int(inp["seed"]))
        t = CLASSES[cname](D, **({"context_features": 2} if with_context else {}))
        with torch.no_grad():
            for p in t.parameters(): p.add_(torch.randn(p.shape) * 0.5)
        return native_cast(t).eval()

    def native_call(h, inp):
        t = native_build(inp); x = tt(inp["x"]); c = tt(inp["context"]) if with_context else None
        y, ld = t.forward(x, c)
        if mode == "forward": return y, ld
        x2, ldi = t.inverse(y, c)
        return y, ld, x2, ldi

    def native_clauses(h, inp, res):
        t = native_build(inp); x = tt(inp["x"]); c = tt(inp["context"]) if with_context else None
        if mode == "forward":
            J = torch.autograd.functional.jacobian(lambda z: t.forward(z, c)[0], x)
            tri = all(float(J[b, i, b, j]) == 0 for b in range(B) for i in range(D) for j in range(i + 1, D))
            ok = all(abs(float(torch.slogdet(J[b, :, b, :])[1]) - float(res[1][b])) < 1e-6 for b in range(B))
            return {"C01.logdet": ok, "C01.triangular": tri}
        y, ld, x2, ldi = res
        return {"C02.roundtrip_if": bool(torch.allclose(x2, x, atol=1e-5)), "C02.neg-logdet": bool(torch.allclose(ld + ldi, torch.zeros_like(ld), atol=1e-5))}

    def sample(h, rng):
        lo, hi = (0.05, 0.95) if cname in ("PwLinear", "PwQuadratic", "PwCubic", "PwRQ") else (-2.5, 2.5)
        d = {"x": rng.uniform(lo, hi, size=(B, D)), "seed": np.array(int(rng.integers(0, 10 ** 5)))}
        if with_context: d["context"] = rng.normal(size=(B, 2))
        return d
    cls = type(CLASSES[cname](2))
    hn = Harness(f"autoregressive_{cname}[D={D},{mode}{',ctx' if with_context else ''}{',hidden' if hidden else ''}]", run, post, native_call=native_call,
                 native_clauses=native_clauses, sample=sample, functions=[AR.AutoregressiveTransform.forward, AR.AutoregressiveTransform.inverse,
                                                                          cls._elementwise_forward, cls._elementwise_inverse],
                 config={"class": cname, "D": D, "mode": mode})
    hn.native_float32 = False
    return hn


def autoreg_harnesses(tier, modes=("forward", "if")):
    hs = []
    for cname in CLASSES:
        for D in ((1, 2, 3) if cname == "Affine" or tier != "quick" else (2,)):
            for mode in modes:
                hs.append(autoreg_harness(cname, D, mode))
    for mode in modes:
        hs.append(autoreg_harness("Affine", 2, mode, with_context=True))
        hs.append(autoreg_harness("PwRQTails", 2, mode, hidden=4))
    return hs
