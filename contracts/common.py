"""shared helpers for contract modules"""
import numpy as np
import torch, z3
from tsv.core import Sym, P, C, Ctx, fresh, toreal, rv, is_num, num, R, Unsupported
from tsv import terms as T
from tsv.terms import diff, exp_of_loglin, expf, logf

F64 = torch.float64


def el(t, idx=0):
    """payload element"""
    p = P(t)
    return p.reshape(-1)[idx] if not isinstance(idx, tuple) else p[idx]


def scal(name):
    return Sym.make(z3.Real(name))


NATIVE_DTYPE = [torch.float64]      # native replays run in float64 and, for the safety clauses, again in float32


def tt(a, dtype=None):
    return torch.tensor(np.asarray(a), dtype=dtype or NATIVE_DTYPE[0])


def ensure(h, ctx, label, goal, meta=None, hyps=None):
    ctx.oblige("ensures", goal, label=label, loc=("contract", h.hid.split("[")[0], 0), meta=meta, hyps=hyps)
    if label == "C12.row-independent" and not ctx.notes.get("_norandom_done") and not getattr(h, "draws_allowed", False):
        # evaluation consumed no random numbers: a draw (dropout mask, noise) is shared state of the batch - its value for one row depends on
        # the position of the row and on the size of the batch
        ctx.notes["_norandom_done"] = True
        draws = [nm for nm, _ in ctx.notes.get("random_draws", [])]
        ctx.oblige("ensures", z3.BoolVal(not draws), label="C12.no-random-draw-in-evaluation", loc=("contract", h.hid.split("[")[0], 0), meta={"draws": draws[:5]})


def logdet_is_log_derivative(h, ctx, label, out_t, ld_t, x_t, sign=None):
    """exp(ld) == d out / d x  and derivative > 0   (ld = rest + sum c_i log p_i, rest must vanish or be handled by caller)"""
    d = diff(out_t, x_t)
    rest, numr, den = exp_of_loglin(ld_t)
    rs = z3.simplify(rest)
    if not (is_num(rs) and num(rs) == 0):
        # exp(rest) stays symbolic
        er = expf(rest)
        ensure(h, ctx, label, z3.And(d * den == er * numr, d > 0))
        return
    ensure(h, ctx, label + ".value", d * den == numr)
    ensure(h, ctx, label + ".positive", d > 0)


def memo_cut(ctx, cut_id, actual_terms, make):
    """functional cut: same actual terms -> same fresh symbols"""
    key = ("cut", cut_id) + tuple(t.get_id() for t in actual_terms)
    hit = ctx.memo.get(key)
    if hit is None:
        hit = ctx.memo[key] = (actual_terms, make())
        return hit[1], True
    return hit[1], False


def numjac(f, x, eps=1e-6):
    """central finite-difference derivative of an elementwise native function"""
    return (f(x + eps) - f(x - eps)) / (2 * eps)


def logs_cancel(h, ctx, label, total_ld):
    """total_ld (a sum of +-log terms) == 0, stated as the polynomial identity  prod(num) == prod(den)"""
    rest, numr, den = exp_of_loglin(total_ld)
    rs = z3.simplify(rest)
    if is_num(rs) and num(rs) == 0:
        ensure(h, ctx, label, numr == den)
    else:
        ensure(h, ctx, label, total_ld == 0)


def native_cast(m):
    """bring a natively constructed module to the dtype of the current native replay (float64, then float32)"""
    return m.to(NATIVE_DTYPE[0])
