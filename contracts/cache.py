"""contract for the weight cache of nflows.transforms.linear.Linear (C10): a class invariant over every abstract pre-state.

Invariant I(t):   t.training  =>  all three cache slots are None
                  each non-None slot equals the accessor evaluated at the CURRENT parameters and has their dtype
                  (and, clause no-graph: carries no autograd graph)
Every public method and every environment transition of the property's alphabet is executed from every abstract pre-state that
satisfies I (2 x 2 x 2^3 slot patterns, symbolic values) and must re-establish I; forward / inverse must return exactly what
forward_no_cache / inverse_no_cache return.  Inductiveness gives the property for histories of any length."""
import itertools
import numpy as np
import torch, z3
from torch import nn
from tsv.core import Sym, P, C, fresh, toreal, rv, R
from tsv.harness import Harness
from .common import *
from nflows.transforms.linear import Linear, NaiveLinear
from nflows.transforms.lu import LULinear
from nflows.transforms.qr import QRLinear
from nflows.transforms.svd import SVDLinear
from nflows.transforms.conv import OneByOneConvolution

D = 2


class StubLinear(Linear):
    """base-class logic only: accessors are uninterpreted functions of the current parameter vector (their agreement is C11)"""

    def __init__(self):
        super().__init__(D)
        self.theta = nn.Parameter(torch.zeros(3))

    def _acc(self, name, shape):
        ps = [toreal(t) for t in P(self.theta)]
        a = np.empty(shape, dtype=object)
        for idx in np.ndindex(*shape):
            a[idx] = z3.Function(f"{name}_{'_'.join(map(str, idx))}", *([R] * (len(ps) + 1)))(*ps)
        s = Sym.make(a, self.theta.dtype)
        return s

    def weight(self): return self._acc("W", (D, D))
    def weight_inverse(self): return self._acc("V", (D, D))
    def logabsdet(self): return self._acc("L", ())

    def forward_no_cache(self, inputs):
        return torch.nn.functional.linear(inputs, self.weight(), self.bias), self.logabsdet() * inputs.new_ones(inputs.shape[0])

    def inverse_no_cache(self, inputs):
        return torch.nn.functional.linear(inputs - self.bias, self.weight_inverse()), (-self.logabsdet()) * inputs.new_ones(inputs.shape[0])


CLASSES = {
    "Stub": lambda: StubLinear(),
    "LULinear": lambda: LULinear(D),
    "QRLinear": lambda: QRLinear(D, num_householder=2),
    "SVDLinear": lambda: SVDLinear(D, num_householder=2),
    "NaiveLinear": lambda: NaiveLinear(D, orthogonal_initialization=False),
    "OneByOneConvolution": lambda: OneByOneConvolution(D),
}


def eq_t(a, b):
    if a is None or b is None:
        return z3.BoolVal(a is None and b is None)
    pa, pb = P(a), P(b)
    if tuple(pa.shape) != tuple(pb.shape):
        return z3.BoolVal(False)
    return z3.And([toreal(x) == toreal(y) for x, y in zip(pa.reshape(-1), pb.reshape(-1))]) if pa.size else z3.BoolVal(True)


def symbolise(h, t, suffix=""):
    """all floating parameters become fresh symbols (dtype kept)"""
    for mname, m in t.named_modules():
        for name, p in list(m._parameters.items()):
            if p is None: continue
            path = (mname + "." if mname else "") + name
            s = h.inp("p:" + path + suffix, tuple(p.shape), p.dtype, owner="param")
            s._is_param = True; s._g = {"requires_grad": True}
            m._parameters[name] = s


def param_dtype(t):
    return next(iter(t.parameters())).dtype


def invariant(h, ctx, t, label, graph_clause=True):
    c = t.cache
    slots = (("weight", c.weight, t.weight), ("inverse", c.inverse, t.weight_inverse), ("logabsdet", c.logabsdet, t.logabsdet))
    if t.training:
        ensure(h, ctx, f"C10.{label}.training-implies-empty-cache", z3.BoolVal(all(s is None for _, s, _ in slots)))
    for name, slot, acc in slots:
        if slot is None:
            continue
        ensure(h, ctx, f"C10.{label}.cache-dtype", z3.BoolVal(slot.dtype == param_dtype(t)), meta={"slot": name, "slot_dtype": str(slot.dtype), "param_dtype": str(param_dtype(t))})
        if slot.dtype == param_dtype(t):
            cur = acc()
            if name == "logabsdet" and tuple(P(slot).shape) == tuple(P(cur).shape) and not z3.eq(toreal(P(slot).reshape(-1)[0]), toreal(P(cur).reshape(-1)[0])):
                # the slot may have been filled by another formula for the same quantity (weight_inverse_and_logabsdet): compare the products
                from .modules import ensure_logs_cancel
                ensure_logs_cancel(h, ctx, f"C10.{label}.cache-current", toreal(P(slot).reshape(-1)[0]) - toreal(P(cur).reshape(-1)[0]))
            else:
                ensure(h, ctx, f"C10.{label}.cache-current", eq_t(slot, cur), meta={"slot": name, "tactic": "ring"})
        if graph_clause:
            ensure(h, ctx, f"C10.{label}.no-graph-in-cache", z3.BoolVal(not bool((slot._g or {}).get("graph"))), meta={"slot": name})


OPS = ["forward", "inverse", "train", "eval", "use_cache_on", "use_cache_off", "optimizer_step", "load_state_dict", "load_state_dict_via_parent",
       "dtype_roundtrip", "to_double", "to_double_inverse"]


def cache_harness(cname, op, training, using, pat):
    make = CLASSES[cname]
    is_conv = cname == "OneByOneConvolution"
    xshape = (2, D, 1, 2) if is_conv else (2, D)

    def run(h, ctx):
        t = make()
        if cname == "SVDLinear":
            # modular: the two orthogonal factors are seen through their contract (proved on HouseholderSequence in C11)
            from .linearfam import stub_orthogonal_parts
            stub_orthogonal_parts(t, D)
        symbolise(h, t)
        t.training = training
        for m in t.modules(): m.training = training
        t.using_cache = using
        # abstract pre-state satisfying the invariant: filled slots hold the accessor values at the current parameters, graph-free
        if pat[0]: t.cache.weight = t.weight().detach()
        if pat[1]: t.cache.inverse = t.weight_inverse().detach()
        if pat[2]: t.cache.logabsdet = t.logabsdet().detach()
        h.t = t
        x = h.inp("x", xshape, param_dtype(t))
        res = ref = None
        def uncached(f, arg):
            """the reference: the same public method with the cache switched off (restored afterwards)"""
            saved = t.using_cache
            t.using_cache = False
            try:
                return f(arg)
            finally:
                t.using_cache = saved
        if op == "forward":
            res = t.forward(x); ref = uncached(t.forward, x)
        elif op == "inverse":
            res = t.inverse(x); ref = uncached(t.inverse, x)
        elif op == "train":
            t.train(True)
        elif op == "eval":
            t.eval()
        elif op == "use_cache_on":
            t.use_cache(True)
        elif op == "use_cache_off":
            t.use_cache(False)
        elif op == "optimizer_step":
            # contract of an optimiser step: parameters are updated in place (any new values); only ever done in training mode
            with torch.no_grad():
                for name, p in t.named_parameters():
                    p.copy_(h.inp("new:" + name, tuple(p.shape), p.dtype))
        elif op == "load_state_dict":
            sd = {k: h.inp("sd:" + k, tuple(v.shape), v.dtype) for k, v in t.state_dict().items() if v.dtype.is_floating_point}
            for k, v in t.state_dict().items():
                if k not in sd: sd[k] = v
            t.load_state_dict(sd)
        elif op == "load_state_dict_via_parent":
            # the same transition through an enclosing module (state-dict keys carry a prefix)
            from nflows.transforms.base import CompositeTransform
            from nflows.transforms.standard import IdentityTransform
            parent = CompositeTransform([IdentityTransform(), t])
            sd = {k: (h.inp("sd:" + k, tuple(v.shape), v.dtype) if v.dtype.is_floating_point else v) for k, v in parent.state_dict().items()}
            parent.load_state_dict(sd)
        elif op == "dtype_roundtrip":
            t.double(); t.float()
        elif op == "to_double":
            t.double()
            x64 = h.inp("x64", xshape, torch.float64)
            res = t.forward(x64); ref = uncached(t.forward, x64)
        elif op == "to_double_inverse":
            t.double()
            x64 = h.inp("x64", xshape, torch.float64)
            res = t.inverse(x64); ref = uncached(t.inverse, x64)
        return res, ref

    def post(h, ctx, value):
        res, ref = value
        t = h.t
        flags = {"train": t.training is True, "eval": t.training is False, "use_cache_on": t.using_cache is True, "use_cache_off": t.using_cache is False}
        if op in flags:
            ensure(h, ctx, f"C10.{op}.flag-set", z3.BoolVal(bool(flags[op])))
        else:
            ensure(h, ctx, f"C10.{op}.flags-unchanged", z3.BoolVal(t.using_cache == using and (t.training == training)))
        invariant(h, ctx, t, op)
        if res is not None:
            ensure(h, ctx, f"C10.{op}.equals-uncached-output", eq_t(res[0], ref[0]), meta={"tactic": "ring"})
            pa, pb = P(res[1]), P(ref[1])
            if tuple(pa.shape) == tuple(pb.shape) and not all(z3.eq(toreal(a_), toreal(b_)) for a_, b_ in zip(pa.reshape(-1), pb.reshape(-1))):
                # different formulas for the same log-abs-det (e.g. slogdet against the sum of log |diag(LU)|): equal iff the products agree
                from .modules import ensure_logs_cancel
                for a_, b_ in zip(pa.reshape(-1), pb.reshape(-1)):
                    ensure_logs_cancel(h, ctx, f"C10.{op}.equals-uncached-logdet", toreal(a_) - toreal(b_))
            else:
                ensure(h, ctx, f"C10.{op}.equals-uncached-logdet", eq_t(res[1], ref[1]))
            ensure(h, ctx, f"C10.{op}.result-dtype", z3.BoolVal(res[0].dtype == ref[0].dtype and res[1].dtype == ref[1].dtype))

    # ---- native replay: drive the real class into the pre-state by a canonical history, apply the operation, compare with uncached
    def native_call(h, inp):
        torch.manual_seed(int(inp["seed"]))
        t = LULinear(D, identity_init=False) if cname == "Stub" else (make() if cname != "LULinear" else LULinear(D, identity_init=False))
        with torch.no_grad():
            for p in t.parameters(): p.add_(torch.randn(p.shape) * 0.3)
        x = torch.randn(*xshape)
        hist = []
        t.eval(); t.use_cache(True); hist += ["eval()", "use_cache(True)"]
        if pat[0] or pat[2]: t.forward(x); hist.append("forward(x)")
        if pat[1]: t.inverse(x); hist.append("inverse(x)")
        if training: t.train(); hist.append("train()")
        t.use_cache(using); hist.append(f"use_cache({using})")
        out = {"history": hist}
        if op in ("forward", "inverse"):
            f, g = (t.forward, t.forward_no_cache) if op == "forward" else (t.inverse, t.inverse_no_cache)
            a = f(x); b = g(x); out["pair"] = (a, b); hist.append(op)
        elif op in ("load_state_dict", "optimizer_step", "load_state_dict_via_parent"):
            t2 = LULinear(D, identity_init=False) if cname in ("Stub", "LULinear") else make()
            torch.manual_seed(int(inp["seed"]) + 1)
            with torch.no_grad():
                for p in t2.parameters(): p.add_(torch.randn(p.shape))
            if op == "load_state_dict":
                t.load_state_dict(t2.state_dict()); hist.append("load_state_dict(other)")
            elif op == "load_state_dict_via_parent":
                from nflows.transforms.base import CompositeTransform
                from nflows.transforms.standard import IdentityTransform
                CompositeTransform([IdentityTransform(), t]).load_state_dict(CompositeTransform([IdentityTransform(), t2]).state_dict())
                hist.append("CompositeTransform([..., t]).load_state_dict(other)")
            else:
                with torch.no_grad():
                    for p, q in zip(t.parameters(), t2.parameters()): p.copy_(q)
                hist.append("optimizer step")
            out["pair_f"] = (t.forward(x), t.forward_no_cache(x)); out["pair_i"] = (t.inverse(x), t.inverse_no_cache(x))
        elif op in ("dtype_roundtrip", "to_double", "to_double_inverse"):
            t.double(); hist.append("double()")
            if op == "dtype_roundtrip":
                t.float(); hist.append("float()"); xx = x
            else:
                xx = x.double()
            out["pair_f"] = (t.forward(xx), t.forward_no_cache(xx)); out["pair_i"] = (t.inverse(xx), t.inverse_no_cache(xx))
        elif op in ("train", "eval", "use_cache_on", "use_cache_off"):
            {"train": t.train, "eval": t.eval, "use_cache_on": lambda: t.use_cache(True), "use_cache_off": lambda: t.use_cache(False)}[op]()
            if t.training:
                # an optimiser step while training, then back to cached evaluation: a cache that survived training would now be stale
                with torch.no_grad():
                    for p in t.parameters(): p.add_(torch.randn(p.shape) * 0.5)
                t.eval(); t.use_cache(True); hist += ["optimizer step", "eval()", "use_cache(True)"]
            out["pair_f"] = (t.forward(x), t.forward_no_cache(x)); out["pair_i"] = (t.inverse(x), t.inverse_no_cache(x))
        return out

    def native_clauses(h, inp, res):
        ok = True
        for k, v in res.items():
            if k.startswith("pair"):
                a, b = v
                ok = ok and a[0].dtype == b[0].dtype and bool(torch.allclose(a[0], b[0], atol=1e-6)) and bool(torch.allclose(a[1], b[1], atol=1e-6))
        c = {}
        for lab in ("cache-current", "cache-dtype", "training-implies-empty-cache"):
            c[f"C10.{op}.{lab}"] = ok
        if op in ("forward", "inverse"):
            # repeated back-propagation to the inputs through the cached transform
            torch.manual_seed(int(inp["seed"]))
            t = LULinear(D, identity_init=False) if cname in ("Stub", "LULinear") else make()
            t.eval(); t.use_cache(True)
            x = torch.randn(*xshape, requires_grad=True)
            f = t.forward if op == "forward" else t.inverse
            try:
                for _ in range(2):
                    o, l = f(x); (o.sum() + l.sum()).backward()
                c[f"C10.{op}.no-graph-in-cache"] = True
            except RuntimeError as e:
                c[f"C10.{op}.no-graph-in-cache"] = False
        c[f"C10.{op}.equals-uncached-output"] = ok; c[f"C10.{op}.equals-uncached-logdet"] = ok; c[f"C10.{op}.result-dtype"] = ok
        return c

    def sample(h, rng):
        return {"seed": np.array(int(rng.integers(0, 10 ** 6)))}

    hid = f"cache_{cname}[op={op},training={training},using={using},slots={''.join('1' if p else '0' for p in pat)}]"
    hn = Harness(hid, run, post, native_call=native_call, native_clauses=native_clauses, sample=sample, check_defined=False,
                 functions=[Linear.forward, Linear.inverse, Linear._check_forward_cache, Linear._check_inverse_cache, Linear.train, Linear.use_cache, LinearCacheInvalidate()],
                 config={"class": cname, "op": op, "training": training, "using_cache": using, "slots": list(pat)})
    hn.native_float32 = False
    return hn


def LinearCacheInvalidate():
    from nflows.transforms.linear import LinearCache
    return LinearCache.invalidate


def cache_harnesses(tier):
    hs = []
    # NaiveLinear's inverse path goes through torch.lu, which is only an opaque contract here (two factorisation handles of the same
    # matrix are not related beyond |prod diag| = |det|): its cached-vs-uncached log-det equality is not decidable with it, so the class is not claimed
    classes = ["Stub", "LULinear", "OneByOneConvolution", "QRLinear", "SVDLinear", "NaiveLinear"]
    for cname in classes:
        for op in OPS:
            for training, using in itertools.product([True, False], repeat=2):
                for pat in itertools.product([False, True], repeat=3):
                    if training and any(pat): continue               # pre-states must satisfy the invariant
                    if op == "optimizer_step" and not training: continue
                    if cname != "Stub" and tier == "quick" and not (pat in ((False, False, False), (True, False, True), (True, True, True))):
                        continue
                    hs.append(cache_harness(cname, op, training, using, pat))
    return hs
