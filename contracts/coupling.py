"""contracts for nflows.transforms.coupling (C07, and the coupling part of C01 / C02 / C12 / C13)

The conditioner is a stub: per item an uninterpreted function of exactly what it is shown (identity split, context); it
records what it was shown.  Piecewise couplings see the spline functions through their contract stub (SplineStub)."""
import itertools
import numpy as np
import torch, z3
from torch import nn
from tsv.core import Sym, P, C, fresh, toreal, rv, is_num, num, R
from tsv.harness import Harness
from tsv.instrument import patched
from tsv import terms as T
from tsv.terms import base_symbols
from .common import *
from .modules import exp_of_term, zabs, ensure_logs_cancel
from .splines import FAMILIES
from nflows.transforms import coupling as CP
import nflows.transforms.splines.linear as linmod
import nflows.transforms.splines.quadratic as quadmod
import nflows.transforms.splines.cubic as cubmod
import nflows.transforms.splines.rational_quadratic as rqmod


class StubNet(nn.Module):
    """conditioner stub: out[b, j, ...] = g_j(everything of item b it is shown); fresh result tensor"""

    def __init__(self, in_features, out_features, hidden=None, tag="cond"):
        super().__init__()
        self.in_features, self.out_features, self.tag = in_features, out_features, tag
        if hidden:
            self.hidden_features = hidden
        self.shown = []

    def forward(self, inputs, context=None):
        self.shown.append((inputs, context))
        pi = P(inputs)
        B = pi.shape[0]
        spatial = pi.shape[2:]
        out = np.empty((B, self.out_features) + tuple(spatial), dtype=object)
        for b in range(B):
            args = [toreal(t) for t in pi[b].reshape(-1)]
            if context is not None:
                args += [toreal(t) for t in P(context)[b].reshape(-1)]
            for j in range(self.out_features):
                for sp in np.ndindex(*spatial):
                    name = f"{self.tag}_{j}" + ("_" + "_".join(map(str, sp)) if sp else "")
                    f = z3.Function(name, *([R] * (len(args) + 1)))
                    out[(b, j) + sp] = f(*args) if args else z3.Const(name + "_c", R)
        return Sym.make(out, inputs.dtype)


class PairedSplineStub:
    """contract stub of a (possibly unconstrained) spline function as seen by its callers:
       out = f(x, params), ld = g(x, params) with exp(g) = df/dx > 0; inverse(f(x,p),p) = x and ld_inv = -g(x,p)   (C01/C02/C09 of the
       spline, proved on its body by spline_harness / unconstrained_harness); no in-domain requirement is checked here."""

    def __init__(self, name):
        self.name = name
        self.calls = []

    def __call__(self, inputs, *params, inverse=False, **kw):
        ctx = C()
        names = [n for n in kw if n.startswith("un")]
        ps = list(params) + [kw[n] for n in names]
        px = P(inputs)
        pps = [P(p) for p in ps]
        out = np.empty(px.shape, dtype=object); ld = np.empty(px.shape, dtype=object)
        for idx in np.ndindex(*px.shape):
            x = toreal(px[idx])
            pr = [toreal(v) for p in pps for v in p[idx]]
            n = len(pr) + 1
            fw = z3.Function(f"{self.name}_fwd_{n}", *([R] * (n + 1))); gw = z3.Function(f"{self.name}_ld_{n}", *([R] * (n + 1)))
            iv = z3.Function(f"{self.name}_inv_{n}", *([R] * (n + 1))); df = z3.Function(f"d0_{self.name}_fwd_{n}", *([R] * (n + 1)))
            if not inverse:
                o, l, d = fw(x, *pr), gw(x, *pr), df(x, *pr)
                ctx.axiom([o, l, d], z3.And(d > 0, T.expf(l) == d, iv(o, *pr) == x))
            else:
                o = iv(x, *pr)
                l = -gw(o, *pr)
                d = df(o, *pr)
                dinv = z3.Function(f"d0_{self.name}_inv_{n}", *([R] * (n + 1)))(x, *pr)
                ctx.axiom([o, l, d, dinv], z3.And(d > 0, T.expf(gw(o, *pr)) == d, fw(o, *pr) == x, dinv > 0, dinv * d == 1))
            out[idx] = o; ld[idx] = l
            self.calls.append((idx, x, [list(p[idx]) for p in pps], inverse))
        return Sym.make(out, inputs.dtype), Sym.make(ld, inputs.dtype)


SPLINE_FUNCS = [(linmod, "linear_spline"), (linmod, "unconstrained_linear_spline"), (quadmod, "quadratic_spline"), (quadmod, "unconstrained_quadratic_spline"),
                (cubmod, "cubic_spline"), (cubmod, "unconstrained_cubic_spline"), (rqmod, "rational_quadratic_spline"),
                (rqmod, "unconstrained_rational_quadratic_spline")]


class all_splines_stubbed:
    def __enter__(self):
        self.stubs = {}
        self.cms = []
        for mod, name in SPLINE_FUNCS:
            st = PairedSplineStub(name.replace("unconstrained_", "u").replace("_spline", ""))
            self.stubs[name] = st
            cm = patched(getattr(mod, name), st)
            cm.__enter__(); self.cms.append(cm)
        return self

    def __exit__(self, *a):
        for cm in reversed(self.cms):
            cm.__exit__(*a)


# ------------------------------------------------------------------------------------------------------------
CLASSES = {
    "Affine": (lambda mask, net, **kw: CP.AffineCouplingTransform(mask, net, **kw), CP.AffineCouplingTransform),
    "AffineGeneral": (lambda mask, net, **kw: CP.AffineCouplingTransform(mask, net, scale_activation=CP.AffineCouplingTransform.GENERAL_SCALE_ACTIVATION, **kw),
                      CP.AffineCouplingTransform),
    "Additive": (lambda mask, net, **kw: CP.AdditiveCouplingTransform(mask, net, **kw), CP.AdditiveCouplingTransform),
    "PwLinear": (lambda mask, net, **kw: CP.PiecewiseLinearCouplingTransform(mask, net, num_bins=2, **kw), CP.PiecewiseLinearCouplingTransform),
    "PwLinearTails": (lambda mask, net, **kw: CP.PiecewiseLinearCouplingTransform(mask, net, num_bins=2, tails="linear", tail_bound=3.0, **kw), CP.PiecewiseLinearCouplingTransform),
    "PwQuadratic": (lambda mask, net, **kw: CP.PiecewiseQuadraticCouplingTransform(mask, net, num_bins=2, **kw), CP.PiecewiseQuadraticCouplingTransform),
    "PwQuadraticTails": (lambda mask, net, **kw: CP.PiecewiseQuadraticCouplingTransform(mask, net, num_bins=2, tails="linear", tail_bound=2.0, **kw), CP.PiecewiseQuadraticCouplingTransform),
    "PwCubic": (lambda mask, net, **kw: CP.PiecewiseCubicCouplingTransform(mask, net, num_bins=2, **kw), CP.PiecewiseCubicCouplingTransform),
    "PwRQ": (lambda mask, net, **kw: CP.PiecewiseRationalQuadraticCouplingTransform(mask, net, num_bins=2, **kw), CP.PiecewiseRationalQuadraticCouplingTransform),
    "PwRQTails": (lambda mask, net, **kw: CP.PiecewiseRationalQuadraticCouplingTransform(mask, net, num_bins=2, tails="linear", tail_bound=4.0, **kw),
                  CP.PiecewiseRationalQuadraticCouplingTransform),
}


def masks_for(D, tier):
    ms = [list(m) for m in itertools.product([0, 1], repeat=D) if 0 < sum(m) < D]
    extra = []
    if D == 3:
        extra = [[0.5, -2.0, 0.0], [-1, 2, 3]]
    return ms + extra


def coupling_harness(cname, mask, shape4d, mode, props, hidden=None, with_context=False, uncond=False, mutate_mask=False):
    """mode: forward | inverse | if (inverse o forward); uncond: apply_unconditional_transform=True (the identity features go through the class's
    own Piecewise...CDF transform, whose spline function is seen through the same spline contract)"""
    mkw = {"apply_unconditional_transform": True} if uncond else {}
    make, cls = CLASSES[cname]
    D = len(mask)
    shape = (2, D) if not shape4d else (2, D, 1, 2)
    ident = [i for i, m in enumerate(mask) if m <= 0]
    trans = [i for i, m in enumerate(mask) if m > 0]

    def run(h, ctx):
        nets = []

        def create(i, o):
            n = StubNet(i, o, hidden=hidden); nets.append(n); return n
        mask_t = torch.tensor(mask) if all(isinstance(v, int) for v in mask) else torch.tensor(mask, dtype=torch.float32)
        m = make(mask_t, create, **mkw)
        if mutate_mask:
            # the caller goes on using its mask tensor (SimpleRealNVP flips it in place for the next layer): the layer already built keeps the
            # feature sets of the mask it was constructed with
            mask_t.mul_(-1)
        m.eval()
        ctx.notes["random_draws"] = []        # draws of the constructor (parameter initialisation) are not draws of the evaluation
        h.nets = nets
        x = h.inp("x", shape)
        c = h.inp("context", (2, 2)) if with_context else None
        with all_splines_stubbed() as st:
            h.stubs = st.stubs
            if mode == "twice":
                # two consecutive evaluation-mode calls under no_grad with the same inputs and DIFFERENT contexts: the second call must be a
                # function of its own arguments only (no memo of the first call may leak into it)
                c2 = h.inp("context2", (2, 2))
                h.c2 = c2
                with torch.no_grad():
                    r1 = m.forward(x, c)
                    n1 = len(nets[0].shown)
                    r2 = m.forward(x, c2)
                h.n1 = n1
                return r1, r2
            if mode == "forward":
                return m.forward(x, c)
            if mode == "inverse":
                return m.inverse(x, c)
            y, ldf = m.forward(x, c)
            h.calls_fwd = {k: list(s.calls) for k, s in st.stubs.items()}
            for s in st.stubs.values(): s.calls.clear()
            x2, ldi = m.inverse(y, c)
            h.calls_inv = {k: list(s.calls) for k, s in st.stubs.items()}
            return y, ldf, x2, ldi

    def post(h, ctx, value):
        px = P(h.inputs["x"])
        B = px.shape[0]
        xid = {px[idx].get_id(): idx for idx in np.ndindex(*px.shape)}
        if mode == "twice":
            (o1, l1), (o2, l2) = value
            c1ids = {t.get_id() for t in P(h.inputs["context"]).reshape(-1)}
            shown = h.nets[0].shown
            ok = h.n1 == 1 and len(shown) == 2 and shown[1][1] is h.c2
            ensure(h, ctx, "C07.second-call-consults-conditioner-with-its-own-context", z3.BoolVal(bool(ok)))
            leak = [s_ for t in list(P(o2).reshape(-1)) + list(P(l2).reshape(-1)) for s_ in base_symbols(t) if s_ in c1ids]
            ensure(h, ctx, "C07.second-call-independent-of-first-context", z3.BoolVal(not leak))
            return
        if mode in ("forward", "inverse"):
            out, ld = value
            po, pl = P(out), P(ld)
            ensure(h, ctx, "C07.shapes", z3.BoolVal(tuple(po.shape) == tuple(px.shape) and tuple(pl.shape) == (B,)))
            if "C07" in props:
                # identity features: bit-for-bit the input (the very same symbol)
                if not uncond:
                    ok = all(z3.eq(po[(b, i) + sp], px[(b, i) + sp]) for b in range(B) for i in ident for sp in np.ndindex(*px.shape[2:]))
                    ensure(h, ctx, "C07.identity-untouched", z3.BoolVal(bool(ok)))
                else:
                    # identity features go through the unconditional transform: a function of the own input alone
                    ok = all(set(s_ for s_ in base_symbols(po[(b, i) + sp]) if s_ in xid) <= {px[(b, i) + sp].get_id()}
                             for b in range(B) for i in ident for sp in np.ndindex(*px.shape[2:]))
                    ensure(h, ctx, "C07.identity-features-unconditional", z3.BoolVal(bool(ok)))
                # the conditioner was shown exactly the identity split (and the context)
                shown_ok = len(h.nets) == 1 and len(h.nets[0].shown) == 1
                if shown_ok:
                    si, sc = h.nets[0].shown[0]
                    # the conditioner sees the identity features on the data side of the unconditional transform: the inputs of forward, the outputs of inverse
                    want = (po if (uncond and mode == "inverse") else px)[:, ident, ...]
                    shown_ok = tuple(P(si).shape) == tuple(want.shape) and all(z3.eq(a, b_) for a, b_ in zip(P(si).reshape(-1), want.reshape(-1)))
                    if with_context:
                        shown_ok = shown_ok and sc is h.inputs["context"]
                    else:
                        shown_ok = shown_ok and sc is None
                ensure(h, ctx, "C07.conditioner-sees-identity-only", z3.BoolVal(bool(shown_ok)))
                # transformed features: own input + identity features of the same item only; strictly monotone in the own input
                dep_ok = True
                for b in range(B):
                    for i in trans:
                        for sp in np.ndindex(*px.shape[2:]):
                            o = po[(b, i) + sp]
                            for sid in base_symbols(o):
                                if sid in xid:
                                    idx = xid[sid]
                                    if not (idx[0] == b and (idx == (b, i) + sp or idx[1] in ident)):
                                        dep_ok = False
                            ensure(h, ctx, "C07.monotone-in-own-input", diff(o, px[(b, i) + sp]) > 0)
                ensure(h, ctx, "C07.depends-on-own-input-and-identity-only", z3.BoolVal(dep_ok))
                poison = any("POISON" in str(z3.Z3_ast_to_string(t.ctx_ref(), t.as_ast()))[:2000] for t in po.reshape(-1) if False)
                pz = any(any(T.sym_by_id(s).decl().name().startswith("POISON") for s in base_symbols(t)) for t in po.reshape(-1))
                ensure(h, ctx, "C07.every-output-written", z3.BoolVal(not pz))
            if "C13" in props or "C07" in props:
                bad = [w for w in ctx.writes if w[0].startswith("arg:") or w[0] in ("param", "buffer")]
                ensure(h, ctx, "C13.no-write", z3.BoolVal(not bad), meta={"writes": [str(w) for w in bad][:3]})
            if "C12" in props:
                bad = [(b, xid[s]) for b in range(B) for t in list(po[b].reshape(-1)) + [pl[b]] for s in base_symbols(t) if s in xid and xid[s][0] != b]
                ensure(h, ctx, "C12.row-independent", z3.BoolVal(not bad))
            if "C01" in props and mode == "forward":
                for b in range(B):
                    prod = rv(1)
                    for i in (sorted(trans + ident) if uncond else trans):
                        for sp in np.ndindex(*px.shape[2:]):
                            prod = T.mul(prod, diff(po[(b, i) + sp], px[(b, i) + sp]))
                    numr, den = exp_of_term(pl[b])
                    ensure(h, ctx, "C01.logdet", z3.And(zabs(prod) * den == numr, prod != 0))
                if not uncond:
                    layout_clauses(h, ctx, h.stubs, px, trans)
        else:
            y, ldf, x2, ldi = value
            for a, b_ in zip(P(x2).reshape(-1), px.reshape(-1)):
                ensure(h, ctx, "C02.roundtrip_if", a == b_)
                ctx.assume(a == b_)
            for b in range(B):
                ensure_logs_cancel(h, ctx, "C02.neg-logdet", P(ldf)[b] + P(ldi)[b])

    def layout_clauses(h, ctx, stubs, px, trans):
        """piecewise couplings: the parameters handed to element (b, i, ...) are conditioner outputs of item b, no output is shared
        by two elements, and all outputs are used"""
        calls = [c for s in stubs.values() for c in s.calls]
        if not calls:
            return
        used = {}
        ok = True
        for idx, x, params, inv in calls:
            flat = [t for p in params for t in p]
            for t in flat:
                key = t.get_id()
                if key in used: ok = False
                used[key] = idx
        ensure(h, ctx, "C01.layout-parameters-disjoint", z3.BoolVal(ok))

    def native_module(inp):
        torch.manual_seed(0)
        from nflows.nn import nets
        def create(i, o):
            if shape4d:
                return nets.ConvResidualNet(i, o, hidden_channels=4, num_blocks=1, context_channels=None)
            return nets.ResidualNet(i, o, hidden_features=5, num_blocks=1, context_features=2 if with_context else None)
        mask_t = torch.tensor(mask) if all(isinstance(v, int) for v in mask) else torch.tensor(mask, dtype=torch.float32)
        m = make(mask_t, create, **mkw)
        if mutate_mask:
            mask_t.mul_(-1)
        m = native_cast(m)
        with torch.no_grad():
            g = torch.Generator().manual_seed(int(abs(float(np.asarray(inp["x"]).sum())) * 1000) % 100000)
            for p in m.parameters():
                p.copy_(torch.randn(p.shape, generator=g, dtype=p.dtype) * 0.7)
        m.eval()
        return m

    def native_call(h, inp):
        m = native_module(inp)
        x = tt(inp["x"]); c = tt(inp["context"]) if with_context and not shape4d else None
        if mode == "twice":
            with torch.no_grad():
                r1 = m.forward(x, c); r2 = m.forward(x, tt(inp["context2"]))
            return r1, r2
        if mode == "forward": return m.forward(x, c)
        if mode == "inverse": return m.inverse(x, c)
        y, ldf = m.forward(x, c)
        x2, ldi = m.inverse(y, c)
        return y, ldf, x2, ldi

    def native_clauses(h, inp, res):
        m = native_module(inp)
        x = tt(inp["x"]); c = tt(inp["context"]) if with_context and not shape4d else None
        out = {}
        if mode == "twice":
            with torch.no_grad():
                fresh2 = native_module(inp).forward(x, tt(inp["context2"]))
            same = bool(torch.allclose(res[1][0], fresh2[0], atol=1e-7)) and bool(torch.allclose(res[1][1], fresh2[1], atol=1e-7))
            return {"C07.second-call-consults-conditioner-with-its-own-context": same, "C07.second-call-independent-of-first-context": same}
        if mode in ("forward", "inverse"):
            o, ld = res
            f = m.forward if mode == "forward" else m.inverse
            if not uncond:
                out["C07.identity-untouched"] = bool(torch.equal(o[:, ident], x[:, ident]))
            x2 = x.clone(); x2[:, trans] += 0.37
            o2, _ = f(x2, c)
            J = torch.autograd.functional.jacobian(lambda z: f(z, c)[0], x)
            n = x[0].numel()
            Jb = [J.reshape(x.shape[0], n, x.shape[0], n)[b, :, b, :] for b in range(x.shape[0])]
            cross = all(float(J.reshape(x.shape[0], n, x.shape[0], n)[b, :, b2, :].abs().max()) == 0 for b in range(x.shape[0]) for b2 in range(x.shape[0]) if b != b2)
            out["C12.row-independent"] = cross
            sp = n // D
            tidx = [i * sp + k for i in trans for k in range(sp)]
            dep = True; mono = True
            for jb in Jb:
                for r in tidx:
                    row = jb[r].clone()
                    mono = mono and float(row[r]) > 0
                    row[r] = 0
                    for i in ident:
                        row[i * sp:(i + 1) * sp] = 0
                    dep = dep and float(row.abs().max()) == 0
            out["C07.depends-on-own-input-and-identity-only"] = dep; out["C07.monotone-in-own-input"] = mono
            out["C07.conditioner-sees-identity-only"] = dep
            if mode == "forward":
                out["C01.logdet"] = all(abs(float(torch.slogdet(jb)[1]) - float(ld[b])) < 1e-6 for b, jb in enumerate(Jb))
            before = x.clone(); sd0 = {k: v.clone() for k, v in m.state_dict().items()}
            f(x, c)
            out["C13.no-write"] = bool(torch.equal(before, x)) and all(torch.equal(sd0[k], v) for k, v in m.state_dict().items())
            out["C07.every-output-written"] = bool(torch.isfinite(o).all())
            out["C07.shapes"] = o.shape == x.shape and tuple(ld.shape) == (x.shape[0],)
        else:
            y, ldf, x2, ldi = res
            out["C02.roundtrip_if"] = bool(torch.allclose(x2, x, atol=1e-6))
            out["C02.neg-logdet"] = bool(torch.allclose(ldf + ldi, torch.zeros_like(ldf), atol=1e-6))
        return out

    def sample(h, rng):
        lo, hi = (0.05, 0.95) if cname in ("PwLinear", "PwQuadratic", "PwCubic", "PwRQ") else (-2.5, 2.5)
        d = {"x": rng.uniform(lo, hi, size=shape)}
        if with_context:
            d["context"] = rng.normal(size=(2, 2))
        if mode == "twice":
            d["context2"] = rng.normal(size=(2, 2))
        return d

    hid = f"coupling_{cname}[mask={','.join(str(v) for v in mask)},{'4d' if shape4d else '2d'},{mode}{',hidden' if hidden else ''}{',ctx' if with_context else ''}{',uncond' if uncond else ''}{',mask-mutated-after-construction' if mutate_mask else ''}]"
    return Harness(hid, run, post, native_call=native_call, native_clauses=native_clauses, sample=sample,
                   functions=[CP.CouplingTransform.forward, CP.CouplingTransform.inverse, CP.CouplingTransform.__init__, cls._coupling_transform_forward if hasattr(cls, "_coupling_transform_forward") else cls.forward],
                   config={"class": cname, "mask": [float(v) for v in mask], "4d": shape4d, "mode": mode})


def coupling_harnesses(props, tier, modes=("forward", "inverse")):
    hs = []
    for cname in CLASSES:
        Ds = (2, 3)
        for D in Ds:
            ms = masks_for(D, tier)
            if (tier == "quick" and cname not in ("Affine", "PwRQTails")) or (tier != "quick" and cname in ("AffineGeneral", "PwLinearTails", "PwQuadraticTails") and D == 3):
                ms = ms[:1] + ms[-1:] if D == 3 else ms[:1]
            for mask in ms:
                for shape4d in (False, True):
                    if shape4d and D > 3: continue
                    for mode in modes:
                        if cname == "PwCubic" and mode in ("inverse", "if") and False:
                            continue
                        hs.append(coupling_harness(cname, mask, shape4d, mode, props))
    for mode in modes:
        hs.append(coupling_harness("Affine", [1, 0, 1], False, mode, props, with_context=True))
        if "C07" in props:
            hs.append(coupling_harness("Affine", [1, -1, 1], False, mode, props, mutate_mask=True))
            hs.append(coupling_harness("PwRQTails", [-1, 1], False, mode, props, mutate_mask=True))
        if mode == "forward" and "C07" in props:
            hs.append(coupling_harness("Affine", [1, 0], False, "twice", props, with_context=True))
            hs.append(coupling_harness("PwRQTails", [0, 1], False, "twice", props, with_context=True))
        hs.append(coupling_harness("PwRQTails", [0, 1], False, mode, props, hidden=4))
        hs.append(coupling_harness("PwQuadratic", [0, 1], True, mode, props, hidden=4))
        for cname in ("PwRQTails", "PwLinear") if tier == "quick" else ("PwRQTails", "PwRQ", "PwLinear", "PwQuadratic", "PwCubic"):
            hs.append(coupling_harness(cname, [1, 0], False, mode, props, uncond=True))
            hs.append(coupling_harness(cname, [0, 1, 0], False, mode, props, uncond=True))
    return hs
