"""contracts for CompositeTransform / InverseTransform / MultiscaleCompositeTransform (C08).

Stages are tagged uninterpreted elementwise maps g_s with inverses and per-element log-dets lambda_s (deliberately
non-commuting: distinct function symbols), so the order of application is visible in the result term."""
import itertools
import numpy as np
import torch, z3
from torch import nn
from tsv.core import Sym, P, C, fresh, toreal, rv, is_num, num, R
from tsv.harness import Harness
from tsv import terms as T
from .common import *
from nflows.transforms import base as TB


def G(tag): return z3.Function(f"g_{tag}", R, R)
def GI(tag): return z3.Function(f"ginv_{tag}", R, R)
def LAM(tag): return z3.Function(f"lam_{tag}", R, R)


def apply_fwd(tag, arr):
    out = np.empty(arr.shape, dtype=object)
    for idx in np.ndindex(*arr.shape):
        out[idx] = G(tag)(arr[idx])
    return out


def apply_inv(tag, arr):
    out = np.empty(arr.shape, dtype=object)
    for idx in np.ndindex(*arr.shape):
        out[idx] = GI(tag)(arr[idx])
    return out


def ld_fwd(tag, arr):
    """per batch row: sum of lambda_tag over the row's elements"""
    return [sum((LAM(tag)(t) for t in arr[b].reshape(-1)), rv(0)) for b in range(arr.shape[0])]


def ld_inv(tag, arr_out):
    return [-sum((LAM(tag)(t) for t in arr_out[b].reshape(-1)), rv(0)) for b in range(arr_out.shape[0])]


class Stage(TB.Transform):
    def __init__(self, tag):
        super().__init__()
        self.tag = tag
        self.calls = []

    def forward(self, inputs, context=None):
        p = np.vectorize(toreal, otypes=[object])(P(inputs)) if P(inputs).size else P(inputs)
        ctx = C()
        out = apply_fwd(self.tag, p)
        for a, o in zip(p.reshape(-1), out.reshape(-1)):
            ctx.axiom([o], GI(self.tag)(o) == a)
        self.calls.append(("fwd", context))
        return Sym.make(out, inputs.dtype), Sym.make(obj_list(ld_fwd(self.tag, p)), inputs.dtype)

    def inverse(self, inputs, context=None):
        p = np.vectorize(toreal, otypes=[object])(P(inputs)) if P(inputs).size else P(inputs)
        ctx = C()
        out = apply_inv(self.tag, p)
        for a, o in zip(p.reshape(-1), out.reshape(-1)):
            ctx.axiom([o], G(self.tag)(o) == a)
        self.calls.append(("inv", context))
        return Sym.make(out, inputs.dtype), Sym.make(obj_list(ld_inv(self.tag, out)), inputs.dtype)


def obj_list(lst):
    a = np.empty((len(lst),), dtype=object)
    for i, v in enumerate(lst):
        a[i] = v
    return a


def same_terms(a, b):
    return tuple(a.shape) == tuple(b.shape) and all(z3.eq(x, y) for x, y in zip(a.reshape(-1), b.reshape(-1)))


# ---- reference models (spec functions over symbol arrays) ------------------------------------------------------
def spec_composite(tags, x, inverse=False):
    lds = [rv(0)] * x.shape[0]
    cur = x
    seq = tags if not inverse else list(reversed(tags))
    for t in seq:
        kind, tag = t
        eff_inverse = (kind == "inv") != inverse
        if eff_inverse:
            cur = apply_inv(tag, cur); l = ld_inv(tag, cur)
        else:
            l = ld_fwd(tag, cur); cur = apply_fwd(tag, cur)
        lds = [a + b for a, b in zip(lds, l)]
    return cur, lds


def spec_multiscale_forward(tags, x, split_dim):
    """documented routing: after every stage but the last, the first ceil(n/2) slices along split_dim leave"""
    B = x.shape[0]
    hid = x
    outs, lds = [], [rv(0)] * B
    for i, tag in enumerate(tags):
        l = ld_fwd(tag, hid)
        lds = [a + b for a, b in zip(lds, l)]
        t = apply_fwd(tag, hid)
        if i < len(tags) - 1:
            n = t.shape[split_dim]
            k = (n + 1) // 2
            ix_a = [slice(None)] * t.ndim; ix_a[split_dim] = slice(0, k)
            ix_b = [slice(None)] * t.ndim; ix_b[split_dim] = slice(k, n)
            outs.append(t[tuple(ix_a)].reshape(B, -1)); hid = t[tuple(ix_b)]
        else:
            outs.append(t.reshape(B, -1))
    return np.concatenate(outs, axis=1), lds


def build_multiscale(tags, shape, split_dim):
    m = TB.MultiscaleCompositeTransform(num_transforms=len(tags), split_dim=split_dim)
    cur = tuple(shape[1:])
    stages = []
    for tag in tags:
        st = Stage(tag); stages.append(st)
        cur = m.add_transform(st, cur)
    return m, stages


def multiscale_harness(shape, split_dim, nstages, mode, props=("C08",)):
    tags = [f"s{i}" for i in range(nstages)]

    def run(h, ctx):
        m, stages = build_multiscale(tags, shape, split_dim)
        h.stages = stages
        x = h.inp("x", shape)
        c = h.inp("context", (shape[0], 1))
        h.ctx_t = c
        y, ld = m.forward(x, c)
        if mode == "forward":
            return y, ld
        x2, ldi = m.inverse(y, c)
        return y, ld, x2, ldi

    def post(h, ctx, value):
        px = P(h.inputs["x"])
        want, wl = spec_multiscale_forward(tags, px, split_dim)
        y, ld = value[0], value[1]
        ensure(h, ctx, "C08.routing", z3.BoolVal(bool(same_terms(P(y), want))), meta={"shape": list(P(y).shape)})
        for b in range(px.shape[0]):
            ensure(h, ctx, "C08.logdet-sum", P(ld)[b] == wl[b])
        # every stage, the last (unsplit) one included, is called with the caller's context, in both directions
        ensure(h, ctx, "C08.context-passed", z3.BoolVal(all(st.calls and all(c_ is h.ctx_t for _, c_ in st.calls) for st in h.stages)))
        # each input coordinate reaches exactly one output position
        from tsv.terms import base_symbols
        seen = {}
        ok = True
        for t in P(y).reshape(-1):
            s = [i for i in base_symbols(t)]
            if len(s) != 1 or s[0] in seen: ok = False
            else: seen[s[0]] = True
        ensure(h, ctx, "C08.one-output-per-coordinate", z3.BoolVal(ok and len(seen) == px.size))
        if mode == "if":
            x2, ldi = value[2], value[3]
            ensure(h, ctx, "C08.inverse-shape", z3.BoolVal(tuple(P(x2).shape) == tuple(px.shape)))
            if tuple(P(x2).shape) == tuple(px.shape):
                for a, b_ in zip(P(x2).reshape(-1), px.reshape(-1)):
                    ensure(h, ctx, "C08.inverse-undoes-routing", a == b_)
                    ctx.assume(a == b_)
            for b in range(px.shape[0]):
                ensure(h, ctx, "C08.inverse-logdet", P(ld)[b] + P(ldi)[b] == 0)
        ensure(h, ctx, "C13.no-write", z3.BoolVal(not [w for w in ctx.writes if w[0].startswith("arg:")]))

    def native_build():
        from nflows.transforms import nonlinearities as NL, standard as ST
        m = TB.MultiscaleCompositeTransform(num_transforms=nstages, split_dim=split_dim)
        cur = tuple(shape[1:])
        for i in range(nstages):
            st = TB.CompositeTransform([ST.PointwiseAffineTransform(shift=0.1 * (i + 1), scale=1.5 + i), NL.LeakyReLU(negative_slope=0.3 + 0.1 * i)])
            cur = m.add_transform(st, cur)
        return m.to(NATIVE_DTYPE[0])

    def native_call(h, inp):
        m = native_build(); x = tt(inp["x"])
        y, ld = m.forward(x)
        if mode == "forward": return y, ld
        x2, ldi = m.inverse(y)
        return y, ld, x2, ldi

    def native_clauses(h, inp, res):
        m = native_build(); x = tt(inp["x"])
        y, ld = res[0], res[1]
        # reference routing computed independently with numpy on the stage functions
        def stage(i, a):
            a = a * (1.5 + i) + 0.1 * (i + 1)
            return np.where(a >= 0, a, a * (0.3 + 0.1 * i))
        def stage_ld(i, a):
            a2 = a * (1.5 + i) + 0.1 * (i + 1)
            return (np.log(1.5 + i) + np.where(a2 < 0, np.log(0.3 + 0.1 * i), 0.0)).reshape(a.shape[0], -1).sum(1)
        hid = np.asarray(inp["x"], dtype=float); outs = []; tot = np.zeros(hid.shape[0])
        for i in range(nstages):
            tot += stage_ld(i, hid); t = stage(i, hid)
            if i < nstages - 1:
                n = t.shape[split_dim]; k = (n + 1) // 2
                a, hid = np.split(t, [k], axis=split_dim); outs.append(a.reshape(a.shape[0], -1))
            else:
                outs.append(t.reshape(t.shape[0], -1))
        want = np.concatenate(outs, 1)
        c = {"C08.routing": tuple(y.shape) == want.shape and bool(np.allclose(y.numpy(), want, atol=1e-9)),
             "C08.logdet-sum": bool(np.allclose(ld.numpy(), tot, atol=1e-9)), "C08.one-output-per-coordinate": y.numel() == x.numel()}
        if mode == "if":
            x2, ldi = res[2], res[3]
            c["C08.inverse-shape"] = x2.shape == x.shape
            c["C08.inverse-undoes-routing"] = x2.shape == x.shape and bool(torch.allclose(x2, x, atol=1e-9))
            c["C08.inverse-logdet"] = bool(torch.allclose(ld + ldi, torch.zeros_like(ld), atol=1e-9))
        return c
    return Harness(f"multiscale[shape={'x'.join(map(str, shape))},split_dim={split_dim},stages={nstages},{mode}]", run, post, native_call=native_call,
                   native_clauses=native_clauses, sample=lambda h, rng: {"x": rng.normal(size=shape)},
                   functions=[TB.MultiscaleCompositeTransform.forward, TB.MultiscaleCompositeTransform.inverse, TB.MultiscaleCompositeTransform.add_transform],
                   config={"shape": list(shape), "split_dim": split_dim, "stages": nstages})


def make_nested(desc, stages):
    """desc: nested description: ("s", tag) | ("inv", desc) | ("comp", [descs])"""
    k = desc[0]
    if k == "s":
        st = Stage(desc[1]); stages.append(st); return st
    if k == "inv":
        return TB.InverseTransform(make_nested(desc[1], stages))
    return TB.CompositeTransform([make_nested(d, stages) for d in desc[1]])


def flatten_desc(desc, inverted=False):
    """sequence of ("fwd"|"inv", tag) in application order for forward evaluation"""
    k = desc[0]
    if k == "s":
        return [("inv" if inverted else "fwd", desc[1])]
    if k == "inv":
        return flatten_desc(desc[1], not inverted)
    seq = [flatten_desc(d, inverted) for d in desc[1]]
    if inverted:
        seq = list(reversed(seq))
    return [t for s in seq for t in s]


def composite_harness(name, desc, shape, direction):
    def run(h, ctx):
        stages = []
        m = make_nested(desc, stages)
        h.stages = stages
        x = h.inp("x", shape)
        c = h.inp("context", (shape[0], 1))
        h.ctx_t = c
        return m.forward(x, c) if direction == "forward" else m.inverse(x, c)

    def post(h, ctx, value):
        out, ld = value
        px = P(h.inputs["x"])
        seq = flatten_desc(desc)
        want, wl = spec_composite(seq, np.vectorize(toreal, otypes=[object])(px) if px.size else px, inverse=(direction == "inverse"))
        ensure(h, ctx, "C08.composition-order", z3.BoolVal(bool(same_terms(P(out), want))))
        for b in range(px.shape[0]):
            ensure(h, ctx, "C08.logdet-sum", P(ld)[b] == wl[b])
        ensure(h, ctx, "C08.context-passed", z3.BoolVal(all(all(c is h.ctx_t for _, c in st.calls) for st in h.stages)))
        ensure(h, ctx, "C13.no-write", z3.BoolVal(not [w for w in ctx.writes if w[0].startswith("arg:")]))
        # induction over the number of stages: the loop of _cascade carries (outputs, total_logabsdet) and nothing else from one iteration to the
        # next, and the stages are uninterpreted, so a composite of n stages is the two-stage case with an arbitrary first stage
        from tsv.instrument import loop_carried
        from nflows.transforms.base import CompositeTransform
        lc = loop_carried(CompositeTransform._cascade)
        ctx.oblige("proof-side-condition", z3.BoolVal(len(lc) == 1 and len(lc[0][1]) == 2), label="C08.cascade-loop-carries-outputs-and-total-only",
                   loc=("contract", h.hid.split("[")[0], 0), meta={"loops": str(lc)})

    def native_build():
        from nflows.transforms import nonlinearities as NL, standard as ST
        cnt = [0]

        def mk(d):
            if d[0] == "s":
                i = cnt[0]; cnt[0] += 1
                return TB.CompositeTransform([ST.PointwiseAffineTransform(shift=0.1 * (i + 1), scale=1.5 + i), NL.LeakyReLU(negative_slope=0.3 + 0.1 * i)])
            if d[0] == "inv":
                return TB.InverseTransform(mk(d[1]))
            return TB.CompositeTransform([mk(x) for x in d[1]])
        return mk(desc).to(NATIVE_DTYPE[0])

    def native_call(h, inp):
        m = native_build(); x = tt(inp["x"]); c = tt(inp["context"])
        return m.forward(x, c) if direction == "forward" else m.inverse(x, c)

    def native_clauses(h, inp, res):
        out, ld = res
        seq = flatten_desc(desc)
        if direction == "inverse":
            seq = [("inv" if k == "fwd" else "fwd", t) for k, t in reversed(seq)]
        order = {}

        def number(d):
            if d[0] == "s": order[d[1]] = len(order)
            elif d[0] == "inv": number(d[1])
            else:
                for x in d[1]: number(x)
        number(desc)
        a = np.asarray(inp["x"], dtype=float); tot = np.zeros(a.shape[0])
        for k, tag in seq:
            i = order[tag]; sc, sh, sl = 1.5 + i, 0.1 * (i + 1), 0.3 + 0.1 * i
            if k == "fwd":
                a2 = a * sc + sh
                tot += (np.log(sc) + np.where(a2 < 0, np.log(sl), 0.0)).reshape(a.shape[0], -1).sum(1)
                a = np.where(a2 >= 0, a2, a2 * sl)
            else:
                tot -= (np.log(sc) + np.where(a < 0, np.log(sl), 0.0)).reshape(a.shape[0], -1).sum(1)
                a = (np.where(a >= 0, a, a / sl) - sh) / sc
        return {"C08.composition-order": bool(np.allclose(out.numpy(), a, atol=1e-9)), "C08.logdet-sum": bool(np.allclose(ld.numpy(), tot, atol=1e-9))}
    return Harness(f"composite_{name}[shape={'x'.join(map(str, shape))},{direction}]", run, post, native_call=native_call, native_clauses=native_clauses,
                   sample=lambda h, rng: {"x": rng.normal(size=shape), "context": rng.normal(size=(shape[0], 1))},
                   functions=[TB.CompositeTransform._cascade, TB.CompositeTransform.forward, TB.CompositeTransform.inverse, TB.InverseTransform.forward, TB.InverseTransform.inverse])


def multiscale_errors_harness():
    """documented ValueError / RuntimeError / TypeError of MultiscaleCompositeTransform"""
    def run(h, ctx):
        got = {}
        def tryit(name, f):
            try:
                f(); got[name] = None
            except Exception as e:
                got[name] = type(e)
        x = h.inp("x", (2, 4))
        tryit("split_dim-not-positive", lambda: TB.MultiscaleCompositeTransform(2, split_dim=0))
        m = TB.MultiscaleCompositeTransform(2, split_dim=1)
        tryit("forward-too-few-transforms", lambda: m.forward(x))
        tryit("size<2", lambda: TB.MultiscaleCompositeTransform(2, split_dim=1).add_transform(Stage("a"), (1,)))
        tryit("no-split-dim-in-shape", lambda: TB.MultiscaleCompositeTransform(2, split_dim=2).add_transform(Stage("a"), (4,)))
        m2, _ = build_multiscale(["a", "b"], (2, 4), 1)
        tryit("too-many", lambda: m2.add_transform(Stage("c"), (2,)))
        m3, _ = build_multiscale(["a"], (2, 4), 1)
        m3._split_dim = 2
        tryit("forward-no-split-dim", lambda: m3.forward(x))
        tryit("inverse-not-flat", lambda: m2.inverse(h.inp("y", (2, 2, 2))))
        return got

    WANT = {"split_dim-not-positive": TypeError, "forward-too-few-transforms": RuntimeError, "size<2": ValueError, "no-split-dim-in-shape": ValueError,
            "too-many": RuntimeError, "forward-no-split-dim": ValueError, "inverse-not-flat": ValueError}

    def post(h, ctx, got):
        for k, w in WANT.items():
            ensure(h, ctx, "C08.documented-error", z3.BoolVal(got.get(k) is w), meta={"case": k, "got": str(got.get(k))})
    return Harness("multiscale_errors[]", run, post, functions=[TB.MultiscaleCompositeTransform.__init__, TB.MultiscaleCompositeTransform.add_transform], check_defined=False)


def composite_harnesses(tier):
    hs = []
    S = lambda t: ("s", t)
    descs = {
        "empty": ("comp", []),
        "one": ("comp", [S("a")]),
        "two": ("comp", [S("a"), S("b")]),
        "three": ("comp", [S("a"), S("b"), S("c")]),
        "inverse_of_stage": ("inv", S("a")),
        "inverse_of_composite": ("inv", ("comp", [S("a"), S("b"), S("c")])),
        "composite_with_inverse_inside": ("comp", [S("a"), ("inv", S("b")), S("c")]),
        "nested_composites": ("comp", [("comp", [S("a"), S("b")]), ("inv", ("comp", [S("c"), ("inv", S("d"))]))]),
        "double_inverse": ("inv", ("inv", ("comp", [S("a"), S("b")]))),
    }
    for name, d in descs.items():
        for shape in ((2, 2), (1, 2, 1, 2)):
            for direction in ("forward", "inverse"):
                hs.append(composite_harness(name, d, shape, direction))
    shapes = [((2, 4), 1), ((2, 5), 1), ((1, 2, 3), 1), ((1, 2, 3), 2), ((1, 3, 2, 2), 1), ((1, 2, 4, 2), 2), ((1, 2, 2, 5), 3)]
    if tier != "quick":
        shapes += [((2, 7), 1), ((2, 8), 1), ((1, 4, 3), 1), ((1, 3, 5), 2), ((1, 5, 2, 2), 1), ((1, 2, 5, 3), 2), ((1, 2, 3, 4), 3), ((2, 3, 3, 3), 1)]
    for shape, sd in shapes:
        for n in (1, 2, 3):
            size = shape[sd]
            ok = True; s = size
            for i in range(n):
                if s < 2: ok = False
                s = s // 2
            if not ok: continue
            for mode in ("forward", "if"):
                hs.append(multiscale_harness(shape, sd, n, mode))
    hs.append(multiscale_errors_harness())
    return hs
