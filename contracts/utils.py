"""contracts for nflows.utils.torchutils / typechecks (C20): index specifications and `assigns nothing`"""
import itertools
import numpy as np
import torch, z3
from tsv.core import Sym, P, C, fresh, toreal, rv, is_num, num
from tsv.harness import Harness
from tsv.ops import s_exp
from tsv import terms as T
from .common import *
from nflows.utils import torchutils as TU, typechecks as TC


def no_arg_writes(h, ctx):
    bad = [w for w in ctx.writes if w[0].startswith("arg:")]
    ensure(h, ctx, "C20.assigns-nothing", z3.BoolVal(not bad), meta={"writes": [str(w) for w in bad][:3]})


def same(a, b):
    return z3.BoolVal(bool(z3.eq(a, b)))


def native_unchanged(fn, inp, keys):
    ts = {k: tt(inp[k]) for k in keys}
    before = {k: v.clone() for k, v in ts.items()}
    fn(ts)
    return all(torch.equal(before[k], ts[k]) for k in keys)


def data_movement_harness(name, shape, call, spec, func, extra=None):
    """result must be, element for element, the input symbol the spec names (syntactic identity = exact)"""
    def run(h, ctx):
        x = h.inp("x", shape)
        return call(x)

    def post(h, ctx, out):
        x = P(h.inputs["x"])
        want = spec(x)
        po = P(out)
        ok = tuple(po.shape) == tuple(want.shape) and all(z3.eq(a, b) for a, b in zip(po.reshape(-1), want.reshape(-1)))
        ensure(h, ctx, "C20.spec", z3.BoolVal(bool(ok)), meta={"got_shape": list(po.shape), "want_shape": list(want.shape)})
        no_arg_writes(h, ctx)

    def native_call(h, inp):
        return call(tt(inp["x"]))

    def native_clauses(h, inp, res):
        want = spec(np.asarray(inp["x"]))
        return {"C20.spec": tuple(res.shape) == tuple(want.shape) and bool(np.array_equal(res.numpy(), want)),
                "C20.assigns-nothing": native_unchanged(lambda ts: call(ts["x"]), inp, ["x"])}

    def sample(h, rng):
        return {"x": rng.normal(size=shape)}
    return Harness(f"{name}[shape={'x'.join(map(str, shape))}{extra or ''}]", run, post, native_call=native_call, native_clauses=native_clauses,
                   sample=sample, functions=[func], config={"shape": list(shape)})


def utils_harnesses(tier):
    hs = []
    shapes = [(1,), (3,), (2, 2), (2, 3), (3, 1, 2)] if tier == "quick" else [(1,), (2,), (3,), (1, 1), (2, 2), (2, 3), (3, 2), (3, 1, 2), (2, 2, 2), (2, 3, 3), (3, 3, 3)]
    ns = (1, 2, 3) if tier == "quick" else (1, 2, 3, 4)
    for shp in shapes:
        for n in ns:
            hs.append(data_movement_harness("tile", shp, lambda x, n=n: TU.tile(x, n), lambda a, n=n: np.repeat(a.reshape(-1), n), TU.tile, f",n={n}"))
            hs.append(data_movement_harness("repeat_rows", shp, lambda x, n=n: TU.repeat_rows(x, num_reps=n), lambda a, n=n: np.repeat(a, n, axis=0), TU.repeat_rows, f",n={n}"))
        for k in range(0, len(shp) + 1):
            hs.append(sum_except_batch_harness(shp, k))
        for nd in range(1, len(shp) + 1):
            hs.append(data_movement_harness("merge_leading_dims", shp, lambda x, nd=nd: TU.merge_leading_dims(x, nd),
                                            lambda a, nd=nd: a.reshape((-1,) + a.shape[nd:]), TU.merge_leading_dims, f",k={nd}"))
            hs.append(data_movement_harness("split_merge", shp, lambda x, nd=nd: TU.split_leading_dim(TU.merge_leading_dims(x, nd), x.shape[:nd]),
                                            lambda a: a, TU.split_leading_dim, f",k={nd}"))
    for lead, split in (((6,), (2, 3)), ((4, 2), (2, 2)), ((6, 1, 2), (3, 2))):
        hs.append(data_movement_harness("merge_split", lead, lambda x, s=split: TU.merge_leading_dims(TU.split_leading_dim(x, s), len(s)),
                                        lambda a: a, TU.merge_leading_dims, f",split={'x'.join(map(str, split))}"))
    hs.append(type_errors_harness())
    for K in ((1, 2, 3) if tier == "quick" else (1, 2, 3, 5)):
        for lead in ((1,), (2,)):
            hs.append(searchsorted_harness(K, lead))
    hs.append(cbrt_harness())
    for D in (1, 2, 3):
        hs.append(logabsdet_harness(D))
    for f in range(1, 7 if tier == "quick" else 9):
        hs.append(mask_harness("alternating_even", f)); hs.append(mask_harness("alternating_odd", f)); hs.append(mask_harness("mid_split", f))
    for f in range(1, 4 if tier == "quick" else 5):
        hs.append(mask_harness("random", f))
    hs.append(typechecks_harness())
    hs.append(temperature_harness())
    return hs


def sum_except_batch_harness(shape, k):
    def run(h, ctx):
        return TU.sum_except_batch(h.inp("x", shape), num_batch_dims=k)

    def post(h, ctx, out):
        x = P(h.inputs["x"]); po = P(out)
        ok = tuple(po.shape) == tuple(shape[:k])
        ensure(h, ctx, "C20.shape", z3.BoolVal(ok))
        if ok:
            for idx in np.ndindex(*shape[:k]):
                tot = rv(0)
                for t in np.asarray(x[idx], dtype=object).reshape(-1):
                    tot = tot + t
                ensure(h, ctx, "C20.spec", po[idx] == tot)
        no_arg_writes(h, ctx)

    def native_clauses(h, inp, res):
        a = np.asarray(inp["x"])
        want = a.reshape(shape[:k] + (-1,)).sum(-1) if k < len(shape) else a
        return {"C20.spec": bool(np.allclose(res.numpy(), want, atol=1e-12)), "C20.shape": tuple(res.shape) == tuple(shape[:k])}
    return Harness(f"sum_except_batch[shape={'x'.join(map(str, shape))},k={k}]", run, post, native_call=lambda h, inp: TU.sum_except_batch(tt(inp["x"]), k),
                   native_clauses=native_clauses, sample=lambda h, rng: {"x": rng.normal(size=shape)}, functions=[TU.sum_except_batch])


def type_errors_harness():
    """documented TypeError / ValueError of the helpers (concrete arguments)"""
    cases = []
    for bad in (0, -1, 2.0, "3", None):
        cases += [("tile", lambda x, b=bad: TU.tile(x, b), TypeError), ("repeat_rows", lambda x, b=bad: TU.repeat_rows(x, b), TypeError),
                  ("merge_leading_dims", lambda x, b=bad: TU.merge_leading_dims(x, b), TypeError)]
    for bad in (-1, 2.0, "3", None):
        cases.append(("sum_except_batch", lambda x, b=bad: TU.sum_except_batch(x, b), TypeError))
    cases.append(("merge_leading_dims>dim", lambda x: TU.merge_leading_dims(x, 3), ValueError))

    def run(h, ctx):
        x = h.inp("x", (2, 2))
        got = []
        for name, f, exc in cases:
            try:
                f(x); got.append((name, None))
            except Exception as e:
                got.append((name, type(e)))
        return got

    def post(h, ctx, got):
        for (name, f, exc), (_, e) in zip(cases, got):
            ensure(h, ctx, "C20.raises", z3.BoolVal(e is exc), meta={"helper": name, "got": str(e)})

    def native_clauses(h, inp, res):
        return {"C20.raises": all(e is exc for (n, f, exc), (_, e) in zip(cases, res))}
    return Harness("helper_type_errors[]", run, post, native_call=lambda h, inp: run_native(cases, inp), native_clauses=native_clauses,
                   sample=lambda h, rng: {"x": rng.normal(size=(2, 2))}, functions=[TU.tile, TU.repeat_rows, TU.merge_leading_dims, TU.sum_except_batch],
                   check_defined=False)


def run_native(cases, inp):
    x = tt(inp["x"]); got = []
    for name, f, exc in cases:
        try:
            f(x); got.append((name, None))
        except Exception as e:
            got.append((name, type(e)))
    return got


def searchsorted_harness(K, lead):
    """sorted locations l_0 < ... < l_K; input x with l_0 <= x <= l_K: result k has l_k <= x < l_{k+1}, last bin closed"""
    def run(h, ctx):
        locs = h.inp("locs", lead + (K + 1,)); x = h.inp("x", lead)
        pl = P(locs)
        for idx in np.ndindex(*lead):
            for k in range(K):
                ctx.assume(pl[idx + (k,)] < pl[idx + (k + 1,)])
            ctx.assume(P(x)[idx] >= pl[idx + (0,)]); ctx.assume(P(x)[idx] <= pl[idx + (K,)])
        return TU.searchsorted(locs, x)

    def post(h, ctx, out):
        pl, px, po = P(h.inputs["locs"]), P(h.inputs["x"]), P(out)
        ensure(h, ctx, "C20.shape", z3.BoolVal(tuple(po.shape) == tuple(lead) and out.dtype == torch.int64))
        for idx in np.ndindex(*lead):
            k = po[idx]; x = px[idx]
            cl = []
            for j in range(K):
                inbin = z3.And(pl[idx + (j,)] <= x, x < pl[idx + (j + 1,)]) if j < K - 1 else z3.And(pl[idx + (j,)] <= x, x <= pl[idx + (j + 1,)])
                cl.append(z3.Implies(inbin, k == j))
            ensure(h, ctx, "C20.spec", z3.And(cl + [k >= 0, k <= K - 1]))
        no_arg_writes(h, ctx)

    def native_call(h, inp):
        return TU.searchsorted(tt(inp["locs"]), tt(inp["x"]))

    def native_clauses(h, inp, res):
        locs, x = np.asarray(inp["locs"]), np.asarray(inp["x"])
        ok = True
        for idx in np.ndindex(*lead):
            k = int(res[idx]); l = locs[idx]
            ok = ok and 0 <= k <= K - 1 and l[k] <= x[idx] and (x[idx] < l[k + 1] or (k == K - 1 and x[idx] <= l[k + 1]))
        return {"C20.spec": bool(ok), "C20.shape": tuple(res.shape) == tuple(lead),
                "C20.assigns-nothing": native_unchanged(lambda ts: TU.searchsorted(ts["locs"], ts["x"]), inp, ["locs", "x"])}

    def sample(h, rng):
        locs = np.cumsum(np.abs(rng.normal(size=lead + (K + 1,))) + 0.05, axis=-1) * rng.choice([1.0, 50.0])
        u = rng.choice([0.0, 1.0, rng.uniform()], size=lead)
        x = locs[..., 0] + u * (locs[..., -1] - locs[..., 0])
        if rng.uniform() < 0.5 and K > 1:
            x = locs[..., rng.integers(0, K + 1)].copy()
        return {"locs": locs, "x": x}
    hn = Harness(f"searchsorted[K={K},lead={'x'.join(map(str, lead))}]", run, post, native_call=native_call, native_clauses=native_clauses,
                 sample=sample, functions=[TU.searchsorted])
    hn.clauses32 = True      # the index specification is also evaluated in float32 (the last-bin closure is a rounding question)
    return hn


def cbrt_harness():
    def run(h, ctx):
        x = h.inp("x", (2,))
        for t in P(x): ctx.assume(t != 0)
        return TU.cbrt(x)

    def post(h, ctx, out):
        for o, x in zip(P(out), P(h.inputs["x"])):
            # exponent law instance exp(a)^3 = exp(3a) for the exponentials of this path (trusted base: exp laws)
            for a, e in list(ctx.notes.get("exps", [])):
                ctx.axiom([e], e * e * e == s_exp(z3.simplify(3 * a, som=True)))
            ensure(h, ctx, "C20.cbrt-cubed", o * o * o == x)
            ensure(h, ctx, "C20.cbrt-sign", (o > 0) == (x > 0))
        no_arg_writes(h, ctx)

    def native_clauses(h, inp, res):
        x = tt(inp["x"])
        z = TU.cbrt(torch.zeros(1, dtype=torch.float64))
        return {"C20.cbrt-cubed": bool(torch.allclose(res ** 3, x, rtol=1e-9, atol=1e-12)), "C20.cbrt-sign": bool(((res > 0) == (x > 0)).all()),
                "C20.cbrt-zero": bool(z[0] == 0)}

    def sample(h, rng):
        return {"x": rng.normal(size=(2,)) * rng.choice([1e-3, 1.0, 1e3])}
    return Harness("cbrt[]", run, post, native_call=lambda h, inp: TU.cbrt(tt(inp["x"])), native_clauses=native_clauses, sample=sample, functions=[TU.cbrt])


def logabsdet_harness(D):
    def run(h, ctx):
        a = h.inp("a", (D, D))
        from tsv.ops_move import det_cofactor
        h.det = det_cofactor(P(a))
        ctx.assume(h.det != 0)
        return TU.logabsdet(a)

    def post(h, ctx, out):
        numr, den = exp_of_loglin(el(out))[1:]
        ensure(h, ctx, "C20.logabsdet", z3.And(numr == z3.If(h.det >= 0, h.det, -h.det) * den))
        no_arg_writes(h, ctx)

    def native_clauses(h, inp, res):
        return {"C20.logabsdet": bool(abs(float(res) - float(np.log(abs(np.linalg.det(np.asarray(inp["a"])))))) < 1e-8)}
    return Harness(f"logabsdet[D={D}]", run, post, native_call=lambda h, inp: TU.logabsdet(tt(inp["a"])), native_clauses=native_clauses,
                   sample=lambda h, rng: {"a": rng.normal(size=(D, D))}, functions=[TU.logabsdet])


def mask_harness(kind, features):
    def call():
        if kind == "alternating_even": return TU.create_alternating_binary_mask(features, even=True)
        if kind == "alternating_odd": return TU.create_alternating_binary_mask(features, even=False)
        if kind == "mid_split": return TU.create_mid_split_binary_mask(features)
        return TU.create_random_binary_mask(features)

    def want(i):
        if kind == "alternating_even": return 1 if i % 2 == 0 else 0
        if kind == "alternating_odd": return 1 if i % 2 == 1 else 0
        return 1 if i < (features + 1) // 2 else 0

    def run(h, ctx):
        return call()

    def post(h, ctx, out):
        vals = list(P(out)) if isinstance(out, Sym) else [z3.IntVal(int(v)) for v in out.tolist()]
        ensure(h, ctx, "C20.mask-shape", z3.BoolVal(tuple(out.shape) == (features,) and out.dtype == torch.uint8))
        if kind == "random":
            from tsv.core import toint
            iv = [toint(v) for v in vals]
            ensure(h, ctx, "C20.mask-binary", z3.And([z3.Or(v == 0, v == 1) for v in iv]))
            ensure(h, ctx, "C20.mask-count", z3.Sum(iv) == (features + 1) // 2 if len(iv) > 1 else iv[0] == (features + 1) // 2)
        else:
            from tsv.core import toint
            ensure(h, ctx, "C20.mask-pattern", z3.And([toint(v) == want(i) for i, v in enumerate(vals)]))

    def native_clauses(h, inp, res):
        r = res.tolist()
        if kind == "random":
            return {"C20.mask-binary": all(v in (0, 1) for v in r), "C20.mask-count": sum(r) == (features + 1) // 2, "C20.mask-shape": len(r) == features}
        return {"C20.mask-pattern": r == [want(i) for i in range(features)], "C20.mask-shape": len(r) == features and res.dtype == torch.uint8}
    return Harness(f"mask_{kind}[features={features}]", run, post, native_call=lambda h, inp: call(), native_clauses=native_clauses,
                   sample=lambda h, rng: {}, functions=[TU.create_alternating_binary_mask, TU.create_mid_split_binary_mask, TU.create_random_binary_mask],
                   check_defined=False)


class _TorchWithTensorCtor:
    """the module-global `torch` of utils.torchutils during the get_temperature harness: everything is the real torch, except that the legacy
    constructor torch.Tensor([scalar]) (which TorchFunctionMode does not see) keeps the term of a symbolic scalar.  Assumed contract:
    torch.Tensor([v]) is the one-element float tensor holding v."""

    def __getattr__(self, n):
        return getattr(torch, n)

    @staticmethod
    def Tensor(data):
        from tsv.core import TFloat, lift
        if isinstance(data, (list, tuple)) and any(isinstance(v, TFloat) for v in data):
            return Sym.make(np.array([toreal(lift(v)) for v in data], dtype=object), torch.float32)
        return torch.Tensor(data)


def temperature_harness():
    """get_temperature(max_value, bound): the temperature T with sigmoid(T * max_value) = bound, capped at 1.
    requires max_value > 0 and 0 < bound < 1 (a data maximum and a sigmoid level)"""
    from tsv.core import SymFloat
    from tsv.ops import s_exp, s_log
    from tsv import terms as T

    def run(h, ctx):
        mv, bd = z3.Real("max_value"), z3.Real("bound")
        ctx.assume(z3.And(mv > 0, bd > 0, bd < 1))
        h.mv, h.bd = mv, bd
        saved = TU.torch
        TU.torch = _TorchWithTensorCtor()
        try:
            return TU.get_temperature(SymFloat(3.0, mv), SymFloat(0.75, bd))
        finally:
            TU.torch = saved

    def post(h, ctx, out):
        mv, bd = h.mv, h.bd
        if isinstance(out, torch.Tensor):
            t = toreal(P(out).reshape(-1)[0])
            ensure(h, ctx, "C20.temperature.shape", z3.BoolVal(P(out).size == 1))
            # sigmoid(t * max_value) = bound   <=>   t * max_value = logit(bound) = log(bound) - log(1 - bound)
            logit = s_log(bd) - s_log(T.add(rv(1), T.neg(bd)))
            ensure(h, ctx, "C20.temperature.sigmoid-reaches-bound", t * mv == logit, meta={"tactic": "ring"})
            ensure(h, ctx, "C20.temperature.at-most-one", t <= 1)
        else:
            # the cap: returned 1 only when the exact temperature would exceed it, i.e. sigmoid(1 * max_value) <= bound
            ensure(h, ctx, "C20.temperature.cap-is-one", z3.BoolVal(out == 1))
            logit = s_log(bd) - s_log(T.add(rv(1), T.neg(bd)))
            ensure(h, ctx, "C20.temperature.cap-only-when-needed", logit >= mv)

    def native_call(h, inp):
        return TU.get_temperature(float(inp["max_value"]), float(inp["bound"]))

    def native_clauses(h, inp, out):
        import math
        mv, bd = float(inp["max_value"]), float(inp["bound"])
        exact = (math.log(bd) - math.log(1 - bd)) / mv
        if isinstance(out, torch.Tensor):
            t = float(out)
            return {"C20.temperature.sigmoid-reaches-bound": abs(1 / (1 + math.exp(-t * mv)) - bd) < 1e-4, "C20.temperature.at-most-one": t <= 1 + 1e-6, "C20.temperature.shape": out.numel() == 1}
        return {"C20.temperature.cap-is-one": out == 1, "C20.temperature.cap-only-when-needed": exact >= 1 - 1e-6}
    hn = Harness("get_temperature[]", run, post, native_call=native_call, native_clauses=native_clauses,
                 sample=lambda h, rng: {"max_value": np.array(rng.uniform(0.5, 20.0)), "bound": np.array(rng.uniform(0.55, 0.999))}, functions=[TU.get_temperature])
    hn.native_float32 = False
    return hn


def typechecks_harness():
    from fractions import Fraction
    vals = [True, False, 0, 1, -1, 2, 3, 6, 8, 2.0, -3.5, 0.0, -0.0, 1.0, 0j, Fraction(0), Fraction(2), "3", "", None, [1], [], 1024, 1023]
    spec = {
        "is_bool": lambda v: type(v) is bool,
        "is_int": lambda v: isinstance(v, int),
        "is_positive_int": lambda v: isinstance(v, int) and v > 0,
        "is_nonnegative_int": lambda v: isinstance(v, int) and v >= 0,
        "is_power_of_two": lambda v: isinstance(v, int) and v > 0 and bin(int(v)).count("1") == 1,
    }

    def run(h, ctx):
        return {n: [getattr(TC, n)(v) for v in vals] for n in spec}

    def post(h, ctx, got):
        for n, f in spec.items():
            for v, g in zip(vals, got[n]):
                ensure(h, ctx, "C20.typecheck", z3.BoolVal(g is f(v) or (isinstance(g, bool) and g == f(v))), meta={"fn": n, "value": repr(v), "got": repr(g)})

    def native_clauses(h, inp, res):
        return {"C20.typecheck": all(isinstance(g, bool) and g == spec[n](v) for n in spec for v, g in zip(vals, res[n]))}
    return Harness("typechecks[]", run, post, native_call=lambda h, inp: run(None, None), native_clauses=native_clauses, sample=lambda h, rng: {},
                   functions=[TC.is_bool, TC.is_int, TC.is_positive_int, TC.is_nonnegative_int, TC.is_power_of_two], check_defined=False)
