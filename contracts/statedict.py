"""contract for C15: loading the state dict of a model into a freshly constructed model of the same configuration reproduces the function.

Two instances A and B are built by the real constructors under the symbolic mode, so every constructor-time random quantity (randperm,
randint degrees, randn / init.* parameters) is a DISTINCT fresh symbol in A and in B.  After B.load_state_dict(A.state_dict()) the
results of forward / inverse / log_prob on the same symbolic input must be the very same terms: any function-determining random or
mutated quantity that does not travel in the state dict shows up as a symbol of B's own draws in B's result."""
import numpy as np
import torch, z3
from torch import nn
from tsv.core import Sym, P, C
from tsv.harness import Harness
from tsv.terms import base_symbols
from .common import *
from nflows import transforms as TR
from nflows.transforms import made as made_t
from nflows.nn.nde import made as made_n
from nflows.distributions import normal as DN
from nflows.flows.autoregressive import MaskedAutoregressiveFlow
from nflows.flows.realnvp import SimpleRealNVP
from nflows.nn import nets


def same(a, b):
    if isinstance(a, (tuple, list)):
        return len(a) == len(b) and all(same(x, y) for x, y in zip(a, b))
    if a is None or b is None:
        return a is None and b is None
    pa, pb = P(a), P(b)
    return tuple(pa.shape) == tuple(pb.shape) and a.dtype == b.dtype and all(z3.eq(x, y) for x, y in zip(pa.reshape(-1), pb.reshape(-1)))


CONFIGS = {
    "RandomPermutation": (lambda: TR.RandomPermutation(3), (2, 3), None, ("forward", "inverse")),
    "OneByOneConvolution": (lambda: TR.OneByOneConvolution(2, identity_init=False), (1, 2, 1, 2), None, ("forward",)),
    "MADE_random_mask": (lambda: made_t.MADE(3, 4, num_blocks=1, use_residual_blocks=False, random_mask=True, output_multiplier=2), (2, 3), None, ("call",)),
    "MADE_nde_random_mask_bn": (lambda: made_n.MADE(2, 3, num_blocks=2, use_residual_blocks=False, random_mask=True, use_batch_norm=True), (2, 2), None, ("call",)),
    "MaskedAffineAutoregressive_random": (lambda: TR.MaskedAffineAutoregressiveTransform(2, 3, num_blocks=1, use_residual_blocks=False, random_mask=True), (2, 2), None, ("forward",)),
    "ActNorm_after_init": (lambda: TR.ActNorm(2), (2, 2), "train_forward", ("forward", "inverse", "train_forward")),
    "ActNorm_saved_before_init": (lambda: TR.ActNorm(2), (2, 2), None, ("forward", "train_forward")),
    "ActNorm4d_saved_before_init": (lambda: TR.ActNorm(2), (2, 2, 1, 2), None, ("train_forward",)),
    "BatchNorm_saved_before_training": (lambda: TR.BatchNorm(2), (2, 2), None, ("forward", "train_forward")),
    "BatchNorm_after_training_step": (lambda: TR.BatchNorm(2), (2, 2), "train_forward", ("forward", "inverse", "train_forward")),
    "Sigmoid_learned_temperature": (lambda: TR.Sigmoid(temperature=2.0, learn_temperature=True), (2, 2), None, ("forward",)),
    "Sigmoid_buffer_temperature": (lambda: TR.Sigmoid(temperature=3.0), (2, 2), "perturb_buffers", ("forward",)),
    "PointwiseAffine": (lambda: TR.PointwiseAffineTransform(shift=0.5, scale=2.0), (2, 2), "perturb_buffers", ("forward",)),
    "LULinear_random_init": (lambda: TR.LULinear(2, identity_init=False), (2, 2), None, ("forward", "inverse")),
    "QRLinear": (lambda: TR.QRLinear(2, 2), (2, 2), None, ("forward",)),
    "PiecewiseRationalQuadraticCDF": (lambda: TR.PiecewiseRationalQuadraticCDF([2], num_bins=2, tails="linear", tail_bound=3.0), (1, 2), None, ("forward",)),
    "AffineCoupling_random_mask": (lambda: TR.AffineCouplingTransform(torch.tensor([1, 0, 1]), lambda i, o: nets.ResidualNet(i, o, hidden_features=2, num_blocks=1)), (1, 3), None, ("forward",)),
    "MaskedAutoregressiveFlow_random": (lambda: MaskedAutoregressiveFlow(2, 2, num_layers=1, num_blocks_per_layer=1, use_residual_blocks=False, use_random_masks=False, use_random_permutations=True,
                                                                          batch_norm_between_layers=True), (2, 2), "train_log_prob", ("log_prob",)),
    "SimpleRealNVP": (lambda: SimpleRealNVP(2, 2, num_layers=1, num_blocks_per_layer=1, batch_norm_between_layers=True), (2, 2), "train_log_prob", ("log_prob",)),
    "LeakyReLU": (lambda: TR.LeakyReLU(negative_slope=0.3), (1, 2), None, ("forward",)),
    "StandardNormal": (lambda: DN.StandardNormal([2]), (2, 2), None, ("log_prob",)),
}


def statedict_harness(name):
    make, xshape, history, methods = CONFIGS[name]

    def run(h, ctx):
        A = make(); B = make()
        x0 = h.inp("x0", xshape)
        if history in ("train_forward", "train_log_prob"):
            A.train()
            for t in P(x0).reshape(-1): pass
            if history == "train_forward":
                # precondition of data-dependent initialisation: non-degenerate batch
                px = P(x0)
                for j in range(px.shape[1]):
                    col = list(px[:, j].reshape(-1)); mu = sum(col[1:], col[0]) / len(col)
                    ctx.assume(sum(((v - mu) * (v - mu) for v in col[1:]), (col[0] - mu) * (col[0] - mu)) > 0)
                A.forward(x0)
            else:
                px = P(x0)
                for j in range(px.shape[1]):
                    col = list(px[:, j].reshape(-1)); mu = sum(col[1:], col[0]) / len(col)
                    ctx.assume(sum(((v - mu) * (v - mu) for v in col[1:]), (col[0] - mu) * (col[0] - mu)) > 0)
                A.log_prob(x0)
        elif history == "perturb_buffers":
            # buffers may have been changed after construction (e.g. assigned by the user or a training loop): any value
            for mm in A.modules():
                for k, b in list(mm._buffers.items()):
                    if b is not None and b.dtype.is_floating_point:
                        mm._buffers[k] = h.inp("buf:" + k, tuple(b.shape), b.dtype, owner="buffer")
                        for t in P(mm._buffers[k]).reshape(-1): ctx.assume(t > 0)
        # a training step: every trainable parameter may have any value
        for mname, mm in A.named_modules():
            for k, p in list(mm._parameters.items()):
                if p is not None:
                    s = h.inp(f"trained:{mname}.{k}", tuple(p.shape), p.dtype, owner="param"); s._is_param = True
                    mm._parameters[k] = s
        # B's own constructor-time floating state: arbitrary values of its own (whatever its seed produced)
        for mname, mm in B.named_modules():
            for store, kind in ((mm._parameters, "param"), (mm._buffers, "buffer")):
                for k, p in list(store.items()):
                    if p is not None and isinstance(p, torch.Tensor) and p.dtype.is_floating_point and not isinstance(p, Sym):
                        s_ = h.inp(f"own:{mname}.{k}", tuple(p.shape), p.dtype, owner=kind)
                        if kind == "param": s_._is_param = True
                        store[k] = s_
        A.eval(); B.eval()
        h.sd_keys = list(A.state_dict().keys())
        B.load_state_dict(A.state_dict())
        x = h.inp("x", xshape)
        h.own_B = own_random_symbols(B)
        outs = {}
        for m in methods:
            if m == "call": outs[m] = (A(x), B(x))
            elif m == "log_prob": outs[m] = (A.log_prob(x), B.log_prob(x))
            elif m == "train_forward":
                # the reloaded model is also the same function when training continues (initialisation flags travel)
                px_ = P(x)
                for j in range(px_.shape[1]):
                    col = list(px_[:, j].reshape(-1)); mu = sum(col[1:], col[0]) / len(col)
                    ctx.assume(sum(((v - mu) * (v - mu) for v in col[1:]), (col[0] - mu) * (col[0] - mu)) > 0)
                A.train(); B.train(); outs[m] = (A.forward(x), B.forward(x)); A.eval(); B.eval()
            else: outs[m] = (getattr(A, m)(x), getattr(B, m)(x))
        return outs

    def post(h, ctx, outs):
        for m, (a, b) in outs.items():
            ensure(h, ctx, f"C15.reloaded-model-gives-identical-{m}", z3.BoolVal(bool(same(a, b))), meta={"state_dict_keys": h.sd_keys[:12]})

    # native twin: two seeds
    def native_call(h, inp):
        torch.manual_seed(int(inp["seed"])); A = make()
        torch.manual_seed(int(inp["seed"]) + 17); B = make()
        x0 = torch.tensor(np.asarray(inp["x0"]), dtype=torch.float32)
        if history == "train_forward": A.train(); A.forward(x0)
        elif history == "train_log_prob": A.train(); A.log_prob(x0)
        elif history == "perturb_buffers":
            with torch.no_grad():
                for b in A.buffers():
                    if b.dtype.is_floating_point: b.mul_(1.7).add_(0.3)
        with torch.no_grad():
            for p in A.parameters(): p.add_(torch.randn(p.shape) * 0.1)
        A.eval(); B.eval()
        B.load_state_dict(A.state_dict())
        x = torch.tensor(np.asarray(inp["x"]), dtype=torch.float32)
        outs = {}
        for m in methods:
            if m == "call": outs[m] = (A(x), B(x))
            elif m == "log_prob": outs[m] = (A.log_prob(x), B.log_prob(x))
            elif m == "train_forward":
                A.train(); B.train(); outs[m] = (A.forward(x), B.forward(x)); A.eval(); B.eval()
            else: outs[m] = (getattr(A, m)(x), getattr(B, m)(x))
        return outs

    def native_clauses(h, inp, outs):
        def eq(a, b):
            if isinstance(a, (tuple, list)): return all(eq(x, y) for x, y in zip(a, b))
            return bool(torch.equal(a, b))
        return {f"C15.reloaded-model-gives-identical-{m}": eq(a, b) for m, (a, b) in outs.items()}

    def sample(h, rng):
        lo, hi = (-1.5, 1.5)
        return {"seed": np.array(int(rng.integers(0, 10 ** 5))), "x": rng.uniform(lo, hi, size=xshape), "x0": rng.normal(size=xshape)}
    hn = Harness(f"statedict_{name}[]", run, post, native_call=native_call, native_clauses=native_clauses, sample=sample, functions=[], check_defined=False)
    hn.native_float32 = False
    return hn


def own_random_symbols(m):
    return None


def statedict_harnesses(tier):
    return [statedict_harness(n) for n in CONFIGS]
