"""specs of the elementwise Transform classes (nonlinearities, standard, normalization in eval mode)"""
import numpy as np
import torch, z3
from tsv.core import rv, P
from .modules import Spec
from .common import el
from nflows.transforms import nonlinearities as NL, standard as ST, normalization as NM

ONE = rv(1)


def _sampler(lo=None, hi=None, params=None, ctx_shape=None, pos=()):
    """x uniform in the open domain for inverse-type modes (sometimes exactly on / outside the boundary), normal otherwise"""
    def sample(h, rng, mode, spec=None):
        shape = h_shape[0]
        d = {}
        if mode in ("inverse", "fi") and (lo is not None or hi is not None):
            a = lo if lo is not None else -4.0; b = hi if hi is not None else 4.0
            x = rng.uniform(a, b, size=shape)
            if mode == "inverse" and rng.uniform() < 0.3:
                x.reshape(-1)[0] = rng.choice([a, b, a - 0.5, b + 0.5])
            d["x"] = x
        else:
            d["x"] = rng.normal(size=shape) * 1.5
        if ctx_shape:
            d["context"] = rng.normal(size=ctx_shape)
        for name, (shp, positive) in (params or {}).items():
            v = rng.normal(size=shp)
            d["p:" + name] = np.abs(v) + 0.1 if positive else v
        return d
    h_shape = [None]
    sample.bind = lambda shape: h_shape.__setitem__(0, shape)
    return sample


def mk(name, make, cls, shape=(2, 2), lo=None, hi=None, open_dom=True, params=None, constrain=None, inv_valid=None, ctx_shape=None, **kw):
    inv_domain = None
    if lo is not None or hi is not None:
        def inv_domain(t, lo=lo, hi=hi):
            cs = []
            if lo is not None: cs.append(t > lo if open_dom else t >= lo)
            if hi is not None: cs.append(t < hi if open_dom else t <= hi)
            return z3.And(cs)
    smp = _sampler(lo, hi, params, ctx_shape)
    smp.bind(shape)
    s = Spec(name, make, shape=shape, inv_domain=inv_domain, constrain=constrain, inv_valid=inv_valid, ctx_shape=ctx_shape, sample=smp, cls=cls, **kw)

    def native_outside(x, mode, lo=lo, hi=hi):
        if mode != "inverse": return False
        bad = False
        if lo is not None: bad = bad or bool((x <= lo).any() if open_dom else (x < lo).any())
        if hi is not None: bad = bad or bool((x >= hi).any() if open_dom else (x > hi).any())
        return bad
    s.native_outside = native_outside
    return s


def _positive(*names):
    def constrain(h, ctx, m, params):
        for n in names:
            for t in P(params[n]).reshape(-1):
                ctx.assume(t > 0)
    return constrain


def _nonzero(*names):
    def constrain(h, ctx, m, params):
        for n in names:
            for t in P(params[n]).reshape(-1):
                ctx.assume(t != 0)
    return constrain


def _logtanh_cut(h, ctx, m, params):
    """constructor cut for LogTanh: the constants alpha, beta, tanh(cut_point) computed by the real __init__ (nested transcendental terms) are
    shown to satisfy  alpha > 0, beta > 0, alpha*log(beta*cut) == tanh(cut) in (0, 1)  and are then replaced by fresh symbols carrying
    exactly those facts."""
    from tsv.core import TFloat, lift
    from tsv import terms as T
    c = rv(m.cut_point)
    a, b, i = lift(m.alpha), lift(m.beta), lift(m.inv_cut_point)
    loc = ("contract", "LogTanh.__init__", 0)
    ctx.oblige("cut-lemma", z3.And(a > 0, b > 0, i > 0, i < 1), label="logtanh.constants-positive", loc=loc)
    from tsv.ops import s_log
    bc = T.mul(b, c)
    lbc = s_log(bc)
    if not z3.eq(bc, b):        # log of a product of positive numbers (law of the real logarithm)
        ctx.axiom([lbc], z3.Implies(z3.And(b > 0, c > 0), lbc == s_log(b) + s_log(c)))
    ctx.oblige("cut-lemma", T.mul(a, lbc) == i, label="logtanh.value-match-at-cut", loc=loc)
    A, B, I = z3.Real("LT_alpha"), z3.Real("LT_beta"), z3.Real("LT_tanh_cut")
    from tsv.ops import s_tanh, s_exp
    ctx.notes["exp_monotone"] = True
    LBC = s_log(T.mul(B, c))
    ctx.assume(z3.And(A > 0, B > 0, I > 0, I < 1, A * LBC == I, I == s_tanh(c)))
    ctx.assume(s_exp(T.div(I, A)) == T.mul(B, c))        # the same fact in exponential form (exp(log u) = u)
    ctx.oblige("cut-lemma", s_tanh(T.neg(c)) == T.neg(s_tanh(c)), label="logtanh.tanh-odd", loc=loc)
    ctx.assume(s_tanh(T.neg(c)) == T.neg(I))
    e2c = s_exp(T.mul(rv(2), c))
    ctx.assume(s_log(e2c) == 2 * c)                        # registered so that logs can be compared against 2*cut (monotonicity instances)
    ctx.assume(s_log(s_exp(T.mul(rv(-2), c))) == -2 * c)
    # atanh(+-I) = +-cut in the form the inverse computes it: (1 + I)/(1 - I) = e^{2 cut}
    em2c = s_exp(T.mul(rv(-2), c))
    ctx.oblige("cut-lemma", z3.And((1 + I) / (1 - I) == e2c, (1 - I) / (1 + I) == em2c), label="logtanh.atanh-of-cut", loc=loc)
    ctx.assume(z3.And((1 + I) / (1 - I) == e2c, (1 - I) / (1 + I) == em2c, (1 + I) == e2c * (1 - I), (1 - I) == em2c * (1 + I)))
    m.alpha, m.beta, m.inv_cut_point = TFloat(float(m.alpha), A), TFloat(float(m.beta), B), TFloat(float(m.inv_cut_point), I)


def _bn_constrain(h, ctx, m, params):
    for t in P(params["running_var"]).reshape(-1):
        ctx.assume(t >= 0)


EPS = 1e-6
SPECS = [
    mk("Exp", lambda: NL.Exp(), NL.Exp, lo=0.0),
    mk("Exp4d", lambda: NL.Exp(), NL.Exp, shape=(2, 1, 2, 1), lo=0.0),
    mk("Tanh", lambda: NL.Tanh(), NL.Tanh, lo=-1.0, hi=1.0),
    mk("Exp1d", lambda: NL.Exp(), NL.Exp, shape=(3,), lo=0.0),
    mk("Tanh1d", lambda: NL.Tanh(), NL.Tanh, shape=(2,), lo=-1.0, hi=1.0),
    mk("LeakyReLU1d", lambda: NL.LeakyReLU(), NL.LeakyReLU, shape=(2,)),
    mk("LogTanh", lambda: NL.LogTanh(cut_point=1), NL.LogTanh, shape=(1, 2), constrain=_logtanh_cut),
    mk("LogTanh2", lambda: NL.LogTanh(cut_point=2), NL.LogTanh, shape=(1, 2), constrain=_logtanh_cut),
    mk("LogTanh_1x1", lambda: NL.LogTanh(cut_point=1), NL.LogTanh, shape=(1, 1), constrain=_logtanh_cut),
    mk("LogTanh2_1x1", lambda: NL.LogTanh(cut_point=2), NL.LogTanh, shape=(1, 1), constrain=_logtanh_cut),
    mk("LeakyReLU", lambda: NL.LeakyReLU(), NL.LeakyReLU),
    mk("LeakyReLU0.5", lambda: NL.LeakyReLU(negative_slope=0.5), NL.LeakyReLU, shape=(1, 2, 1, 1)),
    mk("Sigmoid", lambda: NL.Sigmoid(), NL.Sigmoid, shape=(1, 2), lo=0.0, hi=1.0, open_dom=False, params={"temperature": ((1,), True)},
       constrain=_positive("temperature"), inv_valid=lambda t: z3.And(t >= rv(EPS), t <= 1 - rv(EPS))),
    mk("SigmoidLearnT", lambda: NL.Sigmoid(temperature=2.0, learn_temperature=True), NL.Sigmoid, shape=(2, 1, 1, 1), lo=0.0, hi=1.0, open_dom=False,
       params={"temperature": ((1,), True)}, constrain=_positive("temperature"), inv_valid=lambda t: z3.And(t >= rv(EPS), t <= 1 - rv(EPS))),
    mk("CauchyCDF", lambda: NL.CauchyCDF(), NL.CauchyCDF, lo=0.0, hi=1.0, open_dom=False, inv_valid=lambda t: z3.And(t > 0, t < 1)),
    mk("PointwiseAffine", lambda: ST.PointwiseAffineTransform(shift=torch.zeros(2), scale=torch.ones(2)), ST.PointwiseAffineTransform,
       params={"_shift": ((2,), False), "_scale": ((2,), True)}, constrain=_nonzero("_scale")),
    mk("PointwiseAffineScalar", lambda: ST.PointwiseAffineTransform(shift=0.5, scale=2.0), ST.PointwiseAffineTransform, shape=(2, 1, 2, 2),
       params={"_shift": ((), False), "_scale": ((), True)}, constrain=_nonzero("_scale")),
    mk("PointwiseAffineChannel", lambda: ST.PointwiseAffineTransform(shift=torch.zeros(2, 1, 1), scale=torch.ones(2, 1, 1)), ST.PointwiseAffineTransform,
       shape=(1, 2, 2, 1), params={"_shift": ((2, 1, 1), False), "_scale": ((2, 1, 1), True)}, constrain=_nonzero("_scale")),
    mk("PointwiseAffineLastDim", lambda: ST.PointwiseAffineTransform(shift=torch.zeros(2), scale=torch.ones(2)), ST.PointwiseAffineTransform,
       shape=(2, 1, 2, 2), params={"_shift": ((2,), False), "_scale": ((2,), True)}, constrain=_nonzero("_scale")),
    mk("Identity", lambda: ST.IdentityTransform(), ST.IdentityTransform),
    mk("GLU", lambda: NL.GatedLinearUnit(), NL.GatedLinearUnit, shape=(2, 2), ctx_shape=(2, 1)),
    mk("GLUfull", lambda: NL.GatedLinearUnit(), NL.GatedLinearUnit, shape=(2, 2), ctx_shape=(2, 2)),
    mk("ActNorm", lambda: NM.ActNorm(2), NM.ActNorm, params={"log_scale": ((2,), False), "shift": ((2,), False)}),
    mk("ActNorm4d", lambda: NM.ActNorm(2), NM.ActNorm, shape=(2, 2, 1, 2), params={"log_scale": ((2,), False), "shift": ((2,), False)}),
    mk("BatchNormEval", lambda: NM.BatchNorm(2), NM.BatchNorm, constrain=_bn_constrain,
       params={"unconstrained_weight": ((2,), False), "bias": ((2,), False), "running_mean": ((2,), False), "running_var": ((2,), True)}),
]
SPECS = {s.name: s for s in SPECS}
for _n in ("Sigmoid", "SigmoidLearnT"):
    SPECS[_n].concrete_in = ("if", "fi")
FUNCTIONAL = [n for n in SPECS if not n.endswith("_1x1")]        # LogTanh: the constants of __init__ enter through a constructor cut (_logtanh_cut)
# the composition harnesses of LogTanh run on a single element (three branches per direction; the elements are independent, see C01.diagonal)
ROUNDTRIP = [n for n in FUNCTIONAL if not n.startswith("LogTanh")] + ["LogTanh_1x1", "LogTanh2_1x1"]
DOMAIN_RESTRICTED = ["Exp", "Exp4d", "Tanh", "Sigmoid", "SigmoidLearnT", "CauchyCDF"]
