"""specs of the elementwise Transform classes (nonlinearities, standard, normalization in eval mode)"""
import numpy as np
import torch, z3
from tsv.core import rv, P
from .modules import Spec
from .common import el
from nflows.transforms import nonlinearities as NL, standard as ST, normalization as NM

ONE = rv(1)


def _sampler(lo=None, hi=None, params=None, ctx_shape=None, pos=()):
    """x uniform in the open domain for inverse-type modes (sometimes exactly on / outside the boundary), normal otherwise"""
    def sample(h, rng, mode, spec=None):
        shape = h_shape[0]
        d = {}
        if mode in ("inverse", "fi") and (lo is not None or hi is not None):
            a = lo if lo is not None else -4.0; b = hi if hi is not None else 4.0
            x = rng.uniform(a, b, size=shape)
            if mode == "inverse" and rng.uniform() < 0.3:
                x.reshape(-1)[0] = rng.choice([a, b, a - 0.5, b + 0.5])
            d["x"] = x
        else:
            d["x"] = rng.normal(size=shape) * 1.5
        if ctx_shape:
            d["context"] = rng.normal(size=ctx_shape)
        for name, (shp, positive) in (params or {}).items():
            v = rng.normal(size=shp)
            d["p:" + name] = np.abs(v) + 0.1 if positive else v
        return d
    h_shape = [None]
    sample.bind = lambda shape: h_shape.__setitem__(0, shape)
    return sample


def mk(name, make, cls, shape=(2, 2), lo=None, hi=None, open_dom=True, params=None, constrain=None, inv_valid=None, ctx_shape=None, **kw):
    inv_domain = None
    if lo is not None or hi is not None:
        def inv_domain(t, lo=lo, hi=hi):
            cs = []
            if lo is not None: cs.append(t > lo if open_dom else t >= lo)
            if hi is not None: cs.append(t < hi if open_dom else t <= hi)
            return z3.And(cs)
    smp = _sampler(lo, hi, params, ctx_shape)
    smp.bind(shape)
    s = Spec(name, make, shape=shape, inv_domain=inv_domain, constrain=constrain, inv_valid=inv_valid, ctx_shape=ctx_shape, sample=smp, cls=cls, **kw)

    def native_outside(x, mode, lo=lo, hi=hi):
        if mode != "inverse": return False
        bad = False
        if lo is not None: bad = bad or bool((x <= lo).any() if open_dom else (x < lo).any())
        if hi is not None: bad = bad or bool((x >= hi).any() if open_dom else (x > hi).any())
        return bad
    s.native_outside = native_outside
    return s


def _positive(*names):
    def constrain(h, ctx, m, params):
        for n in names:
            for t in P(params[n]).reshape(-1):
                ctx.assume(t > 0)
    return constrain


def _nonzero(*names):
    def constrain(h, ctx, m, params):
        for n in names:
            for t in P(params[n]).reshape(-1):
                ctx.assume(t != 0)
    return constrain


def _bn_constrain(h, ctx, m, params):
    for t in P(params["running_var"]).reshape(-1):
        ctx.assume(t >= 0)


EPS = 1e-6
SPECS = [
    mk("Exp", lambda: NL.Exp(), NL.Exp, lo=0.0),
    mk("Exp4d", lambda: NL.Exp(), NL.Exp, shape=(2, 1, 2, 1), lo=0.0),
    mk("Tanh", lambda: NL.Tanh(), NL.Tanh, lo=-1.0, hi=1.0),
    mk("LogTanh", lambda: NL.LogTanh(cut_point=1), NL.LogTanh, shape=(1, 2)),
    mk("LeakyReLU", lambda: NL.LeakyReLU(), NL.LeakyReLU),
    mk("LeakyReLU0.5", lambda: NL.LeakyReLU(negative_slope=0.5), NL.LeakyReLU, shape=(1, 2, 1, 1)),
    mk("Sigmoid", lambda: NL.Sigmoid(), NL.Sigmoid, shape=(1, 2), lo=0.0, hi=1.0, open_dom=False, params={"temperature": ((1,), True)},
       constrain=_positive("temperature"), inv_valid=lambda t: z3.And(t >= rv(EPS), t <= 1 - rv(EPS))),
    mk("SigmoidLearnT", lambda: NL.Sigmoid(temperature=2.0, learn_temperature=True), NL.Sigmoid, shape=(2, 1, 1, 1), lo=0.0, hi=1.0, open_dom=False,
       params={"temperature": ((1,), True)}, constrain=_positive("temperature"), inv_valid=lambda t: z3.And(t >= rv(EPS), t <= 1 - rv(EPS))),
    mk("CauchyCDF", lambda: NL.CauchyCDF(), NL.CauchyCDF, lo=0.0, hi=1.0, open_dom=False, inv_valid=lambda t: z3.And(t > 0, t < 1)),
    mk("PointwiseAffine", lambda: ST.PointwiseAffineTransform(shift=torch.zeros(2), scale=torch.ones(2)), ST.PointwiseAffineTransform,
       params={"_shift": ((2,), False), "_scale": ((2,), True)}, constrain=_nonzero("_scale")),
    mk("PointwiseAffineScalar", lambda: ST.PointwiseAffineTransform(shift=0.5, scale=2.0), ST.PointwiseAffineTransform, shape=(2, 1, 2, 2),
       params={"_shift": ((), False), "_scale": ((), True)}, constrain=_nonzero("_scale")),
    mk("PointwiseAffineChannel", lambda: ST.PointwiseAffineTransform(shift=torch.zeros(2, 1, 1), scale=torch.ones(2, 1, 1)), ST.PointwiseAffineTransform,
       shape=(1, 2, 2, 1), params={"_shift": ((2, 1, 1), False), "_scale": ((2, 1, 1), True)}, constrain=_nonzero("_scale")),
    mk("PointwiseAffineLastDim", lambda: ST.PointwiseAffineTransform(shift=torch.zeros(2), scale=torch.ones(2)), ST.PointwiseAffineTransform,
       shape=(2, 1, 2, 2), params={"_shift": ((2,), False), "_scale": ((2,), True)}, constrain=_nonzero("_scale")),
    mk("Identity", lambda: ST.IdentityTransform(), ST.IdentityTransform),
    mk("GLU", lambda: NL.GatedLinearUnit(), NL.GatedLinearUnit, shape=(2, 2), ctx_shape=(2, 1)),
    mk("GLUfull", lambda: NL.GatedLinearUnit(), NL.GatedLinearUnit, shape=(2, 2), ctx_shape=(2, 2)),
    mk("ActNorm", lambda: NM.ActNorm(2), NM.ActNorm, params={"log_scale": ((2,), False), "shift": ((2,), False)}),
    mk("ActNorm4d", lambda: NM.ActNorm(2), NM.ActNorm, shape=(2, 2, 1, 2), params={"log_scale": ((2,), False), "shift": ((2,), False)}),
    mk("BatchNormEval", lambda: NM.BatchNorm(2), NM.BatchNorm, constrain=_bn_constrain,
       params={"unconstrained_weight": ((2,), False), "bias": ((2,), False), "running_mean": ((2,), False), "running_var": ((2,), True)}),
]
SPECS = {s.name: s for s in SPECS}
for _n in ("Sigmoid", "SigmoidLearnT"):
    SPECS[_n].concrete_in = ("if", "fi")
FUNCTIONAL = [n for n in SPECS if n != "LogTanh"]     # LogTanh: cut-point constants are nested transcendental constants; not under functional contract
DOMAIN_RESTRICTED = ["Exp", "Exp4d", "Tanh", "Sigmoid", "SigmoidLearnT", "CauchyCDF"]
