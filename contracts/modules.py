"""contract harnesses for Transform *classes* (real nn.Modules executed symbolically): elementwise transforms first.

Clauses:
  C01.diagonal         out[b,i] mentions no input symbol other than x[b,i]
  C01.logdet           exp(logabsdet[b]) = | prod_i d out[b,i] / d x[b,i] |  and the product is non-zero
  C02.roundtrip_if     inverse(forward(x)) = x,  C02.roundtrip_fi  forward(inverse(y)) = y   (second run on the terms of the first)
  C02.neg-logdet       logabsdet_inverse(forward(x)) + logabsdet_forward(x) = 0
  C17                  raises-only-if / returns-only-if-not InputOutsideDomain
  C12.row-independent  row b of every result mentions only row-b input symbols
  C13.no-write         no write into argument / parameter / buffer storage (eval mode)
  C19.dtype            results carry the dtype of the inputs
"""
import numpy as np
import torch, z3
from tsv.core import Sym, P, C, Ctx, fresh, toreal, rv, is_num, num
from tsv.harness import Harness
from tsv import terms as T
from tsv.terms import base_symbols
from tsv.ops import s_exp
from .common import *
from nflows.transforms.base import InputOutsideDomain
from nflows.transforms import nonlinearities as NL, standard as ST, normalization as NM


def exp_of_term(t):
    """a product-form term equal to exp(t):  exp(rest) * prod p_i^{c_i}; returns (numerator, denominator).
    Integer and half-integer log coefficients are supported (p^(1/2) = sqrt p); the non-log rest is split into
    monomials c*a with exp(c*a) = exp(a)^c for integer c (exponent laws)."""
    from tsv.ops import s_sqrt
    rest, terms = T.loglin(t)
    numr, den = rv(1), rv(1)
    for c, p in terms:
        if c.denominator == 1:
            f = p; k = abs(int(c))
        elif c.denominator == 2:
            f = s_sqrt(p); k = abs(int(c * 2))
        else:
            raise Unsupported("log coefficient " + str(c))
        for _ in range(k):
            if c > 0: numr = numr * f
            else: den = den * f
    rs = z3.simplify(rest, som=True)
    if is_num(rs) and num(rs) == 0:
        return numr, den
    for sign, a in flatten_sum(rs):
        if is_num(a) and num(a) == 0:
            continue
        c = 1
        if z3.is_app(a) and a.decl().kind() == z3.Z3_OP_MUL and a.num_args() == 2 and is_num(a.arg(0)) and num(a.arg(0)).denominator == 1:
            c = int(num(a.arg(0))); a = a.arg(1)
        if c < 0:
            c, sign = -c, -sign
        if c > 8:
            e = s_exp(rv(c) * a); c = 1
        else:
            e = s_exp(a)
        for _ in range(c):
            if sign > 0: numr = numr * e
            else: den = den * e
    return numr, den


def flatten_sum(t, sign=1):
    k = t.decl().kind() if z3.is_app(t) else None
    if k == z3.Z3_OP_ADD:
        return [x for c in t.children() for x in flatten_sum(c, sign)]
    if k == z3.Z3_OP_SUB:
        ch = t.children()
        return flatten_sum(ch[0], sign) + [x for c in ch[1:] for x in flatten_sum(c, -sign)]
    if k == z3.Z3_OP_UMINUS:
        return flatten_sum(t.arg(0), -sign)
    if k == z3.Z3_OP_MUL and t.num_args() == 2 and is_num(t.arg(0)) and num(t.arg(0)) == -1:
        return flatten_sum(t.arg(1), -sign)
    return [(sign, t)]


def exp_hint(a, b):
    """lemma hint for proving a == b: instantiate the exp axioms at (a multiple of) both terms -- exp is injective"""
    from math import lcm
    try:
        c = 1
        for t in (a, b):
            _, terms = T.loglin(z3.simplify(t, som=True))
            for co, _ in terms:
                c = lcm(c, co.denominator)
        ctx = C()
        for t in (a, b):
            e = s_exp(z3.simplify(rv(c) * t, som=True) if c != 1 else t)
            # make the instantiated exp axioms relevant whenever t itself occurs in a goal
            for trig, ax, keep in list(ctx.axioms):
                if e.get_id() in trig:
                    ctx.axiom([t], ax)
    except Exception as e:
        import os
        if os.environ.get("TSV_DEBUG"): raise


def ensure_logs_cancel(h, ctx, label, tot):
    """tot == 0 for a sum of log-dets: stated in sum form when that is provable by congruence, else as the product identity"""
    from tsv import solve
    hy = ctx.hyps()
    ax = solve.relevant_axioms(ctx.axioms, hy + [tot])
    st, _, _, _ = solve.prove(hy + ax, tot == 0, 3.0)
    if st == "unsat":
        ensure(h, ctx, label, tot == 0)
    else:
        numr, den = exp_of_term(tot)
        ensure(h, ctx, label, numr == den)


def grad_connected(h, ctx, results):
    """C16 (connectivity part): every leaf (input, context, trainable parameter) whose symbols occur in a result's value is reachable from
    that result through differentiable ops -- no detach / .data / no_grad / .item() cut severs all gradient paths"""
    leaf_of = {}
    for nm_, t_ in h.inputs.items():
        if isinstance(t_, Sym) and t_._g and t_._g.get("requires_grad"):
            for e in P(t_).reshape(-1):
                leaf_of[e.get_id()] = t_._g.get("leaf", nm_)
    for r in results:
        if not isinstance(r, Sym) or not r.dtype.is_floating_point:
            continue
        val = set()
        for e in P(r).reshape(-1):
            for sid in T.base_symbols(e):
                if sid in leaf_of: val.add(leaf_of[sid])
        gs = set((r._g or {}).get("gradset") or ())
        if (r._g or {}).get("requires_grad"):
            gs.add(r._g.get("leaf"))
        missing = sorted(val - gs)
        ensure(h, ctx, "C16.value-dependencies-are-gradient-connected", z3.BoolVal(not missing), meta={"missing": missing, "valset": sorted(val), "gradset": sorted(map(str, gs))})
        # no dependence on a leaf along a path that autograd does not record (an alias introduced at a detach / no_grad cut whose definition
        # mentions the leaf): with such a path the gradient returned differs from the derivative of the value
        defs = ctx.notes.get("gcut_defs", {})
        if ctx.notes.get("grad_alias") and not getattr(h, "cuts_allowed", False):
            through = set()
            seen = set()
            def expand(t):
                for sid in T.base_symbols(t):
                    if sid in defs and sid not in seen:
                        seen.add(sid)
                        for s2 in T.base_symbols(defs[sid][1]):
                            if s2 in leaf_of: through.add(leaf_of[s2])
                        expand(defs[sid][1])
            for e in P(r).reshape(-1):
                expand(e)
            ensure(h, ctx, "C16.no-value-dependence-through-a-gradient-cut", z3.BoolVal(not through), meta={"leaves": sorted(through)})


def zabs(t):
    return z3.If(t >= 0, t, -t)


def symbolise_module(h, module, float_only=True, prefix="p:"):
    """replace every floating parameter / buffer by a symbolic input (named by its path)"""
    done = {}
    for mname, m in module.named_modules():
        for store, kind in ((m._parameters, "param"), (m._buffers, "buffer")):
            for name, p in list(store.items()):
                if p is None or not isinstance(p, torch.Tensor) or not p.dtype.is_floating_point:
                    continue
                path = (mname + "." if mname else "") + name
                s = h.inp(prefix + path, tuple(p.shape), p.dtype, owner=kind)
                if kind == "param":
                    s._is_param = True
                    s._g = {"requires_grad": True}
                store[name] = s
                done[path] = s
    return done


def load_native(module, inp, prefix="p:"):
    sd = {}
    for k, v in inp.items():
        if k.startswith(prefix):
            sd[k[len(prefix):]] = v
    with torch.no_grad():
        for mname, m in module.named_modules():
            for store in (m._parameters, m._buffers):
                for name, p in list(store.items()):
                    path = (mname + "." if mname else "") + name
                    if path in sd and p is not None:
                        p.data = torch.as_tensor(np.asarray(sd[path]), dtype=p.dtype).reshape(p.shape)
    return module


def input_ids(h):
    ids = {}
    for name, s in h.inputs.items():
        for idx in np.ndindex(*P(s).shape):
            t = P(s)[idx]
            if z3.is_const(t):
                ids[t.get_id()] = (name, idx)
    return ids


class Spec:
    """one Transform configuration under contract"""

    def __init__(self, name, make, shape=(2, 2), ctx_shape=None, fwd_domain=None, inv_domain=None, constrain=None, inv_valid=None,
                 eval_mode=True, raises_fwd=None, raises_inv=None, elementwise=True, sample=None, dtype=torch.float32, cls=None):
        self.name, self.make, self.shape, self.ctx_shape = name, make, shape, ctx_shape
        self.fwd_domain, self.inv_domain = fwd_domain, inv_domain      # fn(term) -> z3 cond: element inside the (closed) domain
        self.inv_valid = inv_valid        # fn(term) -> cond under which roundtrip_fi is claimed (e.g. inside the clamp of Sigmoid.inverse)
        self.constrain = constrain        # fn(h, ctx, module, params) -> None: preconditions on parameters
        self.eval_mode, self.elementwise, self.sample, self.dtype, self.cls = eval_mode, elementwise, sample, dtype, cls
        self.concrete_in = ()       # modes in which the parameters keep their constructed (concrete) values


def build(h, ctx, spec, mode=None, dtype=None):
    m = spec.make()
    if spec.eval_mode:
        m.eval()
    if dtype is not None:
        m = m.to(dtype)        # real nn.Module conversion (.double()): parameters and buffers are converted by the real _apply
    if mode in spec.concrete_in:
        return m
    params = symbolise_module(h, m)
    if spec.constrain:
        spec.constrain(h, ctx, m, params)
    return m


def transform_harness(spec, mode, props, dtype=None):
    """mode: 'forward' (C01, C12, C13, C19 on forward), 'inverse' (C17 raises-iff, C12.. on inverse),
    'fi' (forward o inverse), 'if' (inverse o forward)"""

    xdtype = dtype or spec.dtype

    def mk_inputs(h, ctx):
        x = h.inp("x", spec.shape, xdtype)
        c = h.inp("context", spec.ctx_shape, xdtype) if spec.ctx_shape else None
        if "C16" in props:
            ctx.notes["grad_alias"] = True
            for nm_, t_ in (("x", x), ("context", c)):
                if t_ is not None:
                    t_._g = {"requires_grad": True, "leaf": nm_}
            for nm_, t_ in h.inputs.items():
                if nm_.startswith("p:") and getattr(t_, "_is_param", False):
                    t_._g = {"requires_grad": True, "leaf": nm_}
        return x, c

    def assume_domain(ctx, x, dom):
        if dom is not None:
            for t in P(x).reshape(-1):
                ctx.assume(dom(t))

    def run(h, ctx):
        m = build(h, ctx, spec, mode, dtype)
        h.module = m
        x, c = mk_inputs(h, ctx)
        if mode == "forward":
            assume_domain(ctx, x, spec.fwd_domain)
            return m.forward(x, c) if c is not None else m.forward(x)
        if mode == "inverse":
            return m.inverse(x, c) if c is not None else m.inverse(x)
        if mode == "if":
            assume_domain(ctx, x, spec.fwd_domain)
            y, ldf = m.forward(x, c) if c is not None else m.forward(x)
            if spec.inv_valid is not None:       # declared approximation constants (clamps): round trip claimed inside them
                assume_domain(ctx, y, spec.inv_valid)
            x2, ldi = m.inverse(y, c) if c is not None else m.inverse(y)
            return y, ldf, x2, ldi
        if mode == "fi":
            assume_domain(ctx, x, spec.inv_valid or spec.inv_domain)
            xx, ldi = m.inverse(x, c) if c is not None else m.inverse(x)
            y2, ldf = m.forward(xx, c) if c is not None else m.forward(xx)
            return xx, ldi, y2, ldf
        raise ValueError(mode)

    def outside_cond(h, ctx):
        dom = spec.inv_domain if mode in ("inverse", "fi") else spec.fwd_domain
        xs = list(P(h.inputs["x"]).reshape(-1))
        return z3.Or([z3.Not(dom(t)) for t in xs]) if dom is not None else z3.BoolVal(False)

    def post(h, ctx, value):
        x = h.inputs["x"]
        px = P(x)
        B = px.shape[0]
        ids = input_ids(h)
        row_of = {i: (n, idx) for i, (n, idx) in ids.items() if n in ("x", "context")}
        if mode in ("forward", "inverse"):
            out, ld = value
            po, pl = P(out), P(ld)
            if "C19" in props:
                ensure(h, ctx, "C19.dtype", z3.BoolVal(out.dtype == x.dtype and ld.dtype == x.dtype), meta={"out": str(out.dtype), "ld": str(ld.dtype), "in": str(x.dtype)})
            if "C12" in props:
                ok = tuple(po.shape[:1]) == (B,) and tuple(pl.shape) == (B,)
                bad = []
                if ok:
                    for b in range(B):
                        for t in list(np.asarray(po[b], dtype=object).reshape(-1)) + [pl[b]]:
                            for sid in base_symbols(t):
                                if sid in row_of and row_of[sid][1][0] != b:
                                    bad.append((b, row_of[sid]))
                ensure(h, ctx, "C12.row-independent", z3.BoolVal(ok and not bad), meta={"bad": str(bad[:3])})
            if "C16" in props:
                grad_connected(h, ctx, [out, ld])
            if "C13" in props:
                bad = [w for w in ctx.writes if w[0] != "fresh"]
                ensure(h, ctx, "C13.no-write", z3.BoolVal(not bad), meta={"writes": [str(w) for w in bad][:3]})
            if "C01" in props and mode == "forward" and spec.elementwise:
                ensure(h, ctx, "C01.shapes", z3.BoolVal(tuple(po.shape) == tuple(px.shape) and tuple(pl.shape) == (B,)))
                for b in range(B):
                    prod = rv(1)
                    diag_ok = True
                    for idx in np.ndindex(*px.shape[1:]):
                        o, xi = po[(b,) + idx], px[(b,) + idx]
                        for sid in base_symbols(o):
                            if sid in row_of and row_of[sid][0] == "x" and sid != xi.get_id():
                                diag_ok = False
                        prod = T.mul(prod, diff(o, xi))
                    ensure(h, ctx, "C01.diagonal", z3.BoolVal(diag_ok))
                    numr, den = exp_of_term(pl[b])
                    ensure(h, ctx, "C01.logdet", z3.And(zabs(prod) * den == numr, prod != 0))
        elif mode == "if":
            y, ldf, x2, ldi = value
            for a, b_ in zip(P(x2).reshape(-1), px.reshape(-1)):
                exp_hint(a, b_)
                ensure(h, ctx, "C02.roundtrip_if", a == b_)
                ctx.assume(a == b_)       # proved just above: later clauses may use it as a lemma
            for b in range(B):
                ensure_logs_cancel(h, ctx, "C02.neg-logdet", P(ldf)[b] + P(ldi)[b])
        elif mode == "fi":
            xx, ldi, y2, ldf = value
            for a, b_ in zip(P(y2).reshape(-1), px.reshape(-1)):
                exp_hint(a, b_)
                ensure(h, ctx, "C02.roundtrip_fi", a == b_)
                ctx.assume(a == b_)
            for b in range(B):
                ensure_logs_cancel(h, ctx, "C02.neg-logdet", P(ldf)[b] + P(ldi)[b])

    # ---- native side ------------------------------------------------------------------------------------
    def nat_module(inp):
        m = spec.make()
        if spec.eval_mode:
            m.eval()
        return load_native(native_cast(m), inp)

    def nat_args(inp):
        a = [tt(inp["x"])]
        if spec.ctx_shape:
            a.append(tt(inp["context"]))
        return a

    def native_call(h, inp):
        m = nat_module(inp)
        a = nat_args(inp)
        if mode == "forward":
            return m.forward(*a)
        if mode == "inverse":
            return m.inverse(*a)
        if mode == "if":
            y, ldf = m.forward(*a)
            x2, ldi = m.inverse(y, *a[1:])
            return y, ldf, x2, ldi
        xx, ldi = m.inverse(*a)
        y2, ldf = m.forward(xx, *a[1:])
        return xx, ldi, y2, ldf

    def native_clauses(h, inp, res):
        c = {}
        a = nat_args(inp)
        x = a[0]
        if mode == "forward":
            out, ld = res
            m = nat_module(inp)
            J = torch.autograd.functional.jacobian(lambda z: m.forward(z, *a[1:])[0], x)
            n = x[0].numel()
            ok = True; diag = True
            for b in range(x.shape[0]):
                Jb = J[b].reshape(n, -1)[:, b * n:(b + 1) * n] if J.dim() == 2 * x.dim() else None
                Jb = J.reshape(x.shape[0], n, x.shape[0], n)[b, :, b, :]
                sign, lad = torch.slogdet(Jb)
                if not (sign != 0 and torch.isfinite(lad) and abs(float(lad) - float(ld[b])) <= 1e-5 * max(1.0, abs(float(lad)))):
                    ok = False
                if not torch.allclose(Jb, torch.diag(torch.diag(Jb)), atol=1e-12):
                    diag = False
            c["C01.logdet"] = ok; c["C01.diagonal"] = diag
            c["C01.shapes"] = out.shape == x.shape and tuple(ld.shape) == (x.shape[0],)
        if mode in ("forward", "inverse"):
            out, ld = res
            m = nat_module(inp)
            f = m.forward if mode == "forward" else m.inverse
            rows = [f(*[t[i:i + 1] for t in a]) for i in range(x.shape[0])]
            try:
                c["C12.row-independent"] = bool(torch.allclose(torch.cat([r[0] for r in rows]), out, atol=1e-10) and
                                                torch.allclose(torch.cat([r[1] for r in rows]).reshape(-1), ld.reshape(-1), atol=1e-10)) and ld.shape == (x.shape[0],)
            except Exception:
                c["C12.row-independent"] = False
            m32 = spec.make(); m32.eval() if spec.eval_mode else None
            m32 = load_native(native_cast(m32), inp)
            o64, l64 = (m32.forward if mode == "forward" else m32.inverse)(*a)
            c["C19.dtype"] = o64.dtype == torch.float64 and l64.dtype == torch.float64
            before = [t.clone() for t in a]; sd0 = {k: v.clone() for k, v in m32.state_dict().items()}
            (m32.forward if mode == "forward" else m32.inverse)(*a)
            c["C13.no-write"] = all(torch.equal(p, q) for p, q in zip(before, a)) and all(torch.equal(sd0[k], v) for k, v in m32.state_dict().items())
        if mode in ("forward", "inverse") and "C16" in props:
            m = nat_module(inp)
            f = m.forward if mode == "forward" else m.inverse
            xg = x.clone().requires_grad_(True)
            leaves = [("x", xg)] + [(n_, p_) for n_, p_ in m.named_parameters()]
            for r_i in (0, 1):
                base = f(xg, *a[1:])[r_i]
                grads = torch.autograd.grad(base.sum(), [l for _, l in leaves], allow_unused=True, retain_graph=False)
                ok16 = True
                for (n_, l), g in zip(leaves, grads):
                    # does the value depend on the leaf?  (perturbation)  then a gradient must arrive
                    with torch.no_grad():
                        old = l.detach().clone(); l.add_(0.123)
                        moved = not torch.allclose(f(xg, *a[1:])[r_i], base.detach(), atol=1e-9)
                        l.copy_(old)
                    if moved and g is None:
                        ok16 = False
                c["C16.value-dependencies-are-gradient-connected"] = c.get("C16.value-dependencies-are-gradient-connected", True) and ok16
        if mode == "if":
            y, ldf, x2, ldi = res
            c["C02.roundtrip_if"] = bool(torch.allclose(x2, x, atol=1e-6, rtol=1e-6))
            c["C02.neg-logdet"] = bool(torch.allclose(ldf + ldi, torch.zeros_like(ldf), atol=1e-6))
        if mode == "fi":
            xx, ldi, y2, ldf = res
            c["C02.roundtrip_fi"] = bool(torch.allclose(y2, x, atol=1e-6, rtol=1e-6))
            c["C02.neg-logdet"] = bool(torch.allclose(ldf + ldi, torch.zeros_like(ldf), atol=1e-6))
        return c

    def outside_native(h, inp):
        raise NotImplementedError

    def sample(h, rng):
        if spec.sample is not None:
            return spec.sample(h, rng, mode)
        d = {"x": rng.normal(size=spec.shape) * 1.5}
        if spec.ctx_shape:
            d["context"] = rng.normal(size=spec.ctx_shape)
        return d

    raises = {}
    nraises = {}
    dom = spec.inv_domain if mode in ("inverse", "fi") else spec.fwd_domain
    if dom is not None and mode in ("inverse", "forward"):
        raises = {InputOutsideDomain: outside_cond}

        def nat_out(h, inp):
            # evaluate the domain predicate numerically through z3 substitution-free python: use the spec's native twin
            return spec.native_outside(inp["x"], mode)
        if hasattr(spec, "native_outside"):
            nraises = {InputOutsideDomain: nat_out}
    return Harness(f"{spec.name}[{mode}{',' + str(dtype).replace('torch.', '') if dtype else ''}]", run, post, raises=raises, native_call=native_call, native_clauses=native_clauses,
                   native_raises=nraises, sample=sample, functions=[spec.cls.forward, spec.cls.inverse] if spec.cls else [],
                   config={"transform": spec.name, "mode": mode, "shape": list(spec.shape)})
