"""contract for BoxUniform (distributions/uniform.py): torch.distributions.Independent(Uniform) is pure Python over torch ops, so the real
log_prob runs on symbolic tensors.  ensures: inside the half-open box [low, high) the log-density is -sum log(high - low) (the uniform
density of a box of that volume: normalised); outside, the support check raises ValueError."""
import numpy as np
import torch, z3
from tsv.core import Sym, P, C, toreal, rv
from tsv.harness import Harness
from tsv import terms as T
from .common import *
from nflows.distributions import uniform as DU


def boxuniform_harness(D):
    B = 2

    def run(h, ctx):
        low = h.inp("low", (D,)); high = h.inp("high", (D,))
        for l, u in zip(P(low), P(high)): ctx.assume(l < u)
        d = DU.BoxUniform(low=low, high=high)
        h.d = d
        x = h.inp("x", (B, D))
        # the upper face x_i == high_i is accepted by torch's (closed-interval) support check and gets density 0, i.e. log-density -inf, as the
        # docstring says (high exclusive): a null set, left out of the finite-value clause
        for b in range(B):
            for i in range(D): ctx.assume(P(x)[b, i] != P(high)[i])
        return d.log_prob(x)

    def inside(h, ctx):
        px, pl, ph = P(h.inputs["x"]), P(h.inputs["low"]), P(h.inputs["high"])
        return z3.And([z3.And(px[b, i] >= pl[i], px[b, i] < ph[i]) for b in range(B) for i in range(D)])

    def post(h, ctx, lp):
        from tsv.ops import s_log
        pl, ph = P(h.inputs["low"]), P(h.inputs["high"])
        p = P(lp)
        ensure(h, ctx, "C05.boxuniform.shape", z3.BoolVal(tuple(p.shape) == (B,)))
        want = rv(0)
        for i in range(D): want = want - s_log(ph[i] - pl[i])
        for b in range(B):
            ensure(h, ctx, "C05.boxuniform.log_prob-is-minus-log-volume", p[b] == want)

    def native_call(h, inp):
        d = DU.BoxUniform(low=tt(inp["low"]), high=tt(inp["high"]))
        return d.log_prob(tt(inp["x"]))

    def native_clauses(h, inp, lp):
        vol = float(torch.prod(tt(inp["high"]) - tt(inp["low"])))
        return {"C05.boxuniform.log_prob-is-minus-log-volume": bool(torch.allclose(lp, torch.full_like(lp, -np.log(vol)), atol=1e-6)), "C05.boxuniform.shape": tuple(lp.shape) == (B,)}

    def sample(h, rng):
        low = rng.normal(size=(D,)); w = rng.uniform(0.5, 2.0, size=(D,))
        return {"low": low, "high": low + w, "x": low + w * rng.uniform(0.05, 0.95, size=(B, D))}
    return Harness(f"BoxUniform[D={D}]", run, post, raises={ValueError: lambda h, ctx: z3.Not(inside(h, ctx))}, native_call=native_call, native_clauses=native_clauses,
                   native_raises={ValueError: lambda h, inp: not bool(((np.asarray(inp["x"]) >= np.asarray(inp["low"])) & (np.asarray(inp["x"]) < np.asarray(inp["high"]))).all())},
                   sample=sample, functions=[DU.BoxUniform.__init__])


def boxuniform_sample_harness(D):
    """sample / mean of the box: every coordinate of a draw is low + u (high - low) with one fresh u in [0, 1), hence inside the box; mean() is the centre"""
    n = 2

    def run(h, ctx):
        low = h.inp("low", (D,)); high = h.inp("high", (D,))
        for l, u in zip(P(low), P(high)): ctx.assume(l < u)
        d = DU.BoxUniform(low=low, high=high)
        return d.sample((n,)), d.mean

    def post(h, ctx, value):
        smp, mean = value
        pl, ph = P(h.inputs["low"]), P(h.inputs["high"])
        ps, pm = P(smp), P(mean)
        ensure(h, ctx, "C05.boxuniform.sample-shape", z3.BoolVal(tuple(ps.shape) == (n, D) and tuple(pm.shape) == (D,)))
        draws = {}
        for nm, dd in ctx.notes.get("random_draws", []):
            for t in P(dd).reshape(-1): draws[t.get_id()] = nm
        from tsv.terms import base_symbols
        used = set()
        for j in range(n):
            for i in range(D):
                us = [s_ for s_ in base_symbols(ps[j, i]) if s_ in draws]
                ensure(h, ctx, "C05.boxuniform.sample-uses-one-fresh-draw", z3.BoolVal(len(us) == 1 and us[0] not in used))
                used.update(us)
                ensure(h, ctx, "C05.boxuniform.sample-inside-box", z3.And(ps[j, i] >= pl[i], ps[j, i] < ph[i]))
                if len(us) == 1:
                    u = T.sym_by_id(us[0])
                    ensure(h, ctx, "C05.boxuniform.sample-is-affine-image-of-uniform-draw", ps[j, i] == pl[i] + u * (ph[i] - pl[i]))
        for i in range(D):
            ensure(h, ctx, "C05.boxuniform.mean-is-centre", 2 * pm[i] == pl[i] + ph[i])

    def native_call(h, inp):
        torch.manual_seed(0)
        d = DU.BoxUniform(low=tt(inp["low"]), high=tt(inp["high"]))
        return d.sample((n,)), d.mean

    def native_clauses(h, inp, r):
        smp, mean = r
        lo, hi = tt(inp["low"]), tt(inp["high"])
        return {"C05.boxuniform.sample-inside-box": bool(((smp >= lo) & (smp < hi)).all()), "C05.boxuniform.mean-is-centre": bool(torch.allclose(mean, (lo + hi) / 2)),
                "C05.boxuniform.sample-shape": tuple(smp.shape) == (n, D)}

    def sample(h, rng):
        low = rng.normal(size=(D,)); w = rng.uniform(0.5, 2.0, size=(D,))
        return {"low": low, "high": low + w}
    hn = Harness(f"BoxUniform_sample[D={D}]", run, post, native_call=native_call, native_clauses=native_clauses, sample=sample, functions=[DU.BoxUniform.__init__])
    return hn


def boxuniform_harnesses(tier):
    return [boxuniform_harness(1), boxuniform_harness(2), boxuniform_sample_harness(2)] + ([boxuniform_harness(3), boxuniform_sample_harness(1)] if tier != "quick" else [])
