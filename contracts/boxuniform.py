"""contract for BoxUniform (distributions/uniform.py): torch.distributions.Independent(Uniform) is pure Python over torch ops, so the real
log_prob runs on symbolic tensors.  ensures: inside the half-open box [low, high) the log-density is -sum log(high - low) (the uniform
density of a box of that volume: normalised).  Outside the box the value is -inf (log 0), which the real-arithmetic terms cannot carry: that
part of the docstring is checked by the bounded native harness uniform_priors_native."""
import numpy as np
import torch, z3
from tsv.core import Sym, P, C, toreal, rv
from tsv.harness import Harness
from tsv import terms as T
from .common import *
from nflows.distributions import uniform as DU


def boxuniform_harness(D):
    B = 2

    def run(h, ctx):
        low = h.inp("low", (D,)); high = h.inp("high", (D,))
        for l, u in zip(P(low), P(high)): ctx.assume(l < u)
        d = DU.BoxUniform(low=low, high=high)
        h.d = d
        x = h.inp("x", (B, D))
        # requires: x inside the half-open box (outside, and on the upper face x_i == high_i, the log-density is -inf as documented)
        for b in range(B):
            for i in range(D): ctx.assume(z3.And(P(x)[b, i] >= P(low)[i], P(x)[b, i] < P(high)[i]))
        return d.log_prob(x)

    def inside(h, ctx):
        px, pl, ph = P(h.inputs["x"]), P(h.inputs["low"]), P(h.inputs["high"])
        return z3.And([z3.And(px[b, i] >= pl[i], px[b, i] < ph[i]) for b in range(B) for i in range(D)])

    def post(h, ctx, lp):
        from tsv.ops import s_log
        pl, ph = P(h.inputs["low"]), P(h.inputs["high"])
        p = P(lp)
        ensure(h, ctx, "C05.boxuniform.shape", z3.BoolVal(tuple(p.shape) == (B,)))
        want = rv(0)
        for i in range(D): want = want - s_log(ph[i] - pl[i])
        for b in range(B):
            ensure(h, ctx, "C05.boxuniform.log_prob-is-minus-log-volume", p[b] == want)

    def native_call(h, inp):
        d = DU.BoxUniform(low=tt(inp["low"]), high=tt(inp["high"]))
        return d.log_prob(tt(inp["x"]))

    def native_clauses(h, inp, lp):
        vol = float(torch.prod(tt(inp["high"]) - tt(inp["low"])))
        return {"C05.boxuniform.log_prob-is-minus-log-volume": bool(torch.allclose(lp, torch.full_like(lp, -np.log(vol)), atol=1e-6)), "C05.boxuniform.shape": tuple(lp.shape) == (B,)}

    def sample(h, rng):
        low = rng.normal(size=(D,)); w = rng.uniform(0.5, 2.0, size=(D,))
        return {"low": low, "high": low + w, "x": low + w * rng.uniform(0.05, 0.95, size=(B, D))}
    return Harness(f"BoxUniform[D={D}]", run, post, native_call=native_call, native_clauses=native_clauses, sample=sample, functions=[DU.BoxUniform.__init__])


def boxuniform_sample_harness(D):
    """sample / mean of the box: every coordinate of a draw is low + u (high - low) with one fresh u in [0, 1), hence inside the box; mean() is the centre"""
    n = 2

    def run(h, ctx):
        low = h.inp("low", (D,)); high = h.inp("high", (D,))
        for l, u in zip(P(low), P(high)): ctx.assume(l < u)
        d = DU.BoxUniform(low=low, high=high)
        return d.sample((n,)), d.mean

    def post(h, ctx, value):
        smp, mean = value
        pl, ph = P(h.inputs["low"]), P(h.inputs["high"])
        ps, pm = P(smp), P(mean)
        ensure(h, ctx, "C05.boxuniform.sample-shape", z3.BoolVal(tuple(ps.shape) == (n, D) and tuple(pm.shape) == (D,)))
        draws = {}
        for nm, dd in ctx.notes.get("random_draws", []):
            for t in P(dd).reshape(-1): draws[t.get_id()] = nm
        from tsv.terms import base_symbols
        used = set()
        for j in range(n):
            for i in range(D):
                us = [s_ for s_ in base_symbols(ps[j, i]) if s_ in draws]
                ensure(h, ctx, "C05.boxuniform.sample-uses-one-fresh-draw", z3.BoolVal(len(us) == 1 and us[0] not in used))
                used.update(us)
                ensure(h, ctx, "C05.boxuniform.sample-inside-box", z3.And(ps[j, i] >= pl[i], ps[j, i] < ph[i]))
                if len(us) == 1:
                    u = T.sym_by_id(us[0])
                    ensure(h, ctx, "C05.boxuniform.sample-is-affine-image-of-uniform-draw", ps[j, i] == pl[i] + u * (ph[i] - pl[i]))
        for i in range(D):
            ensure(h, ctx, "C05.boxuniform.mean-is-centre", 2 * pm[i] == pl[i] + ph[i])

    def native_call(h, inp):
        torch.manual_seed(0)
        d = DU.BoxUniform(low=tt(inp["low"]), high=tt(inp["high"]))
        return d.sample((n,)), d.mean

    def native_clauses(h, inp, r):
        smp, mean = r
        lo, hi = tt(inp["low"]), tt(inp["high"])
        return {"C05.boxuniform.sample-inside-box": bool(((smp >= lo) & (smp < hi)).all()), "C05.boxuniform.mean-is-centre": bool(torch.allclose(mean, (lo + hi) / 2)),
                "C05.boxuniform.sample-shape": tuple(smp.shape) == (n, D)}

    def sample(h, rng):
        low = rng.normal(size=(D,)); w = rng.uniform(0.5, 2.0, size=(D,))
        return {"low": low, "high": low + w}
    hn = Harness(f"BoxUniform_sample[D={D}]", run, post, native_call=native_call, native_clauses=native_clauses, sample=sample, functions=[DU.BoxUniform.__init__])
    return hn


def uniform_priors_native_harness():
    """bounded enumeration, evaluated natively (the rejection sampler of LotkaVolterraOscillating loops a data-dependent number of times and the
    value -inf is outside the real-arithmetic terms): points outside the box get log-density -inf without raising, as the docstring of
    BoxUniform says; LotkaVolterraOscillating.sample returns the requested number of points, all inside its box"""
    from tsv.core import Ctx

    def grid():
        res = {}
        b = DU.BoxUniform(low=torch.tensor([0.0, 1.0]), high=torch.tensor([2.0, 4.0]))
        for name, pt in (("outside-high", [3.0, 2.0]), ("outside-low", [1.0, 0.5]), ("far", [-50.0, 80.0])):
            try:
                v = b.log_prob(torch.tensor([pt]))
                res[("box", name)] = ("ret", bool(torch.isinf(v).all() and (v < 0).all()))
            except Exception as e:
                res[("box", name)] = ("raise", type(e).__name__)
        lv = DU.LotkaVolterraOscillating()
        for seed in range(3):
            for n in (1, 7, 50):
                torch.manual_seed(seed)
                try:
                    s_ = lv.sample((n,))
                    inside = bool(((s_ >= -5) & (s_ < 2)).all())
                    res[("lotka-sample", seed, n)] = ("ret", tuple(s_.shape) == (n, 4) and inside)
                except Exception as e:
                    res[("lotka-sample", seed, n)] = ("raise", type(e).__name__)
        # MG1Uniform outside its support (noise = (p0, p1 - p0, p2) outside the box): torch's Uniform raises ValueError under its default argument
        # validation; a variant that returns instead must give density zero (log-density -inf in some coordinate).  Either is accepted, a finite
        # density is not (it would add mass outside the sheared box).
        mg = DU.MG1Uniform(low=torch.zeros(3), high=torch.tensor([10.0, 10.0, 1.0 / 3.0]))
        for name, pt in (("noise1-below", [5.0, 2.0, 0.1]), ("noise0-above", [11.0, 12.0, 0.1]), ("noise1-above", [5.0, 20.0, 0.1]), ("noise2-above", [5.0, 6.0, 0.5]),
                         ("noise0-below", [-1.0, 0.0, 0.1]), ("noise2-below", [5.0, 6.0, -0.1]), ("noise1-below-small", [9.0, 8.5, 0.2])):
            try:
                v = mg.log_prob(torch.tensor([pt]))
                res[("mg1-outside", name)] = ("ret", bool(torch.isinf(v.sum(-1)).all() and (v.sum(-1) < 0).all()))
            except ValueError:
                res[("mg1-outside", name)] = ("ret", True)
            except Exception as e:
                res[("mg1-outside", name)] = ("raise", type(e).__name__)
        try:
            v = lv.log_prob(torch.tensor([[3.0, 0.0, 0.0, 0.0]]))
            res[("lotka-log_prob-outside",)] = ("ret", bool(torch.isinf(v).all() and (v < 0).all()))
        except Exception as e:
            res[("lotka-log_prob-outside",)] = ("raise", type(e).__name__)
        return res

    def run(h, ctx):
        saved = Ctx.cur
        Ctx.cur = None
        try:
            return grid()
        finally:
            Ctx.cur = saved

    def post(h, ctx, res):
        for key, got in res.items():
            ctx.oblige("ensures", z3.BoolVal(got == ("ret", True)), label="C05.uniform-priors." + key[0], loc=("contract", f"uniform:{key}", 0), meta={"got": str(got)})

    def native_clauses(h, inp, res):
        c = {}
        for key, got in res.items():
            c["C05.uniform-priors." + key[0]] = c.get("C05.uniform-priors." + key[0], True) and got == ("ret", True)
        return c
    hn = Harness("uniform_priors_native[]", run, post, native_call=lambda h, inp: grid(), native_clauses=native_clauses, sample=lambda h, rng: {}, check_defined=False,
                 functions=[DU.BoxUniform.__init__, DU.LotkaVolterraOscillating.sample, DU.LotkaVolterraOscillating.log_prob, DU.MG1Uniform.log_prob])
    hn.native_float32 = False
    return hn


def mg1_harness():
    """(native replays run in float32: the shear matrices inside the methods are float32 constants, a double value raises a dtype error)
    MG1Uniform (a torch.distributions.Uniform subclass over 3 coordinates): log_prob(x) is the batch-of-uniforms log-density of the noise
    x @ A, one number per coordinate.  ensures: (a) _to_noise is the linear map x -> x A for the matrix A it returns on the unit vectors, with
    det A == 1 (so the density of x is the density of the noise: change of variables with unit Jacobian, lemma 4f/4g premises);
    (b) _to_parameters undoes _to_noise; (c) where the noise lies in the half-open box, the coordinates of log_prob are -log(high_i - low_i),
    so their sum is -log volume (normalised over the sheared box).  validate_args is torch's default: a point outside the support raises
    (torch's Uniform convention), which the precondition excludes."""
    B, D = 2, 3

    def noise_terms(px):
        # the shear stated by the property text: noise = (x0, x1 - x0, x2)
        return [[px[b, 0], px[b, 1] - px[b, 0], px[b, 2]] for b in range(B)]

    def run(h, ctx):
        low = h.inp("low", (D,)); high = h.inp("high", (D,))
        for l, u in zip(P(low), P(high)): ctx.assume(l < u)
        d = DU.MG1Uniform(low=low, high=high)
        h.d = d
        x = h.inp("x", (B, D))
        nz = noise_terms(P(x))
        for b in range(B):
            for i in range(D): ctx.assume(z3.And(nz[b][i] >= P(low)[i], nz[b][i] < P(high)[i]))
        return d.log_prob(x), d._to_noise(x), d._to_parameters(d._to_noise(x))

    def post(h, ctx, value):
        from tsv.ops import s_log
        lp, nz, back = value
        pl, ph, px = P(h.inputs["low"]), P(h.inputs["high"]), P(h.inputs["x"])
        p, pn, pb = P(lp), P(nz), P(back)
        ensure(h, ctx, "C05.mg1.shape", z3.BoolVal(tuple(p.shape) == (B, D) and tuple(pn.shape) == (B, D) and tuple(pb.shape) == (B, D)))
        # A as the real code gives it on the unit vectors (evaluated natively: the matrices are constants of the methods)
        from tsv.core import Ctx
        saved = Ctx.cur; Ctx.cur = None
        try:
            A = h.d._to_noise(torch.eye(D, dtype=torch.float32)).double()
            Ainv = h.d._to_parameters(torch.eye(D, dtype=torch.float32)).double()
        finally:
            Ctx.cur = saved
        ensure(h, ctx, "C05.mg1.shear-has-unit-determinant", z3.BoolVal(float(torch.det(A)) == 1.0 and float(torch.det(Ainv)) == 1.0 and bool((A @ Ainv == torch.eye(D, dtype=torch.float64)).all())))
        for b in range(B):
            for j in range(D):
                lin = rv(0)
                for i in range(D): lin = lin + px[b, i] * rv(float(A[i, j]))
                ensure(h, ctx, "C05.mg1.to_noise-is-the-linear-map", pn[b, j] == lin)
                ensure(h, ctx, "C05.mg1.to_parameters-undoes-to_noise", pb[b, j] == px[b, j])
                ensure(h, ctx, "C05.mg1.log_prob-is-minus-log-width-per-coordinate", p[b, j] == -s_log(ph[j] - pl[j]))

    def native_call(h, inp):
        d = DU.MG1Uniform(low=tt(inp["low"], torch.float32), high=tt(inp["high"], torch.float32))
        x = tt(inp["x"], torch.float32)
        return d.log_prob(x), d._to_noise(x), d._to_parameters(d._to_noise(x))

    def native_clauses(h, inp, r):
        lp, nz, back = r
        lo, hi, x = tt(inp["low"], torch.float32), tt(inp["high"], torch.float32), tt(inp["x"], torch.float32)
        want = -torch.log(hi - lo).expand_as(lp)
        A = torch.tensor([[1.0, -1, 0], [0, 1, 0], [0, 0, 1]], dtype=x.dtype)
        return {"C05.mg1.log_prob-is-minus-log-width-per-coordinate": bool(torch.allclose(lp, want.to(lp.dtype), atol=1e-5)),
                "C05.mg1.to_noise-is-the-linear-map": bool(torch.allclose(nz, (x @ A).to(nz.dtype), atol=1e-5)),
                "C05.mg1.to_parameters-undoes-to_noise": bool(torch.allclose(back, x.to(back.dtype), atol=1e-5)),
                "C05.mg1.shape": tuple(lp.shape) == (B, D)}

    def sample(h, rng):
        low = rng.normal(size=(D,)); w = rng.uniform(0.5, 2.0, size=(D,))
        nz = low + w * rng.uniform(0.1, 0.9, size=(B, D))
        x = nz.copy(); x[:, 1] = nz[:, 1] + nz[:, 0]
        return {"low": low, "high": low + w, "x": x}
    hn = Harness("MG1Uniform_density[]", run, post, native_call=native_call, native_clauses=native_clauses, sample=sample,
                 functions=[DU.MG1Uniform.log_prob, DU.MG1Uniform._to_noise, DU.MG1Uniform._to_parameters])
    hn.native_float32 = False
    return hn


def mg1_sample_harness():
    """MG1Uniform.sample: the noise of a draw (its image under _to_noise) is low + u (high - low) with one fresh u in [0, 1) per coordinate,
    hence inside the box: samples follow the density that log_prob reports"""
    n, D = 2, 3

    def run(h, ctx):
        low = h.inp("low", (D,)); high = h.inp("high", (D,))
        for l, u in zip(P(low), P(high)): ctx.assume(l < u)
        d = DU.MG1Uniform(low=low, high=high)
        s = d.sample((n,))
        r = d.rsample((n,))
        return s, d._to_noise(s), d.mean, d._to_noise(r)

    def post(h, ctx, value):
        smp, nz, mean, rnz = value
        pm = P(mean)
        ensure(h, ctx, "C05.mg1.mean-shape", z3.BoolVal(tuple(pm.shape) == (D,)))
        if tuple(pm.shape) == (D,):
            # expectation of the parameters p = noise @ A_inv with noise_i ~ U[low_i, high_i): (m0, m0 + m1, m2) for the box centre m
            l_, h_ = P(h.inputs["low"]), P(h.inputs["high"])
            ensure(h, ctx, "C05.mg1.mean-is-expectation-of-the-parameters", z3.And(2 * pm[0] == l_[0] + h_[0], 2 * pm[1] == l_[0] + h_[0] + l_[1] + h_[1], 2 * pm[2] == l_[2] + h_[2]))
        pl, ph = P(h.inputs["low"]), P(h.inputs["high"])
        ps, pn = P(smp), P(nz)
        ensure(h, ctx, "C05.mg1.sample-shape", z3.BoolVal(tuple(ps.shape) == (n, D) and tuple(pn.shape) == (n, D)))
        draws = {}
        for nm, dd in ctx.notes.get("random_draws", []):
            for t in P(dd).reshape(-1): draws[t.get_id()] = nm
        from tsv.terms import base_symbols
        used = set()
        # rsample (torch's reparameterised sampler, inherited API) is a sampler too: its draws must follow the same density
        prn = P(rnz)
        ensure(h, ctx, "C05.mg1.rsample-shape", z3.BoolVal(tuple(prn.shape) == (n, D)))
        if tuple(prn.shape) == (n, D):
            for j in range(n):
                for i in range(D):
                    us = [s_ for s_ in base_symbols(z3.simplify(prn[j, i], som=True)) if s_ in draws]
                    ensure(h, ctx, "C05.mg1.rsample-noise-uses-one-fresh-draw", z3.BoolVal(len(us) == 1 and us[0] not in used))
                    used.update(us)
                    ensure(h, ctx, "C05.mg1.rsample-noise-inside-box", z3.And(prn[j, i] >= pl[i], prn[j, i] < ph[i]))
                    if len(us) == 1:
                        ensure(h, ctx, "C05.mg1.rsample-noise-is-affine-image-of-uniform-draw", prn[j, i] == pl[i] + T.sym_by_id(us[0]) * (ph[i] - pl[i]))
        for j in range(n):
            for i in range(D):
                us = [s_ for s_ in base_symbols(z3.simplify(pn[j, i], som=True)) if s_ in draws]   # the shear and its inverse cancel syntactically in sum-of-monomials form
                ensure(h, ctx, "C05.mg1.sample-noise-uses-one-fresh-draw", z3.BoolVal(len(us) == 1 and us[0] not in used))
                used.update(us)
                ensure(h, ctx, "C05.mg1.sample-noise-inside-box", z3.And(pn[j, i] >= pl[i], pn[j, i] < ph[i]))
                if len(us) == 1:
                    u = T.sym_by_id(us[0])
                    ensure(h, ctx, "C05.mg1.sample-noise-is-affine-image-of-uniform-draw", pn[j, i] == pl[i] + u * (ph[i] - pl[i]))

    def native_call(h, inp):
        torch.manual_seed(0)
        d = DU.MG1Uniform(low=tt(inp["low"], torch.float32), high=tt(inp["high"], torch.float32))
        s = d.sample((n,))
        r = d.rsample((n,))
        return s, d._to_noise(s), d.mean, d._to_noise(r)

    def native_clauses(h, inp, r):
        smp, nz, mean, rnz = r
        lo, hi = tt(inp["low"], torch.float32), tt(inp["high"], torch.float32)
        A = torch.tensor([[1.0, -1, 0], [0, 1, 0], [0, 0, 1]], dtype=smp.dtype)
        z = smp @ A
        m = (lo + hi) / 2
        want = torch.stack([m[0], m[0] + m[1], m[2]])
        return {"C05.mg1.sample-noise-inside-box": bool(((z >= lo - 1e-6) & (z <= hi + 1e-6)).all()), "C05.mg1.sample-shape": tuple(smp.shape) == (n, D),
                "C05.mg1.rsample-noise-inside-box": tuple(rnz.shape) == (n, D) and bool(((rnz >= lo - 1e-6) & (rnz <= hi + 1e-6)).all()),
                "C05.mg1.mean-is-expectation-of-the-parameters": tuple(mean.shape) == (D,) and bool(torch.allclose(mean, want.to(mean.dtype), atol=1e-5))}

    def sample(h, rng):
        low = rng.normal(size=(D,)); w = rng.uniform(0.5, 2.0, size=(D,))
        return {"low": low, "high": low + w}
    hn = Harness("MG1Uniform_sample[]", run, post, native_call=native_call, native_clauses=native_clauses, sample=sample,
                 functions=[DU.MG1Uniform.__dict__[k_] for k_ in ('sample', 'rsample') if k_ in DU.MG1Uniform.__dict__] + [DU.MG1Uniform._to_noise, DU.MG1Uniform._to_parameters] + ([DU.MG1Uniform.mean.fget] if 'mean' in DU.MG1Uniform.__dict__ else []))
    hn.native_float32 = False
    return hn


def boxuniform_harnesses(tier):
    return [uniform_priors_native_harness(), boxuniform_harness(1), boxuniform_harness(2), boxuniform_sample_harness(2), mg1_harness(), mg1_sample_harness()] + ([boxuniform_harness(3), boxuniform_sample_harness(1)] if tier != "quick" else [])
