"""the library's own conditioner networks in evaluation mode: row-wise (C12), fresh result and no writes (C13) -- this discharges,
for nflows.nn.nets, the assumptions made about conditioner stubs in the coupling contracts"""
import numpy as np
import torch, z3
from tsv.core import Sym, P
from tsv.harness import Harness
from tsv.terms import base_symbols
from .common import *
from .cache import symbolise
from nflows.nn import nets


def net_harness(name, make, xshape, cshape=None):
    def run(h, ctx):
        m = make()
        m.eval()
        symbolise(h, m)
        for mm in m.modules():
            for k, b in list(mm._buffers.items()):
                if b is not None and b.dtype.is_floating_point:
                    s = h.inp("b:" + k + str(id(mm) % 1000), tuple(b.shape), b.dtype, owner="buffer")
                    mm._buffers[k] = s
                    if k == "running_var":
                        for t in P(s).reshape(-1): ctx.assume(t >= 0)
        x = h.inp("x", xshape)
        c = h.inp("context", cshape) if cshape else None
        h.x = x
        out = m(x, c) if cshape else m(x)
        return out

    def post(h, ctx, out):
        px = P(h.inputs["x"])
        ids = {}
        for n in ("x", "context"):
            if n in h.inputs:
                p = P(h.inputs[n])
                for idx in np.ndindex(*p.shape): ids[p[idx].get_id()] = idx[0]
        po = P(out)
        bad = [(b, ids[s]) for b in range(po.shape[0]) for t in po[b].reshape(-1) for s in base_symbols(t) if s in ids and ids[s] != b]
        ensure(h, ctx, "C12.row-independent", z3.BoolVal(not bad and po.shape[0] == px.shape[0]))
        ensure(h, ctx, "C13.no-write", z3.BoolVal(not [w for w in ctx.writes if w[0] != "fresh"]), meta={"writes": str([w for w in ctx.writes if w[0] != "fresh"][:3])})
        ensure(h, ctx, "C13.result-is-fresh", z3.BoolVal(ctx.owner_of(P(out)) == "fresh"))

    def nat_module():
        torch.manual_seed(0)
        m = native_cast(make()).eval()
        with torch.no_grad():       # generic weights (residual blocks are initialised near zero, which hides what happens inside them)
            for p_ in m.parameters():
                p_.copy_(torch.randn(p_.shape, dtype=p_.dtype) * 0.8)
        return m

    def native_call(h, inp):
        m = nat_module()
        return m(tt(inp["x"]), tt(inp["context"])) if cshape else m(tt(inp["x"]))

    def native_clauses(h, inp, res):
        m = nat_module()
        x = tt(inp["x"]); c = tt(inp["context"]) if cshape else None
        # last row first: a random stream consumed in batch order would otherwise reproduce the batch result by coincidence
        rows = [m(x[i:i + 1], c[i:i + 1]) if cshape else m(x[i:i + 1]) for i in reversed(range(x.shape[0]))][::-1]
        sd = {k: v.clone() for k, v in m.state_dict().items()}; xb = x.clone()
        m(x, c) if cshape else m(x)
        rowwise = bool(torch.allclose(torch.cat(rows), res, atol=1e-6))
        return {"C12.row-independent": rowwise, "C12.no-random-draw-in-evaluation": rowwise,
                "C13.no-write": bool(torch.equal(xb, x)) and all(torch.equal(sd[k], v) for k, v in m.state_dict().items())}
    return Harness(f"net_{name}[]", run, post, native_call=native_call, native_clauses=native_clauses,
                   sample=lambda h, rng: {"x": rng.normal(size=xshape), **({"context": rng.normal(size=cshape)} if cshape else {})}, functions=[])


def nets_harnesses(tier):
    return [
        net_harness("ResidualNet", lambda: nets.ResidualNet(2, 3, hidden_features=3, num_blocks=1), (2, 2)),
        net_harness("ResidualNetBNctx", lambda: nets.ResidualNet(2, 2, hidden_features=3, context_features=2, num_blocks=1, use_batch_norm=True), (2, 2), (2, 2)),
        net_harness("MLP", lambda: nets.MLP((2,), (3,), hidden_sizes=[3]), (2, 2)),
        net_harness("ConvResidualNet", lambda: nets.ConvResidualNet(1, 2, hidden_channels=2, num_blocks=1, use_batch_norm=True), (2, 1, 2, 2)),
        net_harness("ResidualNetDropout", lambda: nets.ResidualNet(2, 2, hidden_features=3, num_blocks=1, dropout_probability=0.5), (2, 2)),
        net_harness("ConvResidualNetDropout", lambda: nets.ConvResidualNet(1, 2, hidden_channels=2, num_blocks=1, dropout_probability=0.5), (2, 1, 2, 2)),
        net_harness("MADEDropout", lambda: __import__("nflows.transforms.made", fromlist=["MADE"]).MADE(3, 4, num_blocks=1, dropout_probability=0.5), (2, 3)),
        net_harness("MADEffDropout", lambda: __import__("nflows.transforms.made", fromlist=["MADE"]).MADE(3, 4, num_blocks=1, use_residual_blocks=False, dropout_probability=0.5), (2, 3)),
        net_harness("MADEndeDropout", lambda: __import__("nflows.nn.nde.made", fromlist=["MADE"]).MADE(3, 4, num_blocks=1, dropout_probability=0.5), (2, 3)),
    ]
