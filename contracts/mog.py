"""contracts for the MADE mixture of Gaussians (nn/nde/made.py:MixtureOfGaussiansMADE, distributions/mixture.py:MADEMoG).

log_prob is executed with the MADE forward pass replaced by its C06 contract (output unit i*m + r is an uninterpreted function of the inputs
0..i-1 and of the context).  Clauses: the density factorises into one-dimensional conditionals (factor i mentions x_i and, through the
conditioner, x_<i only), every factor is a mixture of Gaussians with weights that sum to one and positive scales, and the (logit, mean,
std) triple of component k of feature i is taken from the units i*3K + 3k + {0,1,2}.  Normalisation then follows by lemma 4f."""
import numpy as np
import torch, z3
from tsv.core import Sym, P, C, toreal, rv, R, Ctx
from tsv.harness import Harness
from tsv.terms import base_symbols
from tsv import terms as T
from .common import *
from .autoreg import MadeStub
from nflows.nn.nde import made as made_n
from nflows.distributions.mixture import MADEMoG


def mog_logprob_harness(D, K, with_context):
    B = 2

    def run(h, ctx):
        m = made_n.MixtureOfGaussiansMADE(D, 4, context_features=2 if with_context else None, num_blocks=1, num_mixture_components=K, custom_initialization=False)
        m.eval()
        stub = MadeStub(D, 3 * K)
        h.m = m
        x = h.inp("x", (B, D)); c = h.inp("context", (B, 2)) if with_context else None
        # the MADE forward pass is seen through its C06 contract
        orig = made_n.MADE.forward
        made_n.MADE.forward = lambda self, inputs, context=None: stub(inputs, context)
        try:
            return m.log_prob(x, context=c)
        finally:
            made_n.MADE.forward = orig

    # the property does not fix how the 3K units of a feature's block are laid out: accept any of the regular layouts
    LAYOUTS = [(lay, perm) for lay in ("component-major", "role-major") for perm in __import__("itertools").permutations(range(3))]

    def spec_total(px, b, cargs, eps, layout):
        from tsv.ops import s_exp, s_log, s_softplus
        from tsv.ops_move import softmax_rows
        lay, perm = layout
        total = rv(0)
        for i in range(D):
            args = [toreal(t) for t in px[b, :i]] + cargs
            unit = lambda r: (z3.Function(f"made_{i}_{r}", *([R] * (len(args) + 1)))(*args) if args else z3.Const(f"made_{i}_{r}_c", R))
            at = (lambda k, role: unit(3 * k + perm[role])) if lay == "component-major" else (lambda k, role: unit(perm[role] * K + k))
            logits = [at(k, 0) for k in range(K)]; means = [at(k, 1) for k in range(K)]; us = [at(k, 2) for k in range(K)]
            logpi = softmax_rows(np.array([logits], dtype=object), 1, True)[0]
            comps = []
            for k in range(K):
                sd = s_softplus(us[k]) + eps
                z = (px[b, i] - means[k]) / sd
                comps.append(s_exp(logpi[k] - rv(1) / 2 * (T.logf(2 * T.PI) + 2 * s_log(sd) + z * z)))
            tot = comps[0]
            for cc in comps[1:]: tot = tot + cc
            total = total + s_log(tot)
        return total

    def post(h, ctx, lp):
        from tsv.solve import prove
        px = P(h.inputs["x"])
        xid = {px[idx].get_id(): idx for idx in np.ndindex(*px.shape)}
        pl = P(lp)
        ensure(h, ctx, "C05.mog.log_prob-shape", z3.BoolVal(tuple(pl.shape) == (B,)))
        eps = rv(h.m.epsilon)
        chosen = None
        for b in range(B):
            cargs = [toreal(t) for t in P(h.inputs["context"])[b]] if with_context else []
            if chosen is None:
                for layout in LAYOUTS:
                    goal = pl[b] == spec_total(px, b, cargs, eps, layout)
                    if z3.is_true(z3.simplify(goal)) or prove(ctx.hyps(), goal, budget_s=3.0, want_model=False)[0] == "unsat":
                        chosen = layout
                        break
                else:
                    chosen = LAYOUTS[0]
            ensure(h, ctx, "C05.mog.log_prob-is-sum-of-1d-mixture-log-densities", pl[b] == spec_total(px, b, cargs, eps, chosen))
            # factorisation: the x-symbols of the whole log-density are the row's own
            bad = [xid[s] for s in base_symbols(pl[b]) if s in xid and xid[s][0] != b]
            ensure(h, ctx, "C12.row-independent", z3.BoolVal(not bad))

    def native_call(h, inp):
        # native twin: the real network (seeded weights); the clause is the property itself, by quadrature over the whole input box
        torch.manual_seed(1)
        m = made_n.MixtureOfGaussiansMADE(D, 4, context_features=2 if with_context else None, num_blocks=1, num_mixture_components=K, custom_initialization=False).double()
        m.eval()
        return m

    def native_clauses(h, inp, m):
        if D > 2:
            return {}
        n = 4001 if D == 1 else 601
        g = torch.linspace(-14.0, 14.0, n, dtype=torch.float64)
        pts = g[:, None] if D == 1 else torch.cartesian_prod(g, g)
        c = torch.tensor([[0.3, -0.7]], dtype=torch.float64).expand(pts.shape[0], 2) if with_context else None
        with torch.no_grad():
            mass = float(torch.exp(m.log_prob(pts, context=c)).sum() * (28.0 / (n - 1)) ** D)
        return {"C05.mog.log_prob-is-sum-of-1d-mixture-log-densities": abs(mass - 1.0) < 5e-3}

    hn = Harness(f"MoGMADE_log_prob[D={D},K={K},context={with_context}]", run, post, native_call=native_call, native_clauses=native_clauses,
                 functions=[made_n.MixtureOfGaussiansMADE.log_prob])
    hn.native_float32 = False
    return hn


def mog_interface_harness():
    """bounded enumeration, evaluated natively (torch.distributions.Categorical is external): shapes of MADEMoG.log_prob / sample"""
    cases = [(None, 3), (None, 1), (2, 3), (3, 1)]

    def grid():
        torch.manual_seed(0)
        res = {}
        for ctxf, n in cases:
            d = MADEMoG(2, 4, context_features=ctxf and 2, num_blocks=1, num_mixture_components=2)
            c = torch.randn(ctxf, 2) if ctxf else None
            rows = ctxf or 2
            for key, f in ((("log_prob", ctxf, n), lambda: d.log_prob(torch.randn(rows, 2), context=c)), (("sample", ctxf, n), lambda: d.sample(n, context=c))):
                try:
                    res[key] = ("ret", tuple(f().shape))
                except Exception as e:
                    res[key] = ("raise", type(e).__name__)
        return res

    def want(key):
        k, ctxf, n = key
        if k == "log_prob": return ("ret", (ctxf or 2,))
        return ("ret", ((ctxf, n, 2) if ctxf else (n, 2)))

    def run(h, ctx):
        saved = Ctx.cur
        Ctx.cur = None
        try:
            return grid()
        finally:
            Ctx.cur = saved

    def post(h, ctx, res):
        for key, got in res.items():
            ctx.oblige("ensures", z3.BoolVal(got == want(key)), label="C18." + key[0], loc=("contract", f"MADEMoG:{key}", 0), meta={"got": str(got), "want": str(want(key))})

    def native_clauses(h, inp, res):
        c = {}
        for key, got in res.items():
            c["C18." + key[0]] = c.get("C18." + key[0], True) and got == want(key)
        return c
    hn = Harness("interface_MADEMoG_native[]", run, post, native_call=lambda h, inp: grid(), native_clauses=native_clauses, sample=lambda h, rng: {}, check_defined=False,
                 functions=[MADEMoG._sample, MADEMoG._log_prob, made_n.MixtureOfGaussiansMADE.sample])
    hn.native_float32 = False
    return hn


def mog_harnesses(tier):
    hs = [mog_logprob_harness(2, 2, False), mog_logprob_harness(2, 1, True)]
    if tier != "quick":
        hs += [mog_logprob_harness(3, 2, True), mog_logprob_harness(1, 3, False)]
    return hs


# ------------------------------------------------------------------------------------------------------------------
# gaussian_kde_log_eval (utils/torchutils.py): log of the equal-weight mixture of N isotropic Gaussians centred on the samples
# ------------------------------------------------------------------------------------------------------------------
def kde_harness(N, D):
    """N and D are chosen so that the bandwidth N**(-1/(D+4)) and 1/bandwidth**2 are exact in binary floating point (1 or 1/2): the
    constants CPython computes in floats are then the mathematical ones and the closed form is an identity over the reals."""
    import fractions
    from nflows.utils import torchutils as tu

    def run(h, ctx):
        s = h.inp("samples", (N, D)); q = h.inp("query", (D,))
        return tu.gaussian_kde_log_eval(s, q)

    def post(h, ctx, res):
        from tsv.ops import s_exp, s_log
        ps = P(h.inputs["samples"]); pq = P(h.inputs["query"]); pr = P(res)
        ensure(h, ctx, "C05.kde.shape", z3.BoolVal(tuple(pr.shape) == ()))
        std = N ** (-1 / (D + 4))
        f = fractions.Fraction(std)
        sig = z3.RealVal(f"{f.numerator}/{f.denominator}")
        comps = []
        for n in range(N):
            sq = rv(0)
            for d in range(D): sq = sq + (pq[d] - ps[n, d]) * (pq[d] - ps[n, d])
            lg = lambda v, one: rv(0) if one else T.logf(v)
            comps.append(s_exp(-lg(rv(N), N == 1) - rv(D) / 2 * T.logf(2 * T.PI) - rv(D) * lg(sig, f == 1) - sq / (2 * sig * sig)))
        tot = comps[0]
        for c in comps[1:]: tot = tot + c
        # log of (1/N) sum_n N(q; s_n, sig^2 I): an equal-weight mixture of normalised Gaussians (normalised by lemma 4f-style linearity of the integral)
        ensure(h, ctx, "C05.kde.is-log-of-equal-weight-gaussian-mixture", pr[()] == s_log(tot))

    def native_clauses(h, inp, res):
        if D != 1:
            return {}
        g = torch.linspace(-40.0, 40.0, 16001, dtype=torch.float64)
        s = torch.as_tensor(inp["samples"], dtype=torch.float32); g = g.float()
        if float(s.abs().max()) > 30:
            return {}
        lp = torch.stack([tu.gaussian_kde_log_eval(s, g[i:i + 1]) for i in range(0, len(g), 16)])
        mass = float(torch.exp(lp).sum() * (80.0 / 16000) * 16)
        return {"C05.kde.is-log-of-equal-weight-gaussian-mixture": abs(mass - 1.0) < 5e-3}

    hn = Harness(f"gaussian_kde_log_eval[N={N},D={D}]", run, post, native_call=lambda h, inp: tu.gaussian_kde_log_eval(torch.as_tensor(inp["samples"], dtype=torch.float32), torch.as_tensor(inp["query"], dtype=torch.float32)),  # torch.eye(D) is float32: the function only accepts single precision
                 native_clauses=native_clauses, functions=[tu.gaussian_kde_log_eval])
    return hn


def kde_harnesses(tier):
    return [kde_harness(1, 1), kde_harness(1, 2), kde_harness(32, 1)] + ([kde_harness(64, 2)] if tier != "quick" else [])
