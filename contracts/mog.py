"""contracts for the MADE mixture of Gaussians (nn/nde/made.py:MixtureOfGaussiansMADE, distributions/mixture.py:MADEMoG).

log_prob is executed with the MADE forward pass replaced by its C06 contract (output unit i*m + r is an uninterpreted function of the inputs
0..i-1 and of the context).  Clauses: the density factorises into one-dimensional conditionals (factor i mentions x_i and, through the
conditioner, x_<i only), every factor is a mixture of Gaussians with weights that sum to one and positive scales, and the (logit, mean,
std) triple of component k of feature i is taken from the units i*3K + 3k + {0,1,2}.  Normalisation then follows by lemma 4f."""
import math
import numpy as np
import torch, z3
from tsv.core import Sym, P, C, toreal, rv, R, Ctx
from tsv.harness import Harness
from tsv.terms import base_symbols
from tsv import terms as T
from .common import *
from .autoreg import MadeStub
from nflows.nn.nde import made as made_n
from nflows.distributions.mixture import MADEMoG


import itertools as _it
LAYOUTS = [(lay, perm) for lay in ("component-major", "role-major") for perm in _it.permutations(range(3))]


def unit_at(unit, K, layout, k, role):
    """the MADE unit holding (role 0: logit, 1: mean, 2: unconstrained std) of component k under a layout of the feature's 3K-block"""
    lay, perm = layout
    return unit(3 * k + perm[role]) if lay == "component-major" else unit(perm[role] * K + k)


def mog_spec_total(D, K, px, b, cargs, eps, layout):
    from tsv.ops import s_exp, s_log, s_softplus
    from tsv.ops_move import softmax_rows
    total = rv(0)
    for i in range(D):
        args = [toreal(t) for t in px[b, :i]] + cargs
        unit = lambda r, i=i, args=args: (z3.Function(f"made_{i}_{r}", *([R] * (len(args) + 1)))(*args) if args else z3.Const(f"made_{i}_{r}_c", R))
        logits = [unit_at(unit, K, layout, k, 0) for k in range(K)]; means = [unit_at(unit, K, layout, k, 1) for k in range(K)]; us = [unit_at(unit, K, layout, k, 2) for k in range(K)]
        logpi = softmax_rows(np.array([logits], dtype=object), 1, True)[0]
        comps = []
        for k in range(K):
            sd = s_softplus(us[k]) + eps
            z = (px[b, i] - means[k]) / sd
            comps.append(s_exp(logpi[k] - rv(1) / 2 * (T.logf(2 * T.PI) + 2 * s_log(sd) + z * z)))
        tot = comps[0]
        for cc in comps[1:]: tot = tot + cc
        total = total + s_log(tot)
    return total


def find_logprob_layout(ctx, D, K, px, b, cargs, eps, plb):
    from tsv.solve import prove
    for layout in LAYOUTS:
        goal = plb == mog_spec_total(D, K, px, b, cargs, eps, layout)
        if z3.is_true(z3.simplify(goal)) or prove(ctx.hyps(), goal, budget_s=3.0, want_model=False)[0] == "unsat":
            return layout
    return None


def mog_logprob_harness(D, K, with_context):
    B = 2

    def run(h, ctx):
        m = made_n.MixtureOfGaussiansMADE(D, 4, context_features=2 if with_context else None, num_blocks=1, num_mixture_components=K, custom_initialization=False)
        m.eval()
        stub = MadeStub(D, 3 * K)
        h.m = m
        x = h.inp("x", (B, D)); c = h.inp("context", (B, 2)) if with_context else None
        # the MADE forward pass is seen through its C06 contract
        orig = made_n.MADE.forward
        made_n.MADE.forward = lambda self, inputs, context=None: stub(inputs, context)
        try:
            return m.log_prob(x, context=c)
        finally:
            made_n.MADE.forward = orig

    # the property does not fix how the 3K units of a feature's block are laid out: accept any of the regular layouts
    LAYOUTS = [(lay, perm) for lay in ("component-major", "role-major") for perm in __import__("itertools").permutations(range(3))]

    def spec_total(px, b, cargs, eps, layout):
        from tsv.ops import s_exp, s_log, s_softplus
        from tsv.ops_move import softmax_rows
        lay, perm = layout
        total = rv(0)
        for i in range(D):
            args = [toreal(t) for t in px[b, :i]] + cargs
            unit = lambda r: (z3.Function(f"made_{i}_{r}", *([R] * (len(args) + 1)))(*args) if args else z3.Const(f"made_{i}_{r}_c", R))
            at = (lambda k, role: unit(3 * k + perm[role])) if lay == "component-major" else (lambda k, role: unit(perm[role] * K + k))
            logits = [at(k, 0) for k in range(K)]; means = [at(k, 1) for k in range(K)]; us = [at(k, 2) for k in range(K)]
            logpi = softmax_rows(np.array([logits], dtype=object), 1, True)[0]
            comps = []
            for k in range(K):
                sd = s_softplus(us[k]) + eps
                z = (px[b, i] - means[k]) / sd
                comps.append(s_exp(logpi[k] - rv(1) / 2 * (T.logf(2 * T.PI) + 2 * s_log(sd) + z * z)))
            tot = comps[0]
            for cc in comps[1:]: tot = tot + cc
            total = total + s_log(tot)
        return total

    def post(h, ctx, lp):
        from tsv.solve import prove
        px = P(h.inputs["x"])
        xid = {px[idx].get_id(): idx for idx in np.ndindex(*px.shape)}
        pl = P(lp)
        ensure(h, ctx, "C05.mog.log_prob-shape", z3.BoolVal(tuple(pl.shape) == (B,)))
        eps = rv(h.m.epsilon)
        chosen = None
        for b in range(B):
            cargs = [toreal(t) for t in P(h.inputs["context"])[b]] if with_context else []
            if chosen is None:
                for layout in LAYOUTS:
                    goal = pl[b] == spec_total(px, b, cargs, eps, layout)
                    if z3.is_true(z3.simplify(goal)) or prove(ctx.hyps(), goal, budget_s=3.0, want_model=False)[0] == "unsat":
                        chosen = layout
                        break
                else:
                    chosen = LAYOUTS[0]
            ensure(h, ctx, "C05.mog.log_prob-is-sum-of-1d-mixture-log-densities", pl[b] == spec_total(px, b, cargs, eps, chosen))
            # factorisation: the x-symbols of the whole log-density are the row's own
            bad = [xid[s] for s in base_symbols(pl[b]) if s in xid and xid[s][0] != b]
            ensure(h, ctx, "C12.row-independent", z3.BoolVal(not bad))

    def native_call(h, inp):
        # native twin: the real network (seeded weights); the clause is the property itself, by quadrature over the whole input box
        torch.manual_seed(1)
        m = made_n.MixtureOfGaussiansMADE(D, 4, context_features=2 if with_context else None, num_blocks=1, num_mixture_components=K, custom_initialization=False).double()
        m.eval()
        return m

    def native_clauses(h, inp, m):
        if D > 2:
            return {}
        n = 4001 if D == 1 else 601
        g = torch.linspace(-14.0, 14.0, n, dtype=torch.float64)
        pts = g[:, None] if D == 1 else torch.cartesian_prod(g, g)
        c = torch.tensor([[0.3, -0.7]], dtype=torch.float64).expand(pts.shape[0], 2) if with_context else None
        with torch.no_grad():
            mass = float(torch.exp(m.log_prob(pts, context=c)).sum() * (28.0 / (n - 1)) ** D)
        return {"C05.mog.log_prob-is-sum-of-1d-mixture-log-densities": abs(mass - 1.0) < 5e-3}

    hn = Harness(f"MoGMADE_log_prob[D={D},K={K},context={with_context}]", run, post, native_call=native_call, native_clauses=native_clauses,
                 functions=[made_n.MixtureOfGaussiansMADE.log_prob])
    hn.native_float32 = False
    return hn


def mog_interface_harness():
    """bounded enumeration, evaluated natively (torch.distributions.Categorical is external): shapes of MADEMoG.log_prob / sample"""
    cases = [(None, 3), (None, 1), (2, 3), (3, 1)]

    def grid():
        torch.manual_seed(0)
        res = {}
        for ctxf, n in cases:
            d = MADEMoG(2, 4, context_features=ctxf and 2, num_blocks=1, num_mixture_components=2)
            c = torch.randn(ctxf, 2) if ctxf else None
            rows = ctxf or 2
            for key, f in ((("log_prob", ctxf, n), lambda: d.log_prob(torch.randn(rows, 2), context=c)), (("sample", ctxf, n), lambda: d.sample(n, context=c))):
                try:
                    res[key] = ("ret", tuple(f().shape))
                except Exception as e:
                    res[key] = ("raise", type(e).__name__)
        return res

    def want(key):
        k, ctxf, n = key
        if k == "log_prob": return ("ret", (ctxf or 2,))
        return ("ret", ((ctxf, n, 2) if ctxf else (n, 2)))

    def run(h, ctx):
        saved = Ctx.cur
        Ctx.cur = None
        try:
            return grid()
        finally:
            Ctx.cur = saved

    def post(h, ctx, res):
        for key, got in res.items():
            ctx.oblige("ensures", z3.BoolVal(got == want(key)), label="C18." + key[0], loc=("contract", f"MADEMoG:{key}", 0), meta={"got": str(got), "want": str(want(key))})

    def native_clauses(h, inp, res):
        c = {}
        for key, got in res.items():
            c["C18." + key[0]] = c.get("C18." + key[0], True) and got == want(key)
        return c
    hn = Harness("interface_MADEMoG_native[]", run, post, native_call=lambda h, inp: grid(), native_clauses=native_clauses, sample=lambda h, rng: {}, check_defined=False,
                 functions=[MADEMoG._sample, MADEMoG._log_prob, made_n.MixtureOfGaussiansMADE.sample])
    hn.native_float32 = False
    return hn


def mog_harnesses(tier):
    hs = [mog_logprob_harness(2, 2, False), mog_logprob_harness(2, 1, True)]
    if tier != "quick":
        hs += [mog_logprob_harness(3, 2, True), mog_logprob_harness(1, 3, False)]
    return hs


# ------------------------------------------------------------------------------------------------------------------
# gaussian_kde_log_eval (utils/torchutils.py): log of the equal-weight mixture of N isotropic Gaussians centred on the samples
# ------------------------------------------------------------------------------------------------------------------
def kde_harness(N, D):
    """N and D are chosen so that the bandwidth N**(-1/(D+4)) and 1/bandwidth**2 are exact in binary floating point (1 or 1/2): the
    constants CPython computes in floats are then the mathematical ones and the closed form is an identity over the reals."""
    import fractions
    from nflows.utils import torchutils as tu

    def run(h, ctx):
        s = h.inp("samples", (N, D)); q = h.inp("query", (D,))
        return tu.gaussian_kde_log_eval(s, q)

    def post(h, ctx, res):
        from tsv.ops import s_exp, s_log
        ps = P(h.inputs["samples"]); pq = P(h.inputs["query"]); pr = P(res)
        ensure(h, ctx, "C05.kde.shape", z3.BoolVal(tuple(pr.shape) == ()))
        std = N ** (-1 / (D + 4))
        f = fractions.Fraction(std)
        sig = z3.RealVal(f"{f.numerator}/{f.denominator}")
        comps = []
        for n in range(N):
            sq = rv(0)
            for d in range(D): sq = sq + (pq[d] - ps[n, d]) * (pq[d] - ps[n, d])
            lg = lambda v, one: rv(0) if one else T.logf(v)
            comps.append(s_exp(-lg(rv(N), N == 1) - rv(D) / 2 * T.logf(2 * T.PI) - rv(D) * lg(sig, f == 1) - sq / (2 * sig * sig)))
        tot = comps[0]
        for c in comps[1:]: tot = tot + c
        # log of (1/N) sum_n N(q; s_n, sig^2 I): an equal-weight mixture of normalised Gaussians (normalised by lemma 4f-style linearity of the integral)
        ensure(h, ctx, "C05.kde.is-log-of-equal-weight-gaussian-mixture", pr[()] == s_log(tot))

    def native_clauses(h, inp, res):
        s = torch.as_tensor(inp["samples"], dtype=torch.float32)
        if D > 2 or float(s.abs().max()) > 30:
            return {}
        n = 16001 if D == 1 else 321
        g = torch.linspace(-40.0, 40.0, n, dtype=torch.float32)
        pts = g[:, None] if D == 1 else torch.cartesian_prod(g, g)
        lp = torch.cat([tu.gaussian_kde_log_eval(s, pts[i:i + 4096, None, :]) for i in range(0, len(pts), 4096)])
        mass = float(torch.exp(lp.double()).sum() * (80.0 / (n - 1)) ** D)
        return {"C05.kde.is-log-of-equal-weight-gaussian-mixture": abs(mass - 1.0) < 2e-2}

    hn = Harness(f"gaussian_kde_log_eval[N={N},D={D}]", run, post, native_call=lambda h, inp: tu.gaussian_kde_log_eval(torch.as_tensor(inp["samples"], dtype=torch.float32), torch.as_tensor(inp["query"], dtype=torch.float32)),  # torch.eye(D) is float32: the function only accepts single precision
                 native_clauses=native_clauses, functions=[tu.gaussian_kde_log_eval],
                 sample=lambda h, rng: {"samples": rng.normal(size=(N, D)) * 2, "query": rng.normal(size=(D,))})
    hn.native_float32 = False
    hn.native_tries = 3
    return hn


def kde_harnesses(tier):
    return [kde_harness(1, 1), kde_harness(1, 2), kde_harness(32, 1), kde_harness(64, 2)]


# ------------------------------------------------------------------------------------------------------------------
# ancestral sampling of the mixture (MixtureOfGaussiansMADE.sample): one feature per pass
# ------------------------------------------------------------------------------------------------------------------
class StubCategorical:
    """assumed contract of torch.distributions.Categorical(logits=l).sample(shape): integer draws in [0, K), one per row of l (the
    distributional part - P(k) = softmax(l)_k - is the assumed contract of the external sampler); the logits each draw was made from are recorded"""
    made = []

    def __init__(self, logits=None, probs=None):
        self.logits = logits
        StubCategorical.made.append(self)

    def sample(self, sample_shape=()):
        from tsv.core import fresh
        import z3 as _z
        pl = P(self.logits)
        rows, K = pl.shape[0], pl.shape[-1]
        shape = tuple(sample_shape) + (rows,)
        out = np.empty(shape, dtype=object)
        ctx = C()
        for idx in np.ndindex(*shape):
            v = fresh("categorical", _z.IntSort())
            ctx.assume(_z.And(v >= 0, v < K))
            out[idx] = v
        self.draws = out
        s = Sym.make(out, torch.int64)
        s._g = {"taint": "random"}
        return s


def mog_sample_harness(D, K, Cn, n):
    """Cn context rows (0: no context), n samples each"""
    B = (Cn or 1) * n

    def run(h, ctx):
        m = made_n.MixtureOfGaussiansMADE(D, 4, context_features=2 if Cn else None, num_blocks=1, num_mixture_components=K, custom_initialization=False)
        m.eval()
        stub = MadeStub(D, 3 * K)
        h.m = m
        c = h.inp("context", (Cn, 2)) if Cn else None
        orig = made_n.MADE.forward; origc = made_n.distributions.Categorical
        made_n.MADE.forward = lambda self, inputs, context=None: stub(inputs, context)
        made_n.distributions.Categorical = StubCategorical
        StubCategorical.made = []
        try:
            out = m.sample(n, context=c)
            h.cats = list(StubCategorical.made)
            h.noise = [s for nm, s in ctx.notes.get("random_draws", []) if nm == "randn"]
            return out
        finally:
            made_n.MADE.forward = orig; made_n.distributions.Categorical = origc

    def post(h, ctx, out):
        from tsv.ops import s_softplus
        from tsv.ops_move import softmax_rows
        po = P(out)
        want_shape = (Cn, n, D) if Cn else (n, D)
        ensure(h, ctx, "C18.sample-shape", z3.BoolVal(tuple(po.shape) == want_shape))
        if tuple(po.shape) != want_shape:
            return
        pc = P(h.inputs["context"]) if Cn else None
        cid = {pc[idx].get_id(): idx for idx in np.ndindex(*pc.shape)} if Cn else {}
        eps = rv(h.m.epsilon)
        ok_counts = len(h.cats) == D and len(h.noise) == D and all(tuple(P(s).shape) == (B,) for s in h.noise)
        ensure(h, ctx, "C05.mog.sample-one-draw-per-feature-and-row", z3.BoolVal(ok_counts))
        if not ok_counts:
            return
        for r in range(Cn or 1):
            cargs = [toreal(t) for t in pc[r]] if Cn else []
            for s in range(n):
                row = po[r, s] if Cn else po[s]
                # which flat row of the pass-by-pass buffer this sample came from is the code's business: it must exist
                found = False
                for q in range(B):
                    good = True
                    for i in range(D):
                        args = [toreal(t) for t in row[:i]] + cargs
                        unit = lambda u: (z3.Function(f"made_{i}_{u}", *([R] * (len(args) + 1)))(*args) if args else z3.Const(f"made_{i}_{u}_c", R))
                        kq = h.cats[i].draws.reshape(-1)[q]
                        kv = z3.simplify(kq)
                        from tsv.ops_move import decide_int
                        k = decide_int(kq, 0, K)
                        mean, sd = unit(3 * k + 1), s_softplus(unit(3 * k + 2)) + eps
                        want = mean + P(h.noise[i])[q] * sd
                        if not z3.eq(z3.simplify(row[i] - want), rv(0)) and not z3.eq(row[i], want):
                            good = False; break
                        # the component was drawn from the logits of the same conditional
                        lg = P(h.cats[i].logits)[q]
                        wl = softmax_rows(np.array([[unit(3 * kk) for kk in range(K)]], dtype=object), 1, True)[0]
                        if not all(z3.eq(a, b_) for a, b_ in zip(lg, wl)):
                            good = False; break
                    if good:
                        found = True; break
                # ancestral sampling: x_i = mu_ik(x_<i, context_r) + eps_i * sigma_ik(x_<i, context_r),  k ~ Categorical(pi_i(x_<i, context_r))
                ensure(h, ctx, "C05.mog.sample-is-ancestral-draw-of-own-context-row", z3.BoolVal(found))
                bad = [cid[sid] for t in row for sid in base_symbols(t) if sid in cid and cid[sid][0] != r]
                ensure(h, ctx, "C04.sample-row-uses-own-context-only", z3.BoolVal(not bad))

    def native_call(h, inp):
        torch.manual_seed(3)
        m = made_n.MixtureOfGaussiansMADE(D, 8, context_features=2 if Cn else None, num_blocks=1, num_mixture_components=K, custom_initialization=False)
        m.eval()
        with torch.no_grad():
            for p_ in m.parameters(): p_.mul_(3.0)
        c = torch.tensor([[1.0, -1.0], [-2.0, 0.5], [0.3, 2.0]])[:Cn] if Cn else None       # distinct rows (the model's rows may coincide)
        return m, c

    def native_clauses(h, inp, res):
        # statistical replay (seeded): per context row, the sample mean of feature 0 against the mixture mean of its first conditional
        m, c = res
        if not Cn:
            return {}
        torch.manual_seed(4)
        N = 4000
        smp = m.sample(N, context=c)
        # two-sample z-test per context row against a one-row-at-a-time draw (feature 0 of a MADE never sees the context: use the last one)
        ok = True
        for r in range(Cn):
            ref = m.sample(N, context=c[r:r + 1])[0, :, D - 1]
            got = smp[r, :, D - 1]
            z = float((got.mean() - ref.mean()).abs() / ((got.var() + ref.var()) / N).sqrt())
            ok = ok and z < 6
        return {"C05.mog.sample-is-ancestral-draw-of-own-context-row": ok, "C04.sample-row-uses-own-context-only": ok}

    hn = Harness(f"MoGMADE_sample[D={D},K={K},contexts={Cn},n={n}]", run, post, native_call=native_call, native_clauses=native_clauses, check_defined=False,
                 functions=[made_n.MixtureOfGaussiansMADE.sample], sample=lambda h, rng: ({"context": rng.normal(size=(Cn, 2))} if Cn else {}))
    hn.native_tries = 2
    hn.native_float32 = False
    return hn


def mog_consistency_harness(D, K):
    """log_prob and sample of one MixtureOfGaussiansMADE read the SAME layout of a feature's 3K-unit block (each is correct under any regular layout
    on its own; the density that sample() draws from is the one log_prob evaluates only if they agree)"""
    def run(h, ctx):
        m = made_n.MixtureOfGaussiansMADE(D, 4, context_features=None, num_blocks=1, num_mixture_components=K, custom_initialization=False)
        m.eval()
        stub = MadeStub(D, 3 * K)
        h.m = m
        x = h.inp("x", (1, D))
        orig = made_n.MADE.forward; origc = made_n.distributions.Categorical
        made_n.MADE.forward = lambda self, inputs, context=None: stub(inputs, context)
        made_n.distributions.Categorical = StubCategorical
        StubCategorical.made = []
        try:
            lp = m.log_prob(x)
            smp = m.sample(1)
            h.cats = list(StubCategorical.made)
            h.noise = [s_ for nm, s_ in ctx.notes.get("random_draws", []) if nm == "randn"]
            return lp, smp
        finally:
            made_n.MADE.forward = orig; made_n.distributions.Categorical = origc

    def post(h, ctx, value):
        from tsv.ops import s_softplus
        from tsv.ops_move import decide_int
        lp, smp = value
        eps = rv(h.m.epsilon)
        px = P(h.inputs["x"])
        l_lp = find_logprob_layout(ctx, D, K, px, 0, [], eps, P(lp)[0])
        ensure(h, ctx, "C05.mog.log_prob-matches-a-regular-unit-layout", z3.BoolVal(l_lp is not None))
        ps = P(smp)
        ok_shape = tuple(ps.shape) == (1, D) and len(h.cats) == D and len(h.noise) == D
        ensure(h, ctx, "C05.mog.sample-one-draw-per-feature-and-row", z3.BoolVal(bool(ok_shape)))
        if l_lp is None or not ok_shape:
            return
        row = ps[0]
        l_s = None
        for layout in LAYOUTS:
            good = True
            for i in range(D):
                args = [toreal(t) for t in row[:i]]
                unit = lambda u, i=i, args=args: (z3.Function(f"made_{i}_{u}", *([R] * (len(args) + 1)))(*args) if args else z3.Const(f"made_{i}_{u}_c", R))
                k = decide_int(h.cats[i].draws.reshape(-1)[0], 0, K)
                want = unit_at(unit, K, layout, k, 1) + P(h.noise[i])[0] * (s_softplus(unit_at(unit, K, layout, k, 2)) + eps)
                if not (z3.eq(row[i], want) or z3.eq(z3.simplify(row[i] - want), rv(0))):
                    good = False; break
            if good:
                l_s = layout; break
        ensure(h, ctx, "C05.mog.sample-matches-a-regular-unit-layout", z3.BoolVal(l_s is not None))
        ensure(h, ctx, "C05.mog.log_prob-and-sample-read-the-same-unit-layout", z3.BoolVal(l_s is not None and l_s[0] == l_lp[0] and tuple(l_s[1][1:]) == tuple(l_lp[1][1:])),
               meta={"log_prob": str(l_lp), "sample": str(l_s)})

    def native_call(h, inp):
        torch.manual_seed(5)
        m = made_n.MixtureOfGaussiansMADE(D, 8, context_features=None, num_blocks=1, num_mixture_components=K, custom_initialization=False)
        m.eval()
        with torch.no_grad():
            for p_ in m.parameters(): p_.mul_(4.0)
        return m

    def native_clauses(h, inp, m):
        # feature 0 has no inputs: its conditional is a fixed 1-D mixture; sample mean / variance against the density's moments (quadrature)
        torch.manual_seed(6)
        N = 20000
        s0 = m.sample(N)[:, 0]
        g = torch.linspace(-30.0, 30.0, 6001)
        pts = torch.zeros(len(g), D); pts[:, 0] = g
        with torch.no_grad():
            out = m.forward(pts).reshape(len(g), D, K, 3) if False else None
        # density of x_0 alone: integrate out by evaluating the first factor through log_prob differences is not available; use the library's own layout-free route:
        # p(x_0) = exp(log_prob([x_0, x_1])) / p(x_1 | x_0); for D == 1 it is log_prob itself
        if D != 1:
            return {}
        with torch.no_grad():
            dens = torch.exp(m.log_prob(g[:, None]))
        w = float(g[1] - g[0])
        mean = float((dens * g).sum() * w); var = float((dens * g * g).sum() * w) - mean ** 2
        z = abs(float(s0.mean()) - mean) / math.sqrt(max(var, 1e-12) / N)
        return {"C05.mog.log_prob-and-sample-read-the-same-unit-layout": z < 6}
    hn = Harness(f"MoGMADE_log_prob_vs_sample[D={D},K={K}]", run, post, native_call=native_call, native_clauses=native_clauses, check_defined=False, sample=lambda h, rng: {"x": rng.normal(size=(1, D))},
                 functions=[made_n.MixtureOfGaussiansMADE.log_prob, made_n.MixtureOfGaussiansMADE.sample])
    hn.native_float32 = False
    hn.native_tries = 2
    return hn


def mog_sample_harnesses(tier):
    hs = [mog_sample_harness(2, 1, 2, 2), mog_sample_harness(2, 2, 0, 1), mog_sample_harness(2, 2, 1, 1), mog_consistency_harness(1, 2), mog_consistency_harness(2, 2)]
    if tier != "quick":
        hs += [mog_sample_harness(3, 1, 2, 3), mog_sample_harness(2, 2, 2, 1), mog_sample_harness(1, 3, 0, 2)]
    return hs
