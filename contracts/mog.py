"""contracts for the MADE mixture of Gaussians (nn/nde/made.py:MixtureOfGaussiansMADE, distributions/mixture.py:MADEMoG).

log_prob is executed with the MADE forward pass replaced by its C06 contract (output unit i*m + r is an uninterpreted function of the inputs
0..i-1 and of the context).  Clauses: the density factorises into one-dimensional conditionals (factor i mentions x_i and, through the
conditioner, x_<i only), every factor is a mixture of Gaussians with weights that sum to one and positive scales, and the (logit, mean,
std) triple of component k of feature i is taken from the units i*3K + 3k + {0,1,2}.  Normalisation then follows by lemma 4f."""
import numpy as np
import torch, z3
from tsv.core import Sym, P, C, toreal, rv, R, Ctx
from tsv.harness import Harness
from tsv.terms import base_symbols
from tsv import terms as T
from .common import *
from .autoreg import MadeStub
from nflows.nn.nde import made as made_n
from nflows.distributions.mixture import MADEMoG


def mog_logprob_harness(D, K, with_context):
    B = 2

    def run(h, ctx):
        m = made_n.MixtureOfGaussiansMADE(D, 4, context_features=2 if with_context else None, num_blocks=1, num_mixture_components=K, custom_initialization=False)
        m.eval()
        stub = MadeStub(D, 3 * K)
        h.m = m
        x = h.inp("x", (B, D)); c = h.inp("context", (B, 2)) if with_context else None
        # the MADE forward pass is seen through its C06 contract
        orig = made_n.MADE.forward
        made_n.MADE.forward = lambda self, inputs, context=None: stub(inputs, context)
        try:
            return m.log_prob(x, context=c)
        finally:
            made_n.MADE.forward = orig

    def post(h, ctx, lp):
        from tsv.ops import s_exp, s_log, s_softplus
        px = P(h.inputs["x"])
        xid = {px[idx].get_id(): idx for idx in np.ndindex(*px.shape)}
        pl = P(lp)
        ensure(h, ctx, "C05.mog.log_prob-shape", z3.BoolVal(tuple(pl.shape) == (B,)))
        eps = rv(h.m.epsilon)
        for b in range(B):
            cargs = [toreal(t) for t in P(h.inputs["context"])[b]] if with_context else []
            total = rv(0)
            for i in range(D):
                args = [toreal(t) for t in px[b, :i]] + cargs
                unit = lambda r: (z3.Function(f"made_{i}_{r}", *([R] * (len(args) + 1)))(*args) if args else z3.Const(f"made_{i}_{r}_c", R))
                logits = [unit(3 * k) for k in range(K)]; means = [unit(3 * k + 1) for k in range(K)]; us = [unit(3 * k + 2) for k in range(K)]
                from tsv.ops_move import softmax_rows
                logpi = softmax_rows(np.array([logits], dtype=object), 1, True)[0]
                comps = []
                for k in range(K):
                    sd = s_softplus(us[k]) + eps
                    z = (px[b, i] - means[k]) / sd
                    comps.append(s_exp(logpi[k] - rv(1) / 2 * (T.logf(2 * T.PI) + 2 * s_log(sd) + z * z)))
                tot = comps[0]
                for cc in comps[1:]: tot = tot + cc
                total = total + s_log(tot)
            ensure(h, ctx, "C05.mog.log_prob-is-sum-of-1d-mixture-log-densities", pl[b] == total)
            # factorisation: the x-symbols of the whole log-density are the row's own
            bad = [xid[s] for s in base_symbols(pl[b]) if s in xid and xid[s][0] != b]
            ensure(h, ctx, "C12.row-independent", z3.BoolVal(not bad))

    hn = Harness(f"MoGMADE_log_prob[D={D},K={K},context={with_context}]", run, post, functions=[made_n.MixtureOfGaussiansMADE.log_prob])
    return hn


def mog_interface_harness():
    """bounded enumeration, evaluated natively (torch.distributions.Categorical is external): shapes of MADEMoG.log_prob / sample"""
    cases = [(None, 3), (None, 1), (2, 3), (3, 1)]

    def grid():
        torch.manual_seed(0)
        res = {}
        for ctxf, n in cases:
            d = MADEMoG(2, 4, context_features=ctxf and 2, num_blocks=1, num_mixture_components=2)
            c = torch.randn(ctxf, 2) if ctxf else None
            rows = ctxf or 2
            for key, f in ((("log_prob", ctxf, n), lambda: d.log_prob(torch.randn(rows, 2), context=c)), (("sample", ctxf, n), lambda: d.sample(n, context=c))):
                try:
                    res[key] = ("ret", tuple(f().shape))
                except Exception as e:
                    res[key] = ("raise", type(e).__name__)
        return res

    def want(key):
        k, ctxf, n = key
        if k == "log_prob": return ("ret", (ctxf or 2,))
        return ("ret", ((ctxf, n, 2) if ctxf else (n, 2)))

    def run(h, ctx):
        saved = Ctx.cur
        Ctx.cur = None
        try:
            return grid()
        finally:
            Ctx.cur = saved

    def post(h, ctx, res):
        for key, got in res.items():
            ctx.oblige("ensures", z3.BoolVal(got == want(key)), label="C18." + key[0], loc=("contract", f"MADEMoG:{key}", 0), meta={"got": str(got), "want": str(want(key))})

    def native_clauses(h, inp, res):
        c = {}
        for key, got in res.items():
            c["C18." + key[0]] = c.get("C18." + key[0], True) and got == want(key)
        return c
    hn = Harness("interface_MADEMoG_native[]", run, post, native_call=lambda h, inp: grid(), native_clauses=native_clauses, sample=lambda h, rng: {}, check_defined=False,
                 functions=[MADEMoG._sample, MADEMoG._log_prob, made_n.MixtureOfGaussiansMADE.sample])
    hn.native_float32 = False
    return hn


def mog_harnesses(tier):
    hs = [mog_logprob_harness(2, 2, False), mog_logprob_harness(2, 1, True)]
    if tier != "quick":
        hs += [mog_logprob_harness(3, 2, True), mog_logprob_harness(1, 3, False)]
    return hs
