"""generic contract harness for the four spline families (constrained functions, symbolic box, one generic element).

Clauses (labels carry the property they serve):
  C09.range / endpoint-lo / endpoint-hi / strictly-increasing / continuous-at-{left,right}-knot
  C01.logdet.{value,positive}         exp(logabsdet) = d out / d in  > 0        (forward)
  C02.forward-is-spec, C02.roundtrip_fi, C02.neg-logdet.{value,positive}         (spec function S of the selected bin)
  C17: raises-only-if / returns-only-if-not InputOutsideDomain + every safety obligation on non-raising paths
"""
import numpy as np
import torch, z3
from tsv.core import Sym, P, C, fresh, toreal, rv, R
from tsv.harness import Harness
from tsv.instrument import instrument, cut
from tsv import terms as T
from .common import *
from . import rq as rqc
from .rq import box_syms, sample_box, spline_native_clauses
from nflows.transforms.base import InputOutsideDomain
import nflows.transforms.splines.linear as linmod
import nflows.transforms.splines.quadratic as quadmod
import nflows.transforms.splines.cubic as cubmod
import nflows.transforms.splines.rational_quadratic as rqmod


class Family:
    name = "?"
    func = None
    cuts = []
    same_scale = False     # boxes are arbitrary (left < right, bottom < top); a precondition top-bottom == right-left is no longer assumed
    normalised = True      # the function maps the box to [0,1] first

    def params(self, K):
        raise NotImplementedError

    def call(self, f, x, ps, inverse, box, **kw):
        l, r, b, t = box
        return f(x, *ps, inverse=inverse, left=l, right=r, bottom=b, top=t, **kw)

    def spec_eq(self, bn, xn, yn):
        return None

    def extra_kwargs(self):
        return {}

    def patches(self, inverse):
        import contextlib
        return contextlib.nullcontext()


def _norm(v, lo, hi):
    return (v - lo) / (hi - lo)


def spline_harness(fam, K, inverse, props, tag="", infeasible_floors=False, **kw):
    """infeasible_floors: the floors in kw cannot be honoured (min_bin_width * K > 1 or min_bin_height * K > 1): for in-domain inputs the
    function must refuse them with a ValueError instead of building a spline with negative bin sizes"""
    f = instrument(fam.func, fam.cuts)
    pspec = fam.params(K)

    def run(h, ctx):
        x = h.inp("x", (1,))
        ps = [h.inp(n, (1, m)) for n, m in pspec]
        l, r, b, t = box_syms(h, ctx)
        if fam.same_scale:
            ctx.assume(el(t) - el(b) == el(r) - el(l))
        with fam.patches(inverse):
            return fam.call(f, x, ps, inverse, (l, r, b, t), **kw)

    def dom(h, ctx):
        l, r, b, t = (el(v) for v in h.box)
        x = el(h.inputs["x"])
        lo, hi = (b, t) if inverse else (l, r)
        return z3.Or(x < lo, x > hi)

    def post(h, ctx, value):
        out, ld = el(value[0]), el(value[1])
        x = el(h.inputs["x"])
        l, r, b, t = (el(v) for v in h.box)
        lo, hi, olo, ohi = (b, t, l, r) if inverse else (l, r, b, t)
        bn = ctx.notes.get("bin")
        if inverse and hasattr(fam, "inverse_post"):
            return fam.inverse_post(h, ctx, props, out, ld, x, (l, r, b, t), bn)
        if "C09" in props:
            ensure(h, ctx, "C09.range", z3.And(out >= olo, out <= ohi))
            ensure(h, ctx, "C09.endpoint-lo", z3.Implies(x == lo, out == olo))
            ensure(h, ctx, "C09.endpoint-hi", z3.Implies(x == hi, out == ohi))
            ensure(h, ctx, "C09.strictly-increasing", diff(out, x) > 0)
            if bn is not None:
                # knot positions of the selected bin in real coordinates (input side / output side)
                if fam.normalised:
                    xs = [bn["xl"] * (r - l) + l, bn["xr"] * (r - l) + l]; ys = [bn["yl"] * (t - b) + b, bn["yr"] * (t - b) + b]
                else:
                    xs = [bn["xl"], bn["xr"]]; ys = [bn["yl"], bn["yr"]]
                ins, outs = (ys, xs) if inverse else (xs, ys)
                ensure(h, ctx, "C09.continuous-at-left-knot", z3.Implies(x == ins[0], out == outs[0]))
                ensure(h, ctx, "C09.continuous-at-right-knot", z3.Implies(x == ins[1], out == outs[1]))
        if "C01" in props and not inverse:
            logdet_is_log_derivative(h, ctx, "C01.logdet", out, ld, x)
        if "C02" in props:
            if inverse:
                logdet_is_log_derivative(h, ctx, "C02.neg-logdet", out, ld, x)
            if bn is not None:
                xv, yv = (out, x) if inverse else (x, out)
                xn, yn = (_norm(xv, l, r), _norm(yv, b, t)) if fam.normalised else (xv, yv)
                eq = fam.spec_eq(bn, xn, yn)
                if eq is not None:
                    if inverse:
                        ensure(h, ctx, "C02.roundtrip_fi", z3.And(eq, xn >= bn["xl"], xn <= bn["xr"]))
                    else:
                        ensure(h, ctx, "C02.forward-is-spec", eq)

    def nat_fn(inp):
        ps = [tt(inp[n]) for n, _ in pspec]
        box = tuple(float(inp[k]) for k in ("left", "right", "bottom", "top"))
        return lambda x, inv: fam.call(fam.func, x, ps, inv, box, **kw)

    def native_call(h, inp):
        return nat_fn(inp)(tt(inp["x"]), inverse)

    def outside(h, inp):
        lo, hi = (inp["bottom"], inp["top"]) if inverse else (inp["left"], inp["right"])
        return bool((inp["x"] < lo).any() or (inp["x"] > hi).any())

    def native_clauses(h, inp, res):
        return spline_native_clauses(nat_fn(inp), inp, res, inverse)

    def sample(h, rng):
        d = sample_box(rng, inverse, same_scale=fam.same_scale)
        zero = rng.uniform() < 0.15
        for n, m in pspec:
            d[n] = np.zeros((1, m)) if zero else rng.normal(size=(1, m)) * 2
        return d

    raises = {InputOutsideDomain: dom}; nraises = {InputOutsideDomain: outside}
    if infeasible_floors:
        raises[ValueError] = lambda h, ctx: z3.Not(dom(h, ctx))
        nraises[ValueError] = lambda h, inp: not outside(h, inp)
    return Harness(f"{fam.name}_spline[K={K},inverse={inverse}{tag}]", run, post if not infeasible_floors else (lambda h, ctx, value: None), raises=raises,
                   native_call=native_call, native_clauses=native_clauses if not infeasible_floors else (lambda h, inp, res: {}), native_raises=nraises, sample=sample,
                   functions=[fam.func], config={"family": fam.name, "K": K, "inverse": inverse, **kw})


# ---------------------------------------------------------------------------------------------------------
# rational quadratic (cuts in contracts/rq.py)
# ---------------------------------------------------------------------------------------------------------
class RQ(Family):
    name = "rq"
    func = staticmethod(rqmod.rational_quadratic_spline)
    cuts = rqc.RQ_CUTS
    same_scale = False
    normalised = False

    def params(self, K):
        return [("uw", K), ("uh", K), ("ud", K + 1)]

    def spec_eq(self, bn, xn, yn):
        th = (xn - bn["cw"]) / bn["w"]
        n, d = rqc.S_num_den(bn, th)
        return (yn - bn["ch"]) * d == bn["h"] * n


# ---------------------------------------------------------------------------------------------------------
# linear (no cuts needed)
# ---------------------------------------------------------------------------------------------------------
class Linear(Family):
    name = "linear"
    func = staticmethod(linmod.linear_spline)

    def params(self, K):
        return [("up", K)]


# ---------------------------------------------------------------------------------------------------------
# quadratic
# ---------------------------------------------------------------------------------------------------------
@cut("quad.area")
def quad_area(cut_id, widths, unnorm_heights_exp, unnormalized_area):
    """bin widths are positive and sum to one, unnormalised knot heights are positive, and `unnormalized_area` is the trapezoid area
    A = sum_k (u_k + u_{k+1})/2 * w_k > 0; afterwards these are symbols of their own (the softmax / softplus definitions are forgotten)"""
    ctx = C()
    K = widths.shape[-1]

    def facts(w, u, A):
        f = [(f"w{k}>0", w[k] > 0) for k in range(K)] + [(f"u{j}>0", u[j] > 0) for j in range(K + 1)]
        f.append(("sum-w", sum(w[1:], w[0]) == 1))
        f.append(("area", A[0] == sum((((u[k] + u[k + 1]) / 2) * w[k] for k in range(1, K)), ((u[0] + u[1]) / 2) * w[0])))
        f.append(("area>0", A[0] > 0))
        return f
    ts = (widths, unnorm_heights_exp, unnormalized_area)
    if unnorm_heights_exp.shape[-1] != K + 1:
        return ts
    outs = [np.empty(t.shape, dtype=object) for t in ts]
    for idx in np.ndindex(*widths.shape[:-1]):
        real = [list(P(t)[idx]) for t in ts]
        flat = [x for r in real for x in r]
        fr, new = memo_cut(ctx, cut_id, flat, lambda: [[fresh(n) for _ in r] for n, r in zip(("aw", "au", "aA"), real)])
        if new:
            for nm, f in facts(*real):
                ctx.oblige("cut-lemma", f, label=f"{cut_id}.{nm}")
            ctx.hard_cut([(a, b) for frs, rs in zip(fr, real) for a, b in zip(frs, rs)], [f for _, f in facts(*fr)])
        for o, v in zip(outs, fr):
            o[idx] = v
    return tuple(Sym.make(o, t.dtype) for o, t in zip(outs, ts))


@cut("quad.knots")
def quad_knots(cut_id, widths, heights, bin_left_cdf, bin_locations):
    """widths > 0, heights > 0; locations 0 = l_0 < ... < l_K = 1 with l_{k+1} - l_k = w_k; cdf 0 = c_0, c_K = 1,
    c_{k+1} - c_k = trapezoid area of bin k"""
    ctx = C()
    K = widths.shape[-1]

    def facts(w, hh, c, loc):
        f = [("l0", loc[0] == 0), ("lK", loc[K] == 1), ("c0", c[0] == 0), ("cK", c[K] == 1)]
        for k in range(K):
            f += [(f"w{k}>0", w[k] > 0), (f"loc{k}", loc[k + 1] - loc[k] == w[k]), (f"area{k}", c[k + 1] - c[k] == (hh[k] + hh[k + 1]) / 2 * w[k])]
        return f + [(f"h{k}>0", hh[k] > 0) for k in range(K + 1)]
    ts = (widths, heights, bin_left_cdf, bin_locations)
    outs = [np.empty(t.shape, dtype=object) for t in ts]
    for idx in np.ndindex(*widths.shape[:-1]):
        real = [list(P(t)[idx]) for t in ts]
        flat = [x for r in real for x in r]
        fr, new = memo_cut(ctx, cut_id, flat, lambda: [[fresh(n) for _ in r] for n, r in zip(("qw", "qh", "qc", "ql"), real)])
        if new:
            for nm, f in facts(*real):
                # the trapezoid areas sum to one: a rational-function identity modulo the definitions of the area cut (ring tactic first)
                ctx.oblige("cut-lemma", f, label=f"{cut_id}.{nm}", meta={"tactic": "ring"} if nm.startswith("area") else None)
            ctx.hard_cut([(a, b) for frs, rs in zip(fr, real) for a, b in zip(frs, rs)], [f for _, f in facts(*fr)])
        for o, v in zip(outs, fr):
            o[idx] = v
    return tuple(Sym.make(o, t.dtype) for o, t in zip(outs, ts))


@cut("quad.bin")
def quad_bin(cut_id, a, b, c, input_bin_locations, input_bin_widths, input_left_heights, input_right_heights, inputs, inverse):
    ctx = C()
    ts = (a, b, c, input_bin_locations, input_bin_widths, input_left_heights, input_right_heights)
    outs = [np.empty(t.shape, dtype=object) for t in ts]
    half = rv(1) / 2
    for idx in np.ndindex(*a.shape):
        xn = P(inputs)[idx]

        def facts(a_, b_, c_, loc, w, hl, hr):
            f = [("w>0", w > 0), ("hl>0", hl > 0), ("hr>0", hr > 0), ("a", a_ == half * (hr - hl) * w), ("b", b_ == hl * w),
                 ("c>=0", c_ >= 0), ("c+<=1", c_ + a_ + b_ <= 1), ("loc>=0", loc >= 0), ("loc+w<=1", loc + w <= 1),
                 ("corner-lo", (loc == 0) == (c_ == 0)), ("corner-hi", (loc + w == 1) == (c_ + a_ + b_ == 1))]
            if inverse:
                f += [("y>=", xn >= c_), ("y<=", xn <= c_ + a_ + b_), ("lo-bin", z3.Implies(xn == 0, c_ == 0)), ("hi-bin", z3.Implies(xn == 1, c_ + a_ + b_ == 1))]
            else:
                f += [("x>=", xn >= loc), ("x<=", xn <= loc + w), ("lo-bin", z3.Implies(xn == 0, loc == 0)), ("hi-bin", z3.Implies(xn == 1, loc + w == 1))]
            return f
        real = [P(t)[idx] for t in ts]
        fr, new = memo_cut(ctx, cut_id, real + [xn], lambda: [fresh(n) for n in "qa qb qc qloc qbw qhl qhr".split()])
        if new:
            for nm, f in facts(*real):
                ctx.oblige("cut-lemma", f, label=f"{cut_id}.{nm}")
            ctx.hard_cut(list(zip(fr, real)), [f for _, f in facts(*fr)], keep_terms=[xn])
        ctx.notes["bin"] = dict(a=fr[0], b=fr[1], c=fr[2], xl=fr[3], xr=fr[3] + fr[4], w=fr[4], yl=fr[2], yr=fr[2] + fr[0] + fr[1])
        for o, v in zip(outs, fr):
            o[idx] = v
    return tuple(Sym.make(o, t.dtype) for o, t in zip(outs, ts))


@cut("quad.root")
def quad_root(cut_id, alpha, inputs):
    """0 <= alpha <= 1 and a alpha^2 + b alpha + c = y (normalised)"""
    ctx = C()
    bn = ctx.notes["bin"]
    out = np.empty(alpha.shape, dtype=object)
    for idx in np.ndindex(*alpha.shape):
        yn = P(inputs)[idx]
        G = lambda r: bn["a"] * r * r + bn["b"] * r + bn["c"] - yn
        actual = P(alpha)[idx]
        th, new = memo_cut(ctx, cut_id, [actual], lambda: fresh("alpha"))
        if new:
            for nm, f in (("ge0", actual >= 0), ("le1", actual <= 1), ("fwd", G(actual) == 0)):
                ctx.oblige("cut-lemma", f, label=f"{cut_id}.{nm}")
            ctx.cutdefs.append(th == actual)
            for f in (th >= 0, th <= 1, G(th) == 0):
                ctx.facts.append([f, False]); ctx.solver.add(f)
            T.IMPLICIT[th.get_id()] = (th, G(th))
        out[idx] = th
    return (Sym.make(out, alpha.dtype),)


class Quadratic(Family):
    name = "quadratic"
    func = staticmethod(quadmod.quadratic_spline)
    cuts = [
        ("unnormalized_area", "quad.area", ["widths", "unnorm_heights_exp", "unnormalized_area"], []),
        ("bin_locations", "quad.knots", ["widths", "heights", "bin_left_cdf", "bin_locations"], []),
        ("c", "quad.bin", ["a", "b", "c", "input_bin_locations", "input_bin_widths", "input_left_heights", "input_right_heights"], ["inputs", "inverse"]),
        ("alpha#0", "quad.root", ["alpha"], ["inputs"]),
    ]

    def __init__(self, tails_shape=False):
        self.tails_shape = tails_shape    # heights given for the interior knots only (K-1), boundary heights derived

    def params(self, K):
        return [("uw", K), ("uh", K - 1 if self.tails_shape else K + 1)]

    def spec_eq(self, bn, xn, yn):
        al = (xn - bn["xl"]) / bn["w"]
        return yn == bn["a"] * al * al + bn["b"] * al + bn["c"]


# ---------------------------------------------------------------------------------------------------------
# cubic
# ---------------------------------------------------------------------------------------------------------
@cut("cubic.slopes")
def cubic_slopes(cut_id, widths, cumwidths, heights, cumheights, slopes, derivatives):
    """knots pinned to [0,1] and increasing; slopes s_k = h_k / w_k > 0; knot derivatives satisfy the monotonicity
    condition 0 < d_j < 3 * (adjacent slopes)"""
    ctx = C()
    K = widths.shape[-1]

    def facts(w, cw, hh, ch, sl, d):
        f = [("cw0", cw[0] == 0), ("cwK", cw[K] == 1), ("ch0", ch[0] == 0), ("chK", ch[K] == 1)]
        for k in range(K):
            f += [(f"w{k}>0", w[k] > 0), (f"cw{k}", cw[k + 1] - cw[k] == w[k]), (f"h{k}>0", hh[k] > 0), (f"ch{k}", ch[k + 1] - ch[k] == hh[k]),
                  (f"s{k}", sl[k] * w[k] == hh[k]), (f"dl{k}<3s", d[k] < 3 * sl[k]), (f"dr{k}<3s", d[k + 1] < 3 * sl[k])]
        return f + [(f"d{j}>0", d[j] > 0) for j in range(K + 1)]
    ts = (widths, cumwidths, heights, cumheights, slopes, derivatives)
    outs = [np.empty(t.shape, dtype=object) for t in ts]
    for idx in np.ndindex(*widths.shape[:-1]):
        real = [list(P(t)[idx]) for t in ts]
        flat = [x for r in real for x in r]
        fr, new = memo_cut(ctx, cut_id, flat, lambda: [[fresh(n) for _ in r] for n, r in zip(("kw", "kcw", "kh", "kch", "ks", "kd"), real)])
        if new:
            for nm, f in facts(*real):
                ctx.oblige("cut-lemma", f, label=f"{cut_id}.{nm}")
            ctx.hard_cut([(x_, y_) for frs, rs in zip(fr, real) for x_, y_ in zip(frs, rs)], [f for _, f in facts(*fr)])
        for o, v in zip(outs, fr):
            o[idx] = v
    return tuple(Sym.make(o, t.dtype) for o, t in zip(outs, ts))


@cut("cubic.bin")
def cubic_bin(cut_id, inputs_a, inputs_b, inputs_c, inputs_d, input_left_cumwidths, input_right_cumwidths, inputs, inverse):
    ctx = C()
    ts = (inputs_a, inputs_b, inputs_c, inputs_d, input_left_cumwidths, input_right_cumwidths)
    outs = [np.empty(t.shape, dtype=object) for t in ts]
    for idx in np.ndindex(*inputs_a.shape):
        xn = P(inputs)[idx]

        def facts(a_, b_, c_, d_, xl, xr):
            w = xr - xl
            end = a_ * w * w * w + b_ * w * w + c_ * w
            dend = 3 * a_ * w * w + 2 * b_ * w + c_
            f = [("w>0", w > 0), ("h>0", end > 0), ("c>0", c_ > 0), ("c<3s", c_ * w < 3 * end), ("dend>0", dend > 0), ("dend<3s", dend * w < 3 * end),
                 ("xl>=0", xl >= 0), ("xr<=1", xr <= 1), ("d>=0", d_ >= 0), ("d+h<=1", d_ + end <= 1),
                 ("corner-lo", (xl == 0) == (d_ == 0)), ("corner-hi", (xr == 1) == (d_ + end == 1))]
            if inverse:
                f += [("y>=", xn >= d_), ("y<=", xn <= d_ + end), ("lo-bin", z3.Implies(xn == 0, d_ == 0)), ("hi-bin", z3.Implies(xn == 1, d_ + end == 1))]
            else:
                f += [("x>=", xn >= xl), ("x<=", xn <= xr), ("lo-bin", z3.Implies(xn == 0, xl == 0)), ("hi-bin", z3.Implies(xn == 1, xr == 1))]
            return f
        real = [P(t)[idx] for t in ts]
        fr, new = memo_cut(ctx, cut_id, real + [xn], lambda: [fresh(n) for n in "ba bb bc bd bxl bxr".split()])
        if new:
            for nm, f in facts(*real):
                ctx.oblige("cut-lemma", f, label=f"{cut_id}.{nm}")
            ctx.hard_cut(list(zip(fr, real)), [f for _, f in facts(*fr)], keep_terms=[xn])
            ctx.notes["bin_facts"] = [f for _, f in facts(*fr)]
        w = fr[5] - fr[4]
        ctx.notes["bin"] = dict(a=fr[0], b=fr[1], c=fr[2], d=fr[3], xl=fr[4], xr=fr[5], w=w, yl=fr[3],
                                yr=fr[3] + fr[0] * w * w * w + fr[1] * w * w + fr[2] * w, yn=xn)
        if inverse:
            # the inverse is claimed for a == 0 (exact quadratic / linear segments, e.g. freshly initialised parameters) and for |a| >= threshold;
            # 0 < |a| < threshold is the implementation's declared quadratic APPROXIMATION and is excluded from the exactness claim
            thr = rv(cubmod.DEFAULT_QUADRATIC_THRESHOLD)
            ctx.assume(z3.Or(fr[0] == 0, fr[0] >= thr, -fr[0] >= thr))
            ctx.notes.setdefault("assumed", []).append("cubic inverse: leading coefficient a == 0 or |a| >= quadratic_threshold")
            # intermediate value theorem (lemma 4d) instantiated on the proved bin facts: the cubic is continuous with P(0) = d <= y <= P(w),
            # so some s0 in [0, w] has P(s0) = y  (used to show that the one-real-root branch returns a point inside the bin)
            s0 = fresh("ivt")
            ctx.notes["ivt"] = s0
            ctx.assume(z3.And(s0 >= 0, s0 <= w, fr[0] * s0 * s0 * s0 + fr[1] * s0 * s0 + fr[2] * s0 + fr[3] == xn))
        for o, v in zip(outs, fr):
            o[idx] = v
    return tuple(Sym.make(o, t.dtype) for o, t in zip(outs, ts))


@cut("cubic.norm")
def cubic_norm(cut_id, inputs, inverse, bottom, top):
    """(inverse only) the normalised input yn = (y - bottom) / (top - bottom) lies in [0, 1]; afterwards yn is a symbol of its own"""
    if not inverse:
        return (inputs,)
    ctx = C()
    bt, tp = (toreal(P(v).reshape(-1)[0]) if isinstance(v, torch.Tensor) else toreal(v) for v in (bottom, top))
    pi = P(inputs)
    out = np.empty(pi.shape, dtype=object)
    for idx in np.ndindex(*pi.shape):
        actual = pi[idx]
        yn, new = memo_cut(ctx, cut_id, [actual], lambda: fresh("yn"))
        if new:
            for nm, f in (("ge0", actual >= 0), ("le1", actual <= 1)):
                ctx.oblige("cut-lemma", f, label=f"{cut_id}.{nm}")
            ctx.cutdefs.append(yn == actual)
            for f in (yn >= 0, yn <= 1, yn * (tp - bt) == actual * (tp - bt)):
                ctx.facts.append([f, False]); ctx.solver.add(f)
            y_sym = next((t for t in [actual.arg(0).arg(0)] if True), None) if False else None
            T.IMPLICIT[yn.get_id()] = (yn, yn - actual)
        out[idx] = yn
    return (Sym.make(out, inputs.dtype),)


def _cubic_root_cut(cut_id, outputs, mask, branch):
    """lemma: where this branch wrote its result, the result solves the bin's cubic for the normalised input, and lies in the bin"""
    from tsv.ops_move import decide_bool
    ctx = C()
    bn = ctx.notes["bin"]
    po = P(outputs); pm = P(mask)
    out = po.copy()
    for idx in np.ndindex(*po.shape):
        if not decide_bool(pm[idx]):
            continue
        actual = po[idx]
        P_ = lambda t: bn["a"] * t * t * t + bn["b"] * t * t + bn["c"] * t + bn["d"]
        r, new = memo_cut(ctx, cut_id, [actual], lambda: fresh("root"))
        if new:
            if branch == "fallback":
                # in this branch |a| < threshold, and the claim excludes 0 < |a| < threshold: a == 0 (proved, then used as a fact)
                ctx.check("cut-lemma", bn["a"] == 0, label=f"{cut_id}.a-is-zero")
                P0 = lambda t: bn["b"] * t * t + bn["c"] * t + bn["d"]
                ctx.oblige("cut-lemma", P0(actual - bn["xl"]) == bn["yn"], label=f"{cut_id}.solves-cubic")
                # the chosen root of the quadratic is the one inside the bin (proved on the actual formula)
                ctx.oblige("cut-lemma", z3.And(actual - bn["xl"] >= 0, actual <= bn["xr"]), label=f"{cut_id}.in-bin")
            else:
                ctx.oblige("cut-lemma", P_(actual - bn["xl"]) == bn["yn"], label=f"{cut_id}.solves-cubic", narrow=True)
            ctx.cutdefs.append(r == actual)
            facts = [P_(r - bn["xl"]) == bn["yn"]]
            if branch == "cardano":
                # sign of the cubic discriminant (trusted lemma 4h): in this branch P(.) = y has exactly one real root, so the returned
                # solution is the intermediate-value witness, which lies in the bin
                facts.append(r - bn["xl"] == ctx.notes["ivt"])
                ctx.notes.setdefault("assumed", []).append("lemma 4h: negative Cardano discriminant => exactly one real root")
            rng = z3.And(r - bn["xl"] >= 0, r <= bn["xr"])
            facts.append(rng)
            for f in facts:
                ctx.facts.append([f, False]); ctx.solver.add(f)
            # the bin's cubic is increasing on the bin (from the bin lemma alone): its derivative at the returned point is positive
            sh_ = r - bn["xl"]
            dpos = 3 * bn["a"] * sh_ * sh_ + 2 * bn["b"] * sh_ + bn["c"] > 0
            ctx.oblige("cut-lemma", dpos, label=f"{cut_id}.derivative-positive", hyps=ctx.notes.get("bin_facts", []) + [rng])
            ctx.facts.append([dpos, False]); ctx.solver.add(dpos)
            T.IMPLICIT[r.get_id()] = (r, P_(r - bn["xl"]) - bn["yn"])
        out[idx] = r
    return (Sym.make(out, outputs.dtype),)


@cut("cubic.cardano")
def cubic_cardano(cut_id, outputs, one_root_mask):
    return _cubic_root_cut(cut_id, outputs, one_root_mask, "cardano")


@cut("cubic.fallback")
def cubic_fallback(cut_id, outputs, quadratic_mask):
    return _cubic_root_cut(cut_id, outputs, quadratic_mask, "fallback")


@cut("cubic.trig")
def cubic_trig(cut_id, outputs, three_roots_mask):
    """ASSUMPTION (not proved: trigonometric root formula + root selection are outside nonlinear real arithmetic): where the
    three-real-roots branch wrote its result, that result is a root of the bin's cubic inside the bin."""
    from tsv.ops_move import decide_bool
    ctx = C()
    bn = ctx.notes["bin"]
    po = P(outputs); pm = P(three_roots_mask)
    out = po.copy()
    for idx in np.ndindex(*po.shape):
        if decide_bool(pm[idx]):
            s3 = fresh("trigroot")
            sh = s3 - bn["xl"]
            rng = z3.And(s3 >= bn["xl"], s3 <= bn["xr"])
            ctx.assume(rng)
            ctx.assume(bn["a"] * sh * sh * sh + bn["b"] * sh * sh + bn["c"] * sh + bn["d"] == bn["yn"])
            dpos = 3 * bn["a"] * sh * sh + 2 * bn["b"] * sh + bn["c"] > 0
            ctx.oblige("cut-lemma", dpos, label=f"{cut_id}.derivative-positive", hyps=ctx.notes.get("bin_facts", []) + [rng])
            ctx.assume(dpos)
            ctx.notes.setdefault("assumed", []).append("cubic inverse, three-real-roots branch: the selected root solves the cubic inside the bin")
            out[idx] = s3
    return (Sym.make(out, outputs.dtype),)


class Cubic(Family):
    name = "cubic"
    func = staticmethod(cubmod.cubic_spline)
    cuts = [
        ("derivatives", "cubic.slopes", ["widths", "cumwidths", "heights", "cumheights", "slopes", "derivatives"], []),
        ("input_right_cumwidths", "cubic.bin", ["inputs_a", "inputs_b", "inputs_c", "inputs_d", "input_left_cumwidths", "input_right_cumwidths"],
         ["inputs", "inverse"]),
        ("inputs#0", "cubic.norm", ["inputs"], ["inverse", "bottom", "top"]),
        ("outputs[]#0", "cubic.cardano", ["outputs"], ["one_root_mask"]),
        ("outputs[]#1", "cubic.trig", ["outputs"], ["three_roots_mask"]),
        ("outputs[]#2", "cubic.fallback", ["outputs"], ["quadratic_mask"]),
    ]

    def params(self, K):
        return [("uw", K), ("uh", K), ("dl", 1), ("dr", 1)]

    def spec_eq(self, bn, xn, yn):
        s = xn - bn["xl"]
        return yn == bn["a"] * s * s * s + bn["b"] * s * s + bn["c"] * s + bn["d"]

    def patches(self, inverse):
        """the inverse sees torchutils.cbrt through its contract (proved on the body in C20): cbrt(t)^3 = t, same sign"""
        import contextlib
        if not inverse:
            return contextlib.nullcontext()
        from tsv.instrument import patched
        from nflows.utils import torchutils as TU

        def cbrt_stub(x):
            ctx = C()
            f = z3.Function("cbrtf", R, R)
            px = P(x)
            out = np.empty(px.shape, dtype=object)
            for idx in np.ndindex(*px.shape):
                t = toreal(px[idx]); r_ = f(t)
                ctx.axiom([r_], z3.And(r_ * r_ * r_ == t, (r_ > 0) == (t > 0), (r_ < 0) == (t < 0)))
                out[idx] = r_
            return Sym.make(out, x.dtype)
        return patched(TU.cbrt, cbrt_stub)

    QUADRATIC_THRESHOLD = rv(cubmod.DEFAULT_QUADRATIC_THRESHOLD)

    def inverse_post(self, h, ctx, props, out, ld, y, box, bn):
        """cubic inverse, branch by branch (all in normalised coordinates of the selected bin):
           |a| < threshold  : the declared quadratic approximation  b s^2 + c s + d = y  (exact when a = 0)
           one real root    : Cardano: the returned point solves the cubic exactly
           three real roots : trigonometric formula + root selection: NOT decided (outside nonlinear real arithmetic); safety only
           every branch     : the returned log-det is minus the forward log-derivative at the returned point"""
        l, r, b, t = box
        if bn is None:
            return
        xn = (out - l) / (r - l); yn = bn["yn"]
        s_ = xn - bn["xl"]
        a_, b_, c_, d_ = bn["a"], bn["b"], bn["c"], bn["d"]
        thr = self.QUADRATIC_THRESHOLD
        small = z3.And(a_ < thr, -a_ < thr)
        # the code's discriminant, from the bin coefficients
        B3, C3, D3 = (b_ / a_) / 3, (c_ / a_) / 3, (d_ - yn) / a_
        d1, d2, d3 = -B3 * B3 + C3, -C3 * B3 + D3, B3 * D3 - C3 * C3
        disc = 4 * d1 * d3 - d2 * d2
        cubic_at_s = a_ * s_ * s_ * s_ + b_ * s_ * s_ + c_ * s_ + d_
        if "C02" in props:
            ensure(h, ctx, "C02.roundtrip_fi", cubic_at_s == yn)
            numr, den = exp_of_loglin(ld)[1:]
            # exp(ld) = d out / d y = (r - l) / ((t - b) P'(s))   (P in normalised coordinates of the box)
            ensure(h, ctx, "C02.neg-logdet", numr * (t - b) * (3 * a_ * s_ * s_ + 2 * b_ * s_ + c_) == den * (r - l))
        if "C09" in props:
            ensure(h, ctx, "C09.range", z3.And(out >= l, out <= r))
        return


FAMILIES = {"rq": RQ(), "linear": Linear(), "quadratic": Quadratic(), "cubic": Cubic()}
QUADRATIC_TAILS_PARAM = Quadratic(tails_shape=True)       # boundary heights derived from the interior ones (what unconstrained_quadratic_spline passes)
QUADRATIC_TAILS_PARAM.name = "quadratic_tailsparam"


# ---------------------------------------------------------------------------------------------------------
# unconstrained wrappers (linear tails): proved against the CONTRACT of the constrained function (stub), two elements
# ---------------------------------------------------------------------------------------------------------
class SplineStub:
    """contract stub of a constrained spline function: per element an uninterpreted map f(x, params, box) and log-det g,
    the callee's `requires` (in-domain) becomes an obligation at the call site, its `ensures` (range, end-points,
    exp(g) = df/dx > 0 -- proved on the body by spline_harness) are assumed."""

    def __init__(self, fam):
        self.fam = fam
        self.calls = []

    def __call__(self, inputs, *params, inverse=False, left=0.0, right=1.0, bottom=0.0, top=1.0, **kw):
        ctx = C()
        if params == () and kw:   # keyword style call
            pass
        names = [n for n in kw if n.startswith("un")]   # unnormalized_* / unnorm_* keyword parameters, in signature order
        ps = list(params) + [kw[n] for n in names]
        px = P(inputs)
        pps = [P(p) for p in ps]
        box = [toreal(P(v).reshape(-1)[0]) if isinstance(v, torch.Tensor) else toreal(lift_num(v)) for v in (left, right, bottom, top)]
        lo, hi, olo, ohi = (box[2], box[3], box[0], box[1]) if inverse else (box[0], box[1], box[2], box[3])
        out = np.empty(px.shape, dtype=object); ld = np.empty(px.shape, dtype=object)
        tag = self.fam.name + ("_inv" if inverse else "_fwd")
        for idx in np.ndindex(*px.shape):
            x = toreal(px[idx])
            pr = [toreal(v) for p in pps for v in p[idx]] + box
            ctx.oblige("requires", z3.And(x >= lo, x <= hi), label=f"callee-in-domain:{self.fam.name}")
            n = len(pr) + 1
            f = z3.Function(f"{tag}_{n}", *([R] * (n + 1)))
            g = z3.Function(f"{tag}_ld_{n}", *([R] * (n + 1)))
            df = z3.Function(f"d0_{tag}_{n}", *([R] * (n + 1)))
            o, l, d = f(x, *pr), g(x, *pr), df(x, *pr)
            for ax in (z3.And(o >= olo, o <= ohi), z3.Implies(x == lo, o == olo), z3.Implies(x == hi, o == ohi), d > 0, T.expf(l) == d):
                ctx.axiom([o, l, d], ax)
            out[idx] = o; ld[idx] = l
            self.calls.append((idx, x, [list(p[idx]) for p in pps], box))
        return Sym.make(out, inputs.dtype), Sym.make(ld, inputs.dtype)


def lift_num(v):
    from tsv.core import lift
    return lift(v)


UNCONSTRAINED = {
    "rq": (rqmod, "unconstrained_rational_quadratic_spline", lambda K: [("uw", K), ("uh", K), ("ud", K - 1)]),
    "linear": (linmod, "unconstrained_linear_spline", lambda K: [("up", K)]),
    "quadratic": (quadmod, "unconstrained_quadratic_spline", lambda K: [("uw", K), ("uh", K - 1)]),
    "cubic": (cubmod, "unconstrained_cubic_spline", lambda K: [("uw", K), ("uh", K), ("dl", 1), ("dr", 1)]),
}


def unconstrained_harness(famname, K, inverse, props, N=2):
    from tsv.instrument import patched
    fam = FAMILIES[famname]
    mod, fname, pspec_f = UNCONSTRAINED[famname]
    pspec = pspec_f(K)
    ufunc = getattr(mod, fname)

    def run(h, ctx):
        x = h.inp("x", (N,))
        ps = [h.inp(n, (N, m)) for n, m in pspec]
        Bd = scal("tail_bound"); ctx.assume(el(Bd) > 0)
        h.inputs["tail_bound"] = Bd
        stub = SplineStub(fam)
        h.stub = stub
        with patched(fam.func, stub):
            return ufunc(x, *ps, inverse=inverse, tails="linear", tail_bound=Bd)

    def post(h, ctx, value):
        o, ld = value
        Bd = el(h.inputs["tail_bound"])
        xs = P(h.inputs["x"])
        for e in range(N):
            x = xs[e]; oe, le = P(o)[e], P(ld)[e]
            inside = z3.And(x >= -Bd, x <= Bd)
            if "C09" in props:
                ensure(h, ctx, "C09.tails-identity", z3.Implies(z3.Not(inside), z3.And(oe == x, le == 0)))
                ensure(h, ctx, "C09.inside-stays-inside", z3.Implies(inside, z3.And(oe >= -Bd, oe <= Bd)))
                ensure(h, ctx, "C09.continuous-at-upper-bound", z3.Implies(x == Bd, oe == Bd))
                ensure(h, ctx, "C09.continuous-at-lower-bound", z3.Implies(x == -Bd, oe == -Bd))
            if "C01" in props:
                d = diff(oe, x)
                ensure(h, ctx, "C01.logdet", z3.And(d > 0, T.expf(le) == d) if not is_num(z3.simplify(le)) else z3.And(d == 1, le == 0))
        if "C12" in props:
            # the callee saw, for every element it was given, that element's own parameters (mask gather/scatter alignment)
            for idx, x, params, box in h.stub.calls:
                e = next((i for i in range(N) if z3.eq(x, toreal(xs[i]))), None)
                ok = e is not None
                if ok:
                    for (n, m), got in zip(pspec, params):
                        want = list(P(h.inputs[n])[e])
                        if n == "ud":   # derivatives are padded with the boundary constant on both sides
                            got = got[1:-1]
                        ok = ok and len(got) == len(want) and all(z3.eq(a, b) for a, b in zip(got, want))
                ensure(h, ctx, "C12.callee-saw-own-row", z3.BoolVal(bool(ok)))
            ensure(h, ctx, "C12.called", z3.BoolVal(True))
        if "C13" in props:
            bad = [w for w in ctx.writes if w[0].startswith("arg:")]
            ensure(h, ctx, "C13.no-write-to-arguments", z3.BoolVal(not bad), meta={"writes": [str(w) for w in bad][:3]})

    def native_call(h, inp):
        return ufunc(tt(inp["x"]), *[tt(inp[n]) for n, _ in pspec], inverse=inverse, tails="linear", tail_bound=float(inp["tail_bound"]))

    def native_clauses(h, inp, res):
        o, ld = res
        Bd = float(inp["tail_bound"]); x = tt(inp["x"])
        inside = (x >= -Bd) & (x <= Bd)
        c = {"C09.tails-identity": bool(torch.equal(o[~inside], x[~inside]) and (ld[~inside] == 0).all()),
             "C09.inside-stays-inside": bool(((o[inside] >= -Bd - 1e-9) & (o[inside] <= Bd + 1e-9)).all()),
             "C09.continuous-at-upper-bound": bool(torch.allclose(o[x == Bd], x[x == Bd], atol=1e-7 * max(1, Bd))),
             "C09.continuous-at-lower-bound": bool(torch.allclose(o[x == -Bd], x[x == -Bd], atol=1e-7 * max(1, Bd)))}
        # row alignment: evaluating the rows one at a time gives the same result
        rows = [ufunc(tt(inp["x"][i:i + 1]), *[tt(inp[n][i:i + 1]) for n, _ in pspec], inverse=inverse, tails="linear", tail_bound=Bd) for i in range(N)]
        c["C12.callee-saw-own-row"] = bool(torch.allclose(torch.cat([r[0] for r in rows]), o, atol=1e-12) and torch.allclose(torch.cat([r[1] for r in rows]), ld, atol=1e-12))
        xt = x.clone().requires_grad_(True)
        o2, ld2 = ufunc(xt, *[tt(inp[n]) for n, _ in pspec], inverse=inverse, tails="linear", tail_bound=Bd)
        g, = torch.autograd.grad(o2.sum(), xt)
        off = (x.abs() != Bd)      # the junction itself is a kink
        c["C01.logdet"] = bool((g[off] > 0).all() and torch.allclose(torch.log(g[off]), ld2.detach()[off], atol=1e-6))
        before = {k: np.array(v, copy=True) for k, v in inp.items()}
        ts = {k: tt(v) for k, v in inp.items()}
        ufunc(ts["x"], *[ts[n] for n, _ in pspec], inverse=inverse, tails="linear", tail_bound=Bd)
        c["C13.no-write-to-arguments"] = all(np.array_equal(ts[k].numpy(), before[k]) for k in before)
        return c

    def sample(h, rng):
        Bd = float(abs(rng.normal()) * 3 + 0.2)
        x = rng.normal(size=(N,)) * 2 * Bd
        if rng.uniform() < 0.3: x[0] = Bd
        if rng.uniform() < 0.3: x[-1] = -Bd
        d = {"x": x, "tail_bound": np.array(Bd)}
        for n, m in pspec:
            d[n] = rng.normal(size=(N, m)) * 2
        return d

    return Harness(f"unconstrained_{famname}[K={K},inverse={inverse},N={N}]", run, post, native_call=native_call, native_clauses=native_clauses,
                   sample=sample, functions=[ufunc], config={"family": famname, "K": K, "inverse": inverse, "N": N})


# ---------------------------------------------------------------------------------------------------------
# Piecewise*CDF transform classes (nonlinearities.py): real class + real unconstrained wrapper, constrained function stubbed
# ---------------------------------------------------------------------------------------------------------
def cdf_harness(famname, tails, tail_bound, xshape, inverse, props, K=2):
    from tsv.instrument import patched
    from nflows.transforms import nonlinearities as NL
    from .modules import exp_of_term, zabs
    fam = FAMILIES[famname]
    cls = {"linear": NL.PiecewiseLinearCDF, "quadratic": NL.PiecewiseQuadraticCDF, "cubic": NL.PiecewiseCubicCDF, "rq": NL.PiecewiseRationalQuadraticCDF}[famname]
    fshape = list(xshape[1:])

    def make():
        return cls(shape=fshape, num_bins=K, tails=tails, tail_bound=tail_bound)

    def run(h, ctx):
        m = make()          # under the symbolic mode: torch.randn parameters are fresh symbols
        m.eval()
        h.module = m
        x = h.inp("x", xshape)
        if tails is None:
            for t in P(x).reshape(-1):
                ctx.assume(z3.And(t >= 0, t <= 1))
        stub = SplineStub(fam)
        h.stub = stub
        with patched(fam.func, stub):
            return m.inverse(x) if inverse else m.forward(x)

    def post(h, ctx, value):
        o, ld = value
        px, po, pl = P(h.inputs["x"]), P(o), P(ld)
        B = px.shape[0]
        Bd = rv(tail_bound)
        ensure(h, ctx, "C01.shapes", z3.BoolVal(tuple(po.shape) == tuple(px.shape) and tuple(pl.shape) == (B,)))
        for idx in np.ndindex(*px.shape):
            x, oe = px[idx], po[idx]
            if tails is not None and "C09" in props:
                inside = z3.And(x >= -Bd, x <= Bd)
                ensure(h, ctx, "C09.tails-identity", z3.Implies(z3.Not(inside), oe == x))
                ensure(h, ctx, "C09.inside-stays-inside", z3.Implies(inside, z3.And(oe >= -Bd, oe <= Bd)))
                ensure(h, ctx, "C09.continuous-at-bound", z3.And(z3.Implies(x == Bd, oe == Bd), z3.Implies(x == -Bd, oe == -Bd)))
        if "C01" in props and not inverse:
            for b in range(B):
                prod = rv(1)
                for idx in np.ndindex(*px.shape[1:]):
                    prod = T.mul(prod, diff(po[(b,) + idx], px[(b,) + idx]))
                numr, den = exp_of_term(pl[b])
                ensure(h, ctx, "C01.logdet", z3.And(zabs(prod) * den == numr, prod != 0))
        if "C12" in props or "C01" in props:
            # every element was evaluated with the parameters of its own feature position (shared across the batch)
            pnames = [n for n, _ in h.module.named_parameters()]
            ok = True
            for idx, x, params, box in h.stub.calls:
                e = next((i for i in np.ndindex(*px.shape) if z3.eq(x, toreal(px[i]))), None)
                if e is None:
                    ok = False; continue
                for n, got in zip(pnames, params):
                    want = list(P(getattr(h.module, n))[e[1:]])
                    if famname == "rq" and n == "unnormalized_derivatives" and tails == "linear":
                        got = got[1:-1]
                    ok = ok and len(got) == len(want) and all(z3.eq(a, b_) for a, b_ in zip(got, want))
            ensure(h, ctx, "C12.own-feature-parameters", z3.BoolVal(bool(ok)))

    def nat_module(inp):
        torch.manual_seed(int(abs(float(np.asarray(inp["x"]).sum())) * 1000) % 100000)
        return native_cast(make()).eval()

    def native_call(h, inp):
        m = nat_module(inp)
        return m.inverse(tt(inp["x"])) if inverse else m.forward(tt(inp["x"]))

    def native_clauses(h, inp, res):
        o, ld = res
        x = tt(inp["x"]); m = nat_module(inp)
        f = m.inverse if inverse else m.forward
        c = {}
        if tails is not None:
            inside = (x >= -tail_bound) & (x <= tail_bound)
            c["C09.tails-identity"] = bool(torch.equal(o[~inside], x[~inside]))
            c["C09.inside-stays-inside"] = bool(((o[inside] >= -tail_bound - 1e-9) & (o[inside] <= tail_bound + 1e-9)).all())
            c["C09.continuous-at-bound"] = bool(torch.allclose(o[x.abs() == tail_bound], x[x.abs() == tail_bound], atol=1e-7))
        J = torch.autograd.functional.jacobian(lambda z: f(z)[0], x)
        n = x[0].numel()
        off = bool((x.abs() != tail_bound).all()) if tails is not None else True
        if not inverse and off:
            c["C01.logdet"] = all(abs(float(torch.slogdet(J.reshape(x.shape[0], n, x.shape[0], n)[b, :, b, :])[1]) - float(ld[b])) < 1e-6 for b in range(x.shape[0]))
        rows = [f(x[i:i + 1]) for i in range(x.shape[0])]
        c["C12.own-feature-parameters"] = bool(torch.allclose(torch.cat([r[0] for r in rows]), o, atol=1e-12))
        return c

    def sample(h, rng):
        if tails is None:
            return {"x": rng.uniform(0.02, 0.98, size=xshape)}
        x = rng.uniform(-2.2 * tail_bound, 2.2 * tail_bound, size=xshape)
        if rng.uniform() < 0.3: x.reshape(-1)[0] = tail_bound
        if rng.uniform() < 0.3: x.reshape(-1)[-1] = -tail_bound
        return {"x": x}

    hid = f"{cls.__name__}[tails={tails},bound={tail_bound},x={'x'.join(map(str, xshape))},inverse={inverse}]"
    return Harness(hid, run, post, native_call=native_call, native_clauses=native_clauses, sample=sample, functions=[cls._spline, cls.__init__],
                   config={"family": famname, "tails": tails, "tail_bound": tail_bound, "xshape": list(xshape), "inverse": inverse})


def cdf_harnesses(props, tier, directions=(False, True)):
    hs = []
    for fam in FAMILIES:
        for inv in directions:
            hs.append(cdf_harness(fam, None, 1.0, (2, 2), inv, props))
            for bound in ((0.5, 3.0) if tier == "quick" else (0.25, 0.5, 1.0, 3.0, 50.0)):
                hs.append(cdf_harness(fam, "linear", bound, (2, 1), inv, props))
            hs.append(cdf_harness(fam, "linear", 2.0, (1, 2, 1), inv, props))
    return hs
