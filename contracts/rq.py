"""contracts for nflows.transforms.splines.rational_quadratic.rational_quadratic_spline

Lemma cuts (inserted by AST insertion, DESIGN 3.7):
  rq.knots  after `heights = ...`      knots pinned to the box and strictly increasing, sizes positive, derivatives positive
  rq.bin    after `input_heights = ..` facts about the selected bin only (everything else about the knots is forgotten)
  rq.root   after `root = ...`         0 <= root <= 1 and S(root) = y, S the rational-quadratic of the bin (the spec function)
"""
import numpy as np
import torch, z3
from tsv.core import Sym, P, C, fresh, toreal, rv
from tsv.harness import Harness
from tsv.instrument import instrument, cut
from tsv import terms as T
from .common import *
import nflows.transforms.splines.rational_quadratic as rqmod
from nflows.transforms.base import InputOutsideDomain


def _box(left, right, bottom, top):
    return [toreal(P(v).reshape(-1)[0]) if isinstance(v, torch.Tensor) else toreal(v) for v in (left, right, bottom, top)]


@cut("rq.knots")
def knots_cut(cut_id, widths, cumwidths, heights, cumheights, derivatives, left, right, bottom, top):
    ctx = C()
    K = widths.shape[-1]
    box = _box(left, right, bottom, top)

    def facts(w, cw, h, ch, d):
        f = [("cw0", cw[0] == box[0]), ("cwK", cw[K] == box[1]), ("ch0", ch[0] == box[2]), ("chK", ch[K] == box[3])]
        for k in range(K):
            f += [(f"w{k}", w[k] == cw[k + 1] - cw[k]), (f"w{k}>0", w[k] > 0), (f"h{k}", h[k] == ch[k + 1] - ch[k]), (f"h{k}>0", h[k] > 0)]
        return f + [(f"d{k}>0", d[k] > 0) for k in range(K + 1)]

    ts = (widths, cumwidths, heights, cumheights, derivatives)
    outs = [np.empty(t.shape, dtype=object) for t in ts]
    for idx in np.ndindex(*widths.shape[:-1]):
        real = [list(P(t)[idx]) for t in ts]
        flat = [x for r in real for x in r]
        fr, new = memo_cut(ctx, cut_id, flat, lambda: [[fresh(n) for _ in r] for n, r in zip(("w", "cw", "h", "ch", "d"), real)])
        if new:
            for nm, f in facts(*real):
                ctx.oblige("cut-lemma", f, label=f"{cut_id}.{nm}")
            ctx.hard_cut([(a, b) for frs, rs in zip(fr, real) for a, b in zip(frs, rs)], [f for _, f in facts(*fr)], keep_terms=box)
        for o, v in zip(outs, fr):
            o[idx] = v
    return tuple(Sym.make(o, t.dtype) for o, t in zip(outs, ts))


@cut("rq.bin")
def bin_cut(cut_id, icw, ibw, ich, idl, d0, d1, ih, inputs, inverse, left, right, bottom, top):
    ctx = C()
    L, Rr, Bt, Tp = box = _box(left, right, bottom, top)
    ts = (icw, ibw, ich, idl, d0, d1, ih)
    outs = [np.empty(t.shape, dtype=object) for t in ts]
    for idx in np.ndindex(*icw.shape):
        x = P(inputs)[idx]

        def facts(cw, w, ch, dl, a0, a1, h):
            f = [("w>0", w > 0), ("h>0", h > 0), ("slope", dl * w == h), ("d0>0", a0 > 0), ("d1>0", a1 > 0),
                 ("in-box-l", cw >= L), ("in-box-r", cw + w <= Rr), ("in-box-b", ch >= Bt), ("in-box-t", ch + h <= Tp),
                 ("corner-lo", (cw == L) == (ch == Bt)), ("corner-hi", (cw + w == Rr) == (ch + h == Tp))]
            if inverse:
                f += [("y>=", x >= ch), ("y<=", x <= ch + h), ("lo-bin", z3.Implies(x == Bt, ch == Bt)), ("hi-bin", z3.Implies(x == Tp, ch + h == Tp))]
            else:
                f += [("x>=", x >= cw), ("x<=", x <= cw + w), ("lo-bin", z3.Implies(x == L, cw == L)), ("hi-bin", z3.Implies(x == Rr, cw + w == Rr))]
            return f
        real = [P(t)[idx] for t in ts]
        fr, new = memo_cut(ctx, cut_id, real + [x], lambda: [fresh(n) for n in "bcw bw bch bdl bd0 bd1 bh".split()])
        if new:
            for nm, f in facts(*real):
                ctx.oblige("cut-lemma", f, label=f"{cut_id}.{nm}")
            ctx.hard_cut(list(zip(fr, real)), [f for _, f in facts(*fr)], keep_terms=box + [x])
        ctx.notes["bin"] = dict(cw=fr[0], w=fr[1], ch=fr[2], dl=fr[3], d0=fr[4], d1=fr[5], h=fr[6], xl=fr[0], xr=fr[0] + fr[1], yl=fr[2], yr=fr[2] + fr[6])
        for o, v in zip(outs, fr):
            o[idx] = v
    return tuple(Sym.make(o, t.dtype) for o, t in zip(outs, ts))


def S_num_den(b, th):
    """the rational quadratic of a bin at local coordinate th: S = ch + h * num / den"""
    numr = b["dl"] * th * th + b["d0"] * th * (1 - th)
    den = b["dl"] + (b["d0"] + b["d1"] - 2 * b["dl"]) * th * (1 - th)
    return numr, den


@cut("rq.root")
def root_cut(cut_id, root, inputs, inverse):
    if not inverse:
        # the lemma speaks about the inverse direction only (a refactor may share the local's name with the forward pass)
        return (root,)
    ctx = C()
    b = ctx.notes["bin"]
    out = np.empty(root.shape, dtype=object)
    for idx in np.ndindex(*root.shape):
        y = P(inputs)[idx]

        def G(r):
            n, d = S_num_den(b, r)
            return (y - b["ch"]) * d - b["h"] * n
        actual = P(root)[idx]
        th, new = memo_cut(ctx, cut_id, [actual], lambda: fresh("theta"))
        if new:
            for nm, f in (("ge0", actual >= 0), ("le1", actual <= 1), ("fwd", G(actual) == 0)):
                ctx.oblige("cut-lemma", f, label=f"{cut_id}.{nm}")
            ctx.cutdefs.append(th == actual)
            for f in (th >= 0, th <= 1, G(th) == 0):
                ctx.facts.append([f, False]); ctx.solver.add(f)
            T.IMPLICIT[th.get_id()] = (th, G(th))
        out[idx] = th
    return (Sym.make(out, root.dtype),)


RQ_CUTS = [
    ("heights", "rq.knots", ["widths", "cumwidths", "heights", "cumheights", "derivatives"], ["left", "right", "bottom", "top"]),
    ("input_heights", "rq.bin", ["input_cumwidths", "input_bin_widths", "input_cumheights", "input_delta", "input_derivatives",
                                 "input_derivatives_plus_one", "input_heights"], ["inputs", "inverse", "left", "right", "bottom", "top"]),
    ("root", "rq.root", ["root"], ["inputs", "inverse"]),
]


def rq_instrumented():
    return instrument(rqmod.rational_quadratic_spline, RQ_CUTS)


def box_syms(h, ctx):
    l, r, b, t = (scal(n) for n in ("left", "right", "bottom", "top"))
    ctx.assume(el(l) < el(r)); ctx.assume(el(b) < el(t))
    h.box = (l, r, b, t)
    h.inputs.update(left=l, right=r, bottom=b, top=t)
    return l, r, b, t


def rq_spline_harness(K, inverse, props, identity_init=False):
    """the constrained function on one generic element (leading-shape polymorphism: DESIGN 3.3); symbolic box"""
    f = rq_instrumented()

    def run(h, ctx):
        x = h.inp("x", (1,)); uw = h.inp("uw", (1, K)); uh = h.inp("uh", (1, K)); ud = h.inp("ud", (1, K + 1))
        l, r, b, t = box_syms(h, ctx)
        return f(x, uw, uh, ud, inverse=inverse, left=l, right=r, bottom=b, top=t, enable_identity_init=identity_init)

    def dom(h, ctx):
        l, r, b, t = (el(v) for v in h.box)
        x = el(h.inputs["x"])
        lo, hi = (b, t) if inverse else (l, r)
        return z3.Or(x < lo, x > hi)

    def post(h, ctx, value):
        out, ld = el(value[0]), el(value[1])
        x = el(h.inputs["x"])
        l, r, b, t = (el(v) for v in h.box)
        lo, hi, olo, ohi = (b, t, l, r) if inverse else (l, r, b, t)
        bn = ctx.notes.get("bin")
        if "C09" in props:
            ensure(h, ctx, "C09.range", z3.And(out >= olo, out <= ohi))
            ensure(h, ctx, "C09.endpoint-lo", z3.Implies(x == lo, out == olo))
            ensure(h, ctx, "C09.endpoint-hi", z3.Implies(x == hi, out == ohi))
            ensure(h, ctx, "C09.strictly-increasing", diff(out, x) > 0)
            if bn is not None:
                xl, xr, yl, yr = (bn["ch"], bn["ch"] + bn["h"], bn["cw"], bn["cw"] + bn["w"]) if inverse else \
                    (bn["cw"], bn["cw"] + bn["w"], bn["ch"], bn["ch"] + bn["h"])
                ensure(h, ctx, "C09.continuous-at-left-knot", z3.Implies(x == xl, out == yl))
                ensure(h, ctx, "C09.continuous-at-right-knot", z3.Implies(x == xr, out == yr))
        if "C01" in props and not inverse:
            logdet_is_log_derivative(h, ctx, "C01.logdet", out, ld, x)
        if "C02" in props and bn is not None:
            if not inverse:
                th = (x - bn["cw"]) / bn["w"]
                n, d = S_num_den(bn, th)
                ensure(h, ctx, "C02.forward-is-spec", (out - bn["ch"]) * d == bn["h"] * n)
            else:
                th = (out - bn["cw"]) / bn["w"]
                n, d = S_num_den(bn, th)
                ensure(h, ctx, "C02.roundtrip_fi", z3.And((x - bn["ch"]) * d == bn["h"] * n, out >= bn["cw"], out <= bn["cw"] + bn["w"]))
                # inverse function theorem: the log-det returned by inverse is the log-derivative of the inverse map
                logdet_is_log_derivative(h, ctx, "C02.neg-logdet", out, ld, x)

    def native_call(h, inp):
        return rqmod.rational_quadratic_spline(tt(inp["x"]), tt(inp["uw"]), tt(inp["uh"]), tt(inp["ud"]), inverse=inverse,
                                               left=float(inp["left"]), right=float(inp["right"]), bottom=float(inp["bottom"]),
                                               top=float(inp["top"]), enable_identity_init=identity_init)

    def outside(h, inp):
        lo, hi = (inp["bottom"], inp["top"]) if inverse else (inp["left"], inp["right"])
        return bool((inp["x"] < lo).any() or (inp["x"] > hi).any())

    def native_clauses(h, inp, res):
        return spline_native_clauses(lambda x, inv: rqmod.rational_quadratic_spline(
            x, tt(inp["uw"]), tt(inp["uh"]), tt(inp["ud"]), inverse=inv, left=float(inp["left"]), right=float(inp["right"]),
            bottom=float(inp["bottom"]), top=float(inp["top"]), enable_identity_init=identity_init), inp, res, inverse)

    def sample(h, rng):
        d = sample_box(rng, inverse)
        d.update(uw=rng.normal(size=(1, K)) * 2, uh=rng.normal(size=(1, K)) * 2, ud=rng.normal(size=(1, K + 1)) * 2)
        return d

    return Harness(f"rq_spline[K={K},inverse={inverse},ident={identity_init}]", run, post, raises={InputOutsideDomain: dom},
                   native_call=native_call, native_clauses=native_clauses, native_raises={InputOutsideDomain: outside}, sample=sample,
                   functions=[rqmod.rational_quadratic_spline], config={"K": K, "inverse": inverse, "identity_init": identity_init})


def sample_box(rng, inverse, same_scale=False):
    big = rng.choice([1.0, 1.0, 40.0, 1000.0])
    l = rng.normal() * 2 * big; r = l + (abs(rng.normal()) * 3 + 0.1) * big
    b = rng.normal() * 2 * big; t = b + ((abs(rng.normal()) * 3 + 0.1) * big if not same_scale else (r - l))
    l, r, b, t = (float(np.float32(v)) for v in (l, r, b, t))
    if same_scale: t = float(np.float32(b + (r - l)))
    lo, hi = (b, t) if inverse else (l, r)
    u = rng.choice([0.0, 1.0, rng.uniform()], p=[0.1, 0.1, 0.8])
    return {"x": np.array([lo + u * (hi - lo)]), "left": np.array(l), "right": np.array(r), "bottom": np.array(b), "top": np.array(t)}


def spline_native_clauses(fn, inp, res, inverse, same_scale=False):
    """numeric evaluation of the spline clauses on the real function (float64): used to replay counterexamples"""
    out, ld = res
    lo, hi, olo, ohi = (inp["bottom"], inp["top"], inp["left"], inp["right"]) if inverse else (inp["left"], inp["right"], inp["bottom"], inp["top"])
    lo, hi, olo, ohi = (float(v) for v in (lo, hi, olo, ohi))
    sc = max(1.0, abs(olo), abs(ohi))
    c = {"C09.range": bool((out >= olo - 1e-9 * sc).all() and (out <= ohi + 1e-9 * sc).all())}
    x = float(inp["x"].reshape(-1)[0])
    c["C09.endpoint-lo"] = (x != lo) or abs(float(out[0]) - olo) <= 1e-7 * sc
    c["C09.endpoint-hi"] = (x != hi) or abs(float(out[0]) - ohi) <= 1e-7 * sc
    xt = tt(inp["x"]).requires_grad_(True)
    o2, ld2 = fn(xt, inverse)
    g, = torch.autograd.grad(o2.sum(), xt)
    if x == lo or x == hi:
        return c          # end-points are kinks of the float implementation (clamps): derivative clauses are not evaluated there
    pos = bool((g > 0).all())
    c["C09.strictly-increasing"] = pos
    agree = pos and bool(torch.allclose(torch.log(g), ld2.detach(), atol=1e-6, rtol=1e-6))
    if inverse:
        c["C02.neg-logdet.value"] = agree; c["C02.neg-logdet.positive"] = pos; c["C02.neg-logdet"] = agree
        back, ldf = fn(out.detach(), False)
        c["C02.roundtrip_fi"] = bool(torch.allclose(back, tt(inp["x"]), atol=1e-6 * max(1.0, abs(lo), abs(hi)), rtol=1e-6))
    else:
        c["C01.logdet.value"] = agree; c["C01.logdet.positive"] = pos
    eps = 1e-7 * max(1.0, abs(hi - lo))
    if lo + eps < x < hi - eps:
        o_l, _ = fn(tt(inp["x"]) - eps, inverse); o_r, _ = fn(tt(inp["x"]) + eps, inverse)
        cont = abs(float(o_r[0]) - float(o_l[0])) <= 1e-3 * max(1.0, abs(ohi - olo)) and float(o_l[0]) <= float(out[0]) <= float(o_r[0])
        c["C09.continuous-at-left-knot"] = cont; c["C09.continuous-at-right-knot"] = cont
    return c
