"""contracts for nflows.transforms.splines.rational_quadratic"""
import numpy as np
import torch, z3
from tsv.core import Sym, P, C, fresh, toreal, rv
from tsv.harness import Harness
from tsv.instrument import instrument, cut, patched
from tsv import terms as T
from .common import *
import nflows.transforms.splines.rational_quadratic as rqmod
from nflows.transforms.base import InputOutsideDomain


# ---- lemma cuts -----------------------------------------------------------------------------------------
def knots_cut(cut_id, widths, cumwidths, heights, cumheights, derivatives, left, right, bottom, top):
    """lemma: knots pinned to the box, strictly increasing; bin sizes are knot differences; knot derivatives positive.
    Proved on the actual terms (cut-lemma obligations), then the tensors are replaced by fresh symbols that satisfy it."""
    ctx = C()
    K = widths.shape[-1]
    box = [toreal(P(v).reshape(-1)[0]) if isinstance(v, torch.Tensor) else toreal(v) for v in (left, right, bottom, top)]

    def facts(w, cw, h, ch, d):
        f = [("cw0", cw[0] == box[0]), ("cwK", cw[K] == box[1]), ("ch0", ch[0] == box[2]), ("chK", ch[K] == box[3])]
        for k in range(K):
            f += [(f"w{k}", w[k] == cw[k + 1] - cw[k]), (f"w{k}>0", w[k] > 0), (f"h{k}", h[k] == ch[k + 1] - ch[k]), (f"h{k}>0", h[k] > 0)]
        return f + [(f"d{k}>0", d[k] > 0) for k in range(K + 1)]

    ts = (widths, cumwidths, heights, cumheights, derivatives)
    outs = [np.empty(t.shape, dtype=object) for t in ts]
    for idx in np.ndindex(*widths.shape[:-1]):
        real = [list(P(t)[idx]) for t in ts]
        flat = [x for r in real for x in r]

        def make():
            return [[fresh(n) for _ in r] for n, r in zip(("w", "cw", "h", "ch", "d"), real)]
        fr, new = memo_cut(ctx, cut_id, flat, make)
        if new:
            for nm, f in facts(*real):
                ctx.oblige("cut-lemma", f, label=f"{cut_id}.{nm}")
            defs = [(a, b) for frs, rs in zip(fr, real) for a, b in zip(frs, rs)]
            ctx.hard_cut(defs, [f for _, f in facts(*fr)], keep_terms=box)
        for o, v in zip(outs, fr):
            o[idx] = v
    return tuple(Sym.make(o, t.dtype) for o, t in zip(outs, ts))


cut("rq.knots")(knots_cut)


def root_cut(cut_id, root, inputs, ich, ih, idl, d0, d1):
    """lemma: root in [0,1] and the forward rational-quadratic evaluated at root gives the input y"""
    ctx = C()
    out = np.empty(root.shape, dtype=object)
    for idx in np.ndindex(*root.shape):
        y, yk, h, dl, a0, a1 = (P(t)[idx] for t in (inputs, ich, ih, idl, d0, d1))

        def facts(r):
            return [("ge0", r >= 0), ("le1", r <= 1),
                    ("fwd", (y - yk) * (dl + (a0 + a1 - 2 * dl) * r * (1 - r)) == h * (dl * r * r + a0 * r * (1 - r)))]
        actual = P(root)[idx]
        th, new = memo_cut(ctx, cut_id, [actual], lambda: fresh("theta"))
        if new:
            for nm, f in facts(actual):
                ctx.oblige("cut-lemma", f, label=f"{cut_id}.{nm}")
            ctx.cutdefs.append(th == actual)
            for _, f in facts(th):
                ctx.facts.append([f, False]); ctx.solver.add(f)
        out[idx] = th
    return (Sym.make(out, root.dtype),)


cut("rq.root")(root_cut)

def bin_cut(cut_id, icw, ibw, ich, idl, d0, d1, ih, inputs, inverse, left, right, bottom, top):
    """lemma about the selected bin: positive size, slope = h/w, positive knot derivatives, the input lies in the bin,
    the bin lies in the box, and box corners correspond.  Everything else about the knots is forgotten afterwards."""
    ctx = C()
    box = [toreal(P(v).reshape(-1)[0]) if isinstance(v, torch.Tensor) else toreal(v) for v in (left, right, bottom, top)]
    L, Rr, Bt, Tp = box
    ts = (icw, ibw, ich, idl, d0, d1, ih)
    outs = [np.empty(t.shape, dtype=object) for t in ts]
    for idx in np.ndindex(*icw.shape):
        x = P(inputs)[idx]

        def facts(cw, w, ch, dl, a0, a1, h):
            f = [("w>0", w > 0), ("h>0", h > 0), ("slope", dl * w == h), ("d0>0", a0 > 0), ("d1>0", a1 > 0),
                 ("in-box-l", cw >= L), ("in-box-r", cw + w <= Rr), ("in-box-b", ch >= Bt), ("in-box-t", ch + h <= Tp),
                 ("corner-lo", (cw == L) == (ch == Bt)), ("corner-hi", (cw + w == Rr) == (ch + h == Tp))]
            if inverse:
                f += [("y>=", x >= ch), ("y<=", x <= ch + h), ("lo-bin", z3.Implies(x == Bt, ch == Bt)), ("hi-bin", z3.Implies(x == Tp, ch + h == Tp))]
            else:
                f += [("x>=", x >= cw), ("x<=", x <= cw + w), ("lo-bin", z3.Implies(x == L, cw == L)), ("hi-bin", z3.Implies(x == Rr, cw + w == Rr))]
            return f
        real = [P(t)[idx] for t in ts]
        fr, new = memo_cut(ctx, cut_id, real + [x], lambda: [fresh(n) for n in "bcw bw bch bdl bd0 bd1 bh".split()])
        if new:
            for nm, f in facts(*real):
                ctx.oblige("cut-lemma", f, label=f"{cut_id}.{nm}")
            ctx.hard_cut(list(zip(fr, real)), [f for _, f in facts(*fr)], keep_terms=box + [x])
        for o, v in zip(outs, fr):
            o[idx] = v
    return tuple(Sym.make(o, t.dtype) for o, t in zip(outs, ts))


cut("rq.bin")(bin_cut)

RQ_CUTS = [
    ("heights", "rq.knots", ["widths", "cumwidths", "heights", "cumheights", "derivatives"], ["left", "right", "bottom", "top"]),
    ("input_heights", "rq.bin", ["input_cumwidths", "input_bin_widths", "input_cumheights", "input_delta", "input_derivatives",
                                 "input_derivatives_plus_one", "input_heights"], ["inputs", "inverse", "left", "right", "bottom", "top"]),
    ("root", "rq.root", ["root"], ["inputs", "input_cumheights", "input_heights", "input_delta", "input_derivatives", "input_derivatives_plus_one"]),
]


def rq_instrumented():
    return instrument(rqmod.rational_quadratic_spline, RQ_CUTS)


# ---- harnesses ----------------------------------------------------------------------------------------------
def box_syms(ctx, square=False):
    l, r, b, t = (scal(n) for n in ("left", "right", "bottom", "top"))
    ctx.assume(el(l) < el(r)); ctx.assume(el(b) < el(t))
    if square:
        ctx.assume(el(b) == el(l)); ctx.assume(el(t) == el(r))
    return l, r, b, t


def rq_spline_harness(K, inverse, props, identity_init=False):
    """the constrained function on one generic element (leading-shape polymorphism: DESIGN 3.3)"""
    f = rq_instrumented()

    def run(h, ctx):
        x = h.inp("x", (1,)); uw = h.inp("uw", (1, K)); uh = h.inp("uh", (1, K)); ud = h.inp("ud", (1, K + 1))
        l, r, b, t = box_syms(ctx, square=False)
        h.box = (l, r, b, t)
        h.inputs.update(left=l, right=r, bottom=b, top=t)
        return f(x, uw, uh, ud, inverse=inverse, left=l, right=r, bottom=b, top=t, enable_identity_init=identity_init)

    def dom(h, ctx):
        l, r, b, t = (el(v) for v in h.box)
        x = el(h.inputs["x"])
        lo, hi = (b, t) if inverse else (l, r)
        return z3.Or(x < lo, x > hi)

    def post(h, ctx, value):
        out, ld = el(value[0]), el(value[1])
        x = el(h.inputs["x"])
        l, r, b, t = (el(v) for v in h.box)
        lo, hi, olo, ohi = (b, t, l, r) if inverse else (l, r, b, t)
        if "C09" in props:
            ensure(h, ctx, "C09.range", z3.And(out >= olo, out <= ohi))
            ensure(h, ctx, "C09.endpoint-lo", z3.Implies(x == lo, out == olo))
            ensure(h, ctx, "C09.endpoint-hi", z3.Implies(x == hi, out == ohi))
            if not inverse:
                d = diff(out, x)
                ensure(h, ctx, "C09.strictly-increasing", d > 0)
                # continuity across knots: the value at the bin edges equals the knot heights
                k = next(iter(ctx.intcache.values()))[1] if ctx.intcache else 0
                knots = ctx.notes.get("knots")
        if "C01" in props and not inverse:
            logdet_is_log_derivative(h, ctx, "C01.logdet", out, ld, x)

    def native_call(h, inp):
        return rqmod.rational_quadratic_spline(tt(inp["x"]), tt(inp["uw"]), tt(inp["uh"]), tt(inp["ud"]), inverse=inverse,
                                               left=float(inp["left"]), right=float(inp["right"]), bottom=float(inp["bottom"]),
                                               top=float(inp["top"]), enable_identity_init=identity_init)

    def outside(h, inp):
        lo, hi = (inp["bottom"], inp["top"]) if inverse else (inp["left"], inp["right"])
        return bool((inp["x"] < lo).any() or (inp["x"] > hi).any())

    def native_clauses(h, inp, res):
        out, ld = res
        lo, hi, olo, ohi = (inp["bottom"], inp["top"], inp["left"], inp["right"]) if inverse else (inp["left"], inp["right"], inp["bottom"], inp["top"])
        tol = 1e-9 * max(1.0, abs(float(ohi)), abs(float(olo)))
        c = {"C09.range": bool((out >= olo - tol).all() and (out <= ohi + tol).all())}
        x = inp["x"]
        c["C09.endpoint-lo"] = not (x == lo).all() or abs(float(out[0]) - float(olo)) <= 1e-7 * max(1, abs(float(olo)))
        c["C09.endpoint-hi"] = not (x == hi).all() or abs(float(out[0]) - float(ohi)) <= 1e-7 * max(1, abs(float(ohi)))
        if not inverse:
            xt = tt(inp["x"]).requires_grad_(True)
            o2, ld2 = rqmod.rational_quadratic_spline(xt, tt(inp["uw"]), tt(inp["uh"]), tt(inp["ud"]), inverse=False, left=float(inp["left"]),
                                                      right=float(inp["right"]), bottom=float(inp["bottom"]), top=float(inp["top"]),
                                                      enable_identity_init=identity_init)
            g, = torch.autograd.grad(o2.sum(), xt)
            c["C09.strictly-increasing"] = bool((g > 0).all())
            ok = bool((g > 0).all()) and bool(torch.allclose(torch.log(g), ld2.detach(), atol=1e-6, rtol=1e-6))
            c["C01.logdet.value"] = ok; c["C01.logdet.positive"] = bool((g > 0).all())
        return c

    def sample(h, rng):
        l = rng.normal() * 2; r = l + abs(rng.normal()) * 3 + 0.1
        b = rng.normal() * 2; t = b + abs(rng.normal()) * 3 + 0.1
        lo, hi = (b, t) if inverse else (l, r)
        u = rng.choice([0.0, 1.0, rng.uniform()], p=[0.1, 0.1, 0.8])
        return {"x": np.array([lo + u * (hi - lo)]), "uw": rng.normal(size=(1, K)) * 2, "uh": rng.normal(size=(1, K)) * 2,
                "ud": rng.normal(size=(1, K + 1)) * 2, "left": np.array(l), "right": np.array(r), "bottom": np.array(b), "top": np.array(t)}

    return Harness(f"rq_spline[K={K},inverse={inverse},ident={identity_init}]", run, post, raises={InputOutsideDomain: dom},
                   native_call=native_call, native_clauses=native_clauses, native_raises={InputOutsideDomain: outside}, sample=sample,
                   functions=[rqmod.rational_quadratic_spline], config={"K": K, "inverse": inverse})
