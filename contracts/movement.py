"""contracts for pure data-movement transforms: SqueezeTransform, Permutation family (+ OneByOneConvolution's pixel-wise affine map).
Outputs are input *symbols*: "is a permutation of the item's coordinates" and "inverse undoes forward" are syntactic identities."""
import itertools
import numpy as np
import torch, z3
from tsv.core import Sym, P, C, toreal, rv
from tsv.harness import Harness
from tsv.terms import base_symbols
from .common import *
from .modules import exp_of_term, zabs
from .cache import symbolise
from nflows.transforms.reshape import SqueezeTransform
from nflows.transforms.permutations import Permutation, RandomPermutation, ReversePermutation
from nflows.transforms.conv import OneByOneConvolution
from tsv.ops_move import det_cofactor


def movement_harness(name, make, shape, direction, native_make=None, funcs=()):
    def run(h, ctx):
        t = make()
        h.t = t
        x = h.inp("x", shape)
        if direction == "forward":
            y, ld = t.forward(x)
            x2, ldi = t.inverse(y)
        else:
            y, ld = t.inverse(x)
            x2, ldi = t.forward(y)
        return y, ld, x2, ldi

    def post(h, ctx, value):
        y, ld, x2, ldi = value
        px = P(h.inputs["x"]); py = P(y)
        B = px.shape[0]
        ids = {px[idx].get_id(): idx for idx in np.ndindex(*px.shape)}
        ok = py.size == px.size and py.shape[0] == B
        seen = set()
        if ok:
            for idx in np.ndindex(*py.shape):
                t = py[idx]
                if t.get_id() not in ids or ids[t.get_id()][0] != idx[0] or t.get_id() in seen:
                    ok = False
                seen.add(t.get_id())
        ensure(h, ctx, "C01.permutation-of-item-coordinates", z3.BoolVal(bool(ok)))
        from tsv.terms import base_symbols
        rows = all(ids[s_][0] == idx[0] for idx in np.ndindex(*py.shape) for s_ in base_symbols(py[idx]) if s_ in ids) and py.shape[0] == B
        ensure(h, ctx, "C12.row-independent", z3.BoolVal(bool(rows)))
        for b in range(B):
            ensure(h, ctx, "C01.logdet", P(ld)[b] == 0)
            ensure(h, ctx, "C02.neg-logdet", P(ld)[b] + P(ldi)[b] == 0)
        rt = tuple(P(x2).shape) == tuple(px.shape) and all(z3.eq(a, b_) for a, b_ in zip(P(x2).reshape(-1), px.reshape(-1)))
        ensure(h, ctx, "C02.roundtrip_if" if direction == "forward" else "C02.roundtrip_fi", z3.BoolVal(bool(rt)))
        ensure(h, ctx, "C13.no-write", z3.BoolVal(not [w for w in ctx.writes if w[0].startswith("arg:")]))

    nm = native_make or make

    def native_call(h, inp):
        torch.manual_seed(int(inp.get("seed", 0)))
        t = nm(); x = tt(inp["x"])
        if direction == "forward":
            y, ld = t.forward(x); x2, ldi = t.inverse(y)
        else:
            y, ld = t.inverse(x); x2, ldi = t.forward(y)
        return y, ld, x2, ldi

    def native_clauses(h, inp, res):
        y, ld, x2, ldi = res
        x = tt(inp["x"])
        key = "C02.roundtrip_if" if direction == "forward" else "C02.roundtrip_fi"
        perm_ok = y.shape[0] == x.shape[0] and all(sorted(y[b].reshape(-1).tolist()) == sorted(x[b].reshape(-1).tolist()) for b in range(x.shape[0]))
        return {key: x2.shape == x.shape and bool(torch.equal(x2, x)), "C01.permutation-of-item-coordinates": bool(perm_ok),
                "C01.logdet": bool((ld == 0).all()), "C02.neg-logdet": bool((ld + ldi == 0).all())}

    def sample(h, rng):
        return {"x": rng.normal(size=shape), "seed": np.array(int(rng.integers(0, 1000)))}
    return Harness(f"{name}[shape={'x'.join(map(str, shape))},{direction}]", run, post, native_call=native_call, native_clauses=native_clauses, sample=sample,
                   functions=list(funcs), config={"transform": name, "shape": list(shape), "direction": direction})


def conv1x1_harness(shape):
    """OneByOneConvolution forward: per pixel an affine map of the permuted channels; log-det = h * w * log|det W|"""
    B, Cc, H, W_ = shape

    def run(h, ctx):
        t = OneByOneConvolution(Cc)
        t.eval()
        symbolise(h, t)
        h.t = t
        x = h.inp("x", shape)
        y, ld = t.forward(x)
        x2, ldi = t.inverse(y)
        return y, ld, x2, ldi, t.weight(), t.logabsdet(), t.permutation._permutation

    def post(h, ctx, value):
        y, ld, x2, ldi, Wt, L, perm = value
        px, py, Wm = P(h.inputs["x"]), P(y), P(Wt)
        pp = [int(v) for v in (perm.tolist() if not isinstance(perm, Sym) else [z3.simplify(t).as_long() if z3.is_int_value(z3.simplify(t)) else ctx.intcache.get(z3.simplify(t).get_id(), (None, None))[1] for t in P(perm)])]
        bias = P(h.t.bias)
        from tsv.terms import base_symbols
        ids = {px[idx].get_id(): idx for idx in np.ndindex(*px.shape)}
        rows = all(ids[s_][0] == idx[0] for idx in np.ndindex(*py.shape) for s_ in base_symbols(py[idx]) if s_ in ids) and \
            all(ids[s_][0] == b for b in range(B) for s_ in base_symbols(P(ld)[b]) if s_ in ids)
        ensure(h, ctx, "C12.row-independent", z3.BoolVal(bool(rows)))
        for b in range(B):
            for hh in range(H):
                for ww in range(W_):
                    for i in range(Cc):
                        ensure(h, ctx, "C11.forward-is-affine", py[b, i, hh, ww] == sum((Wm[i, k] * px[b, pp[k], hh, ww] for k in range(Cc)), rv(0)) + bias[i])
            numr, den = exp_of_term(P(ld)[b])
            d = det_cofactor(Wm)
            ad = zabs(d)
            target = rv(1)
            for _ in range(H * W_): target = target * ad
            ensure(h, ctx, "C01.logdet", target * den == numr)
            ensure(h, ctx, "C02.neg-logdet", P(ld)[b] + P(ldi)[b] == 0)
        for a, b_ in zip(P(x2).reshape(-1), px.reshape(-1)):
            ensure(h, ctx, "C02.roundtrip_if", a == b_)

    def native_call(h, inp):
        torch.manual_seed(int(inp["seed"]))
        t = OneByOneConvolution(Cc, identity_init=False)
        with torch.no_grad():
            for p in t.parameters(): p.add_(torch.randn(p.shape) * 0.4)
        t = t.double().eval(); x = torch.tensor(np.asarray(inp["x"]), dtype=torch.float64)
        y, ld = t.forward(x); x2, ldi = t.inverse(y)
        return y, ld, x2, ldi, t

    def native_clauses(h, inp, res):
        y, ld, x2, ldi, t = res
        x = torch.tensor(np.asarray(inp["x"]), dtype=torch.float64)
        J = torch.autograd.functional.jacobian(lambda z: t.forward(z)[0], x)
        n = x[0].numel()
        ok = all(abs(float(torch.slogdet(J.reshape(B, n, B, n)[b, :, b, :])[1]) - float(ld[b])) < 1e-7 for b in range(B))
        rows_ = torch.cat([t.forward(x[i:i + 1])[0] for i in reversed(range(B))][::-1])
        return {"C01.logdet": ok, "C02.roundtrip_if": bool(torch.allclose(x2, x, atol=1e-8)), "C02.neg-logdet": bool(torch.allclose(ld + ldi, torch.zeros_like(ld), atol=1e-9)),
                "C11.forward-is-affine": ok, "C12.row-independent": bool(torch.allclose(rows_, y, atol=1e-9))}
    hn = Harness(f"OneByOneConvolution[shape={'x'.join(map(str, shape))}]", run, post, native_call=native_call, native_clauses=native_clauses,
                 sample=lambda h, rng: {"x": rng.normal(size=shape), "seed": np.array(int(rng.integers(0, 1000)))},
                 functions=[OneByOneConvolution.forward, OneByOneConvolution.inverse, OneByOneConvolution._lu_forward_inverse])
    hn.native_float32 = False
    return hn


def movement_harnesses(tier):
    hs = []
    sq = [(2, (1, 1, 2, 2)), (2, (2, 1, 2, 4)), (2, (1, 2, 4, 2)), (3, (1, 1, 3, 3)), (3, (1, 1, 3, 6))]
    if tier != "quick":
        sq += [(2, (1, 1, 4, 4)), (2, (1, 3, 2, 6)), (3, (1, 2, 6, 3)), (4, (1, 1, 4, 8))]
    for f, shape in sq:
        hs.append(movement_harness(f"Squeeze{f}", lambda f=f: SqueezeTransform(f), shape, "forward", funcs=[SqueezeTransform.forward, SqueezeTransform.inverse]))
        b, c, hh, ww = shape
        hs.append(movement_harness(f"Squeeze{f}", lambda f=f: SqueezeTransform(f), (b, c * f * f, hh // f, ww // f), "inverse", funcs=[SqueezeTransform.forward, SqueezeTransform.inverse]))
    for n in (1, 2, 3):
        for perm in itertools.permutations(range(n)):
            for dim, shape in ((1, (2, n)), (2, (1, 2, n)), (1, (1, n, 2, 1))):
                if tier == "quick" and n == 3 and dim != 1: continue
                hs.append(movement_harness(f"Permutation{''.join(map(str, perm))}dim{dim}", lambda perm=perm, dim=dim: Permutation(torch.tensor(perm), dim=dim), shape, "forward",
                                           funcs=[Permutation._permute, Permutation.forward, Permutation.inverse]))
    for n in (2, 3):
        hs.append(movement_harness(f"RandomPermutation{n}", lambda n=n: RandomPermutation(n), (2, n), "forward", funcs=[RandomPermutation.__init__, Permutation._permute]))
        hs.append(movement_harness(f"ReversePermutation{n}", lambda n=n: ReversePermutation(n), (2, n), "forward", funcs=[ReversePermutation.__init__]))
    for shape in ((1, 2, 1, 2), (2, 2, 2, 1), (2, 2, 1, 2)):
        hs.append(conv1x1_harness(shape))
    return hs
