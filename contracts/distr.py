"""contracts for the distribution / flow interface: C18 (shapes and argument contract), C04 (row pairing of samples and densities),
C05 (closed-form densities), C03 (structure of Flow._log_prob).

Stubs: the transform is a row-wise uninterpreted bijection (T, log-det L; inverse G with log-det H; axioms T(G(z,c),c) = z and
L(G(z,c),c) = -H(z,c), i.e. the C02 contract), the embedding net a row-wise uninterpreted map."""
import itertools
import numpy as np
import torch, z3
from torch import nn
from tsv.core import Sym, P, C, toreal, rv, R, Unsupported
from tsv.harness import Harness
from tsv.terms import base_symbols
from tsv import terms as T
from .common import *
from .modules import exp_of_term
from nflows.transforms.base import Transform
from nflows.distributions.base import Distribution
from nflows.distributions import normal as DN, discrete as DD
from nflows.flows.base import Flow

Dn = 2


def UF(name, n):
    return z3.Function(name, *([R] * (n + 1)))


def rowargs(p_row, c_row):
    return [toreal(t) for t in np.asarray(p_row, dtype=object).reshape(-1)] + ([toreal(t) for t in np.asarray(c_row, dtype=object).reshape(-1)] if c_row is not None else [])


class StubTransform(Transform):
    def __init__(self):
        super().__init__()
        self.calls = []

    def forward(self, inputs, context=None):
        pi = P(inputs); pc = P(context) if context is not None else None
        B = pi.shape[0]
        out = np.empty(pi.shape, dtype=object); ld = np.empty((B,), dtype=object)
        if pc is not None and pc.shape[0] != B:
            raise RuntimeError("stub transform: context rows do not match input rows")
        for b in range(B):
            a = rowargs(pi[b], pc[b] if pc is not None else None)
            for idx in np.ndindex(*pi.shape[1:]):
                out[(b,) + idx] = UF("T_" + "_".join(map(str, idx)), len(a))(*a)
            ld[b] = UF("L", len(a))(*a)
        self.calls.append(("fwd", inputs, context))
        return Sym.make(out, inputs.dtype), Sym.make(ld, inputs.dtype)

    def inverse(self, inputs, context=None):
        pi = P(inputs); pc = P(context) if context is not None else None
        B = pi.shape[0]
        ctx = C()
        out = np.empty(pi.shape, dtype=object); ld = np.empty((B,), dtype=object)
        if pc is not None and pc.shape[0] != B:
            raise RuntimeError("stub transform: context rows do not match input rows")
        for b in range(B):
            cr = pc[b] if pc is not None else None
            a = rowargs(pi[b], cr)
            g = {}
            for idx in np.ndindex(*pi.shape[1:]):
                g[idx] = UF("G_" + "_".join(map(str, idx)), len(a))(*a)
                out[(b,) + idx] = g[idx]
            ld[b] = UF("H", len(a))(*a)
            # C02 contract of the transform: forward undoes inverse, log-dets are negatives
            a2 = rowargs([g[idx] for idx in np.ndindex(*pi.shape[1:])], cr)
            for idx in np.ndindex(*pi.shape[1:]):
                ctx.axiom([g[idx]], UF("T_" + "_".join(map(str, idx)), len(a2))(*a2) == toreal(pi[(b,) + idx]))
            ctx.axiom([ld[b]] + list(g.values()), UF("L", len(a2))(*a2) == -ld[b])
        self.calls.append(("inv", inputs, context))
        return Sym.make(out, inputs.dtype), Sym.make(ld, inputs.dtype)


class StubEmbedding(nn.Module):
    def __init__(self, out_features=2):
        super().__init__()
        self.out_features = out_features

    def forward(self, context):
        if context is None:
            return None
        pc = P(context)
        out = np.empty((pc.shape[0], self.out_features), dtype=object)
        for b in range(pc.shape[0]):
            a = rowargs(pc[b], None)
            for k in range(self.out_features):
                out[b, k] = UF(f"E_{k}", len(a))(*a)
        return Sym.make(out, context.dtype)


def embed_rows(ctx_sym, embedding):
    """reference: the embedded context rows as terms"""
    if ctx_sym is None: return None
    pc = P(ctx_sym)
    if not embedding: return pc
    out = np.empty((pc.shape[0], 2), dtype=object)
    for b in range(pc.shape[0]):
        a = rowargs(pc[b], None)
        for k in range(2): out[b, k] = UF(f"E_{k}", len(a))(*a)
    return out


def std_normal_lp(row):
    """closed form of the standard normal log-density of one row (pi carried symbolically)"""
    return -rv(1) / 2 * sum((toreal(v) * toreal(v) for v in row), rv(0)) - rv(len(row)) / 2 * T.logf(2 * T.PI)


# ------------------------------------------------------------------------------------------------------------------
# C04: row pairing
# ------------------------------------------------------------------------------------------------------------------
def pairing_harness(nctx, n, embedding, method, batch_size=None):
    """Flow(StubTransform, StandardNormal) : sample_and_log_prob / sample with nctx context rows (0 = no context); batch_size: Distribution.sample's
    batched generation path"""
    def run(h, ctx):
        tr = StubTransform()
        flow = Flow(tr, DN.StandardNormal([Dn]), embedding_net=StubEmbedding() if embedding else None)
        flow.eval()
        h.flow, h.tr = flow, tr
        c = h.inp("context", (nctx, 2)) if nctx else None
        h.c = c
        if method == "sample_and_log_prob":
            s, lp = flow.sample_and_log_prob(n, context=c)
            # what log_prob assigns to those very samples under the same context rows
            if c is not None:
                flat = s.reshape(nctx * n, Dn)
                crep = Sym.make(np.repeat(P(c), n, axis=0), c.dtype)
                lp2 = flow.log_prob(flat, context=crep)
            else:
                lp2 = flow.log_prob(s)
            return s, lp, lp2
        if method == "sample_again_after_context_overwrite":
            # history: sample once, the caller then overwrites the SAME context tensor in place with new values, sample again:
            # the second draw must be made under the new values (no memo keyed on the tensor object may survive)
            flow.sample(n, context=c)
            cnew = h.inp("context_new", (nctx, 2))
            with torch.no_grad():
                c.copy_(cnew)
            h.c = cnew
            ctx.notes["random_draws"] = []
            ctx.writes.clear() if hasattr(ctx.writes, "clear") else None
            return (flow.sample(n, context=c),)
        return (flow.sample(n, context=c, batch_size=batch_size),)

    def post(h, ctx, value):
        s = value[0]
        ps = P(s)
        want_shape = (nctx, n, Dn) if nctx else (n, Dn)
        ensure(h, ctx, "C18.sample-shape", z3.BoolVal(tuple(ps.shape) == want_shape), meta={"got": list(ps.shape)})
        if tuple(ps.shape) != want_shape:
            return
        draws = ctx.notes.get("random_draws", [])
        noise_ids = {}
        off = 0
        for nm, d in draws:
            pd = P(d).reshape(-1, Dn)
            for r in range(pd.shape[0]):
                for k in range(Dn): noise_ids[pd[r, k].get_id()] = (off + r, k)
            off += pd.shape[0]
        erows = embed_rows(h.c, embedding)
        used = set()
        ok_pair = True
        rows = [(i, j) for i in range(nctx) for j in range(n)] if nctx else [(None, j) for j in range(n)]
        for (i, j) in rows:
            el_ = ps[i, j] if nctx else ps[j]
            for d in range(Dn):
                t = el_[d]
                if not (z3.is_app(t) and t.decl().name() == f"G_{d}"):
                    ok_pair = False; continue
                args = t.children()
                nz = args[:Dn]; ca = args[Dn:]
                rws = {noise_ids.get(a.get_id(), (None,))[0] for a in nz}
                if len(rws) != 1 or None in rws or [noise_ids[a.get_id()][1] for a in nz] != list(range(Dn)):
                    ok_pair = False; continue
                r = next(iter(rws))
                if d == 0:
                    if r in used: ok_pair = False
                    used.add(r)
                if nctx:
                    if len(ca) != erows.shape[1] or not all(z3.eq(a, toreal(b)) for a, b in zip(ca, erows[i])):
                        ok_pair = False
                elif ca:
                    ok_pair = False
        ensure(h, ctx, "C04.sample-is-inverse-of-own-noise-under-own-context-row", z3.BoolVal(ok_pair))
        if method == "sample_and_log_prob":
            lp, lp2 = P(value[1]), P(value[2]).reshape(P(value[1]).shape) if P(value[2]).size == P(value[1]).size else None
            ensure(h, ctx, "C18.log_prob-shape", z3.BoolVal(tuple(lp.shape) == want_shape[:-1] and lp2 is not None))
            if lp2 is not None and tuple(lp.shape) == want_shape[:-1]:
                for (i, j) in rows:
                    a = lp[i, j] if nctx else lp[j]; b_ = lp2[i, j] if nctx else lp2[j]
                    ensure(h, ctx, "C04.returned-density-is-log_prob-of-the-sample", a == b_)

    # native twin: a real conditional flow
    def native_flow():
        from nflows.transforms import MaskedAffineAutoregressiveTransform
        torch.manual_seed(3)
        tr = MaskedAffineAutoregressiveTransform(Dn, 4, context_features=2 if nctx else None, num_blocks=1)
        emb = nn.Linear(2, 2) if embedding else None
        fl = Flow(tr, DN.StandardNormal([Dn]), embedding_net=emb)
        with torch.no_grad():
            for p in fl.parameters(): p.add_(torch.randn(p.shape) * 0.3)
        return fl.eval()

    def native_call(h, inp):
        fl = native_flow()
        c = torch.tensor(np.asarray(inp["context"]), dtype=torch.float32) if nctx else None
        torch.manual_seed(int(inp.get("seed", 0)))
        if method == "sample_and_log_prob":
            return fl.sample_and_log_prob(n, context=c), fl, c
        if method == "sample_again_after_context_overwrite":
            fl.sample(n, context=c)
            with torch.no_grad():
                c.copy_(torch.tensor(np.asarray(inp["context_new"]), dtype=torch.float32))
            torch.manual_seed(7)
            got = fl.sample(n, context=c)
            torch.manual_seed(7)
            want = native_flow().sample(n, context=c.clone())
            return (got, want), fl, c
        return (fl.sample(n, context=c, batch_size=batch_size),), fl, c

    def native_clauses(h, inp, r):
        res, fl, c = r
        s = res[0]
        want_shape = (nctx, n, Dn) if nctx else (n, Dn)
        out = {"C18.sample-shape": tuple(s.shape) == want_shape}
        if method == "sample_again_after_context_overwrite":
            out["C04.sample-is-inverse-of-own-noise-under-own-context-row"] = bool(torch.allclose(res[0], res[1], atol=1e-6))
        if method == "sample_and_log_prob" and tuple(s.shape) == want_shape:
            lp = res[1]
            out["C18.log_prob-shape"] = tuple(lp.shape) == want_shape[:-1]
            if nctx:
                lp2 = fl.log_prob(s.reshape(nctx * n, Dn), context=c.repeat_interleave(n, 0)).reshape(nctx, n)
            else:
                lp2 = fl.log_prob(s)
            out["C04.returned-density-is-log_prob-of-the-sample"] = tuple(lp.shape) == tuple(lp2.shape) and bool(torch.allclose(lp, lp2, atol=1e-4))
        return out
    hn = Harness(f"flow_pairing[{method},ctx_rows={nctx},n={n},embedding={embedding}{',batch_size=' + str(batch_size) if batch_size else ''}]", run, post, native_call=native_call, native_clauses=native_clauses,
                 sample=lambda h, rng: {"context": rng.normal(size=(max(nctx, 1), 2)), "context_new": rng.normal(size=(max(nctx, 1), 2)) + 3.0, "seed": np.array(int(rng.integers(0, 1000)))},
                 functions=[Flow._sample, Flow.sample_and_log_prob, Flow._log_prob, Distribution.sample, Distribution.log_prob, Distribution.sample_and_log_prob,
                            DN.StandardNormal._sample, DN.StandardNormal._log_prob])
    hn.native_float32 = False
    return hn


# ------------------------------------------------------------------------------------------------------------------
# C18: shapes and argument contract on a bounded grid
# ------------------------------------------------------------------------------------------------------------------
def make_dist(kind):
    if kind == "StandardNormal": return DN.StandardNormal([Dn]), False
    if kind == "StandardNormal2x2": return DN.StandardNormal([2, 2]), False
    if kind == "StandardNormalScalar": return DN.StandardNormal([]), False
    if kind == "ConditionalDiagonalNormal": return DN.ConditionalDiagonalNormal([Dn]), True
    if kind == "DiagonalNormal": return DN.DiagonalNormal([Dn]), False
    if kind == "ConditionalIndependentBernoulli": return DD.ConditionalIndependentBernoulli([Dn]), True
    if kind == "Flow": return Flow(StubTransform(), DN.StandardNormal([Dn])), False
    if kind == "FlowEmbedding": return Flow(StubTransform(), DN.StandardNormal([Dn]), embedding_net=StubEmbedding()), False
    if kind == "FlowConditionalBase": return Flow(StubTransform(), DN.ConditionalDiagonalNormal([Dn], context_encoder=None)), True
    raise KeyError(kind)


def interface_harness(kind, tier):
    ns = (1, 2, 3, 5) if tier == "quick" else (1, 2, 3, 4, 5, 6)
    bss = (None, 1, 2, 3) if tier == "quick" else (None, 1, 2, 3, 4, 7)
    crs = (0, 1, 3) if tier == "quick" else (0, 1, 2, 3)

    def run(h, ctx):
        res = {}
        d, needs_ctx = make_dist(kind)
        d.eval()
        ev = tuple(d._shape) if hasattr(d, "_shape") else (Dn,)
        cw = 2 * int(np.prod(ev)) if kind in ("ConditionalDiagonalNormal", "FlowConditionalBase") else (int(np.prod(ev)) if kind == "ConditionalIndependentBernoulli" else 2)

        def attempt(key, f):
            try:
                v = f()
                res[key] = ("ret", tuple(v.shape) if isinstance(v, torch.Tensor) else tuple(tuple(t.shape) for t in v))
            except Exception as e:
                res[key] = ("raise", type(e).__name__)
        for c in crs:
            if needs_ctx and c == 0: continue
            cx = h.inp(f"ctx{c}", (c, cw)) if c else None
            for rows in ((c,) if c else (2,)):
                x = h.inp(f"x{c}_{rows}", (rows,) + ev)
                attempt(("log_prob", c, rows), lambda: d.log_prob(x, context=cx))
            if c:
                xb = h.inp(f"xbad{c}", (c + 1,) + ev)
                attempt(("log_prob_mismatch", c), lambda: d.log_prob(xb, context=cx))
                # the same check for a context that is not yet a tensor (array / nested list)
                attempt(("log_prob_mismatch_array", c), lambda: d.log_prob(xb, context=np.zeros((c, cw), dtype=np.float32)))
                attempt(("log_prob_mismatch_list", c), lambda: d.log_prob(xb, context=[[0.0] * cw for _ in range(c)]))
            for n in ns:
                for bs in bss:
                    attempt(("sample", c, n, bs), lambda: d.sample(n, context=cx, batch_size=bs))
                attempt(("sample_and_log_prob", c, n), lambda: d.sample_and_log_prob(n, context=cx))
            for bad in (0, -1, 2.0, "3", None):
                attempt(("sample_bad_n", c, repr(bad)), lambda: d.sample(bad, context=cx))
                attempt(("sample_bad_batch", c, repr(bad)), lambda: d.sample(3, context=cx, batch_size=bad)) if bad is not None else None
        h.ev = ev
        return res

    def want(key, ev):
        k = key[0]
        if kind == "DiagonalNormal" and k in ("sample", "sample_and_log_prob"):
            return ("raise", "NotImplementedError")      # sampling is not offered by this class
        if k == "log_prob": return ("ret", (key[2],))
        if k.startswith("log_prob_mismatch"): return ("raise", "ValueError")
        if k == "sample":
            c, n = key[1], key[2]
            return ("ret", ((c, n) if c else (n,)) + ev)
        if k == "sample_and_log_prob":
            c, n = key[1], key[2]
            lead = (c, n) if c else (n,)
            return ("ret", (lead + ev, lead))
        return ("raise", "TypeError")

    def post(h, ctx, res):
        for key, got in res.items():
            w = want(key, h.ev)
            ctx.oblige("ensures", z3.BoolVal(got == w), label="C18." + key[0], loc=("contract", f"{kind}:{key}", 0), meta={"got": str(got), "want": str(w)})

    def native_clauses(h, inp, res):
        ev = tuple(res.pop("_ev"))
        c = {}
        for key, got in res.items():
            c["C18." + key[0]] = c.get("C18." + key[0], True) and (got == want(key, ev))
        return c

    def native_call(h, inp):
        # the same grid on concrete tensors (real distributions; flows with a real transform)
        from nflows.transforms import MaskedAffineAutoregressiveTransform
        torch.manual_seed(0)
        res = {}
        if kind.startswith("Flow"):
            base = DN.ConditionalDiagonalNormal([Dn]) if kind == "FlowConditionalBase" else DN.StandardNormal([Dn])
            cf = 4 if kind == "FlowConditionalBase" else 2
            d = Flow(MaskedAffineAutoregressiveTransform(Dn, 4, context_features=cf, num_blocks=1), base, embedding_net=nn.Linear(2, 2) if kind == "FlowEmbedding" else None)
            needs_ctx = kind == "FlowConditionalBase"
        else:
            d, needs_ctx = make_dist(kind)
        d.eval()
        ev = tuple(d._shape) if hasattr(d, "_shape") else (Dn,)
        cw = 2 * int(np.prod(ev)) if kind in ("ConditionalDiagonalNormal", "FlowConditionalBase") else (int(np.prod(ev)) if kind == "ConditionalIndependentBernoulli" else 2)

        def attempt(key, f):
            try:
                v = f()
                res[key] = ("ret", tuple(v.shape) if isinstance(v, torch.Tensor) else tuple(tuple(t.shape) for t in v))
            except Exception as e:
                res[key] = ("raise", type(e).__name__)
        for c in crs:
            if needs_ctx and c == 0: continue
            cx = torch.randn(c, cw) if c else None
            rows = c if c else 2
            x = torch.rand(rows, *ev).round() if kind == "ConditionalIndependentBernoulli" else torch.randn(rows, *ev)
            attempt(("log_prob", c, rows), lambda: d.log_prob(x, context=cx))
            if c:
                attempt(("log_prob_mismatch", c), lambda: d.log_prob(torch.randn(c + 1, *ev), context=cx))
                attempt(("log_prob_mismatch_array", c), lambda: d.log_prob(torch.randn(c + 1, *ev), context=np.zeros((c, cw), dtype=np.float32)))
                attempt(("log_prob_mismatch_list", c), lambda: d.log_prob(torch.randn(c + 1, *ev), context=[[0.0] * cw for _ in range(c)]))
            for n in ns:
                for bs in bss:
                    attempt(("sample", c, n, bs), lambda: d.sample(n, context=cx, batch_size=bs))
                attempt(("sample_and_log_prob", c, n), lambda: d.sample_and_log_prob(n, context=cx))
            for bad in (0, -1, 2.0, "3", None):
                attempt(("sample_bad_n", c, repr(bad)), lambda: d.sample(bad, context=cx))
                if bad is not None: attempt(("sample_bad_batch", c, repr(bad)), lambda: d.sample(3, context=cx, batch_size=bad))
        res["_ev"] = ev
        return res
    hn = Harness(f"interface_{kind}[]", run, post, native_call=native_call, native_clauses=native_clauses, sample=lambda h, rng: {}, check_defined=False,
                 functions=[Distribution.log_prob, Distribution.sample, Distribution.sample_and_log_prob, Flow._sample, Flow.sample_and_log_prob])
    hn.native_float32 = False
    return hn


def pairing_harnesses(tier):
    hs = []
    for method in ("sample_and_log_prob", "sample"):
        for nctx in ((0, 1, 2) if tier == "quick" else (0, 1, 2, 3)):
            for n in ((1, 3) if tier == "quick" else (1, 2, 3)):
                for emb in ((False, True) if nctx else (False,)):
                    hs.append(pairing_harness(nctx, n, emb, method))
        for nctx, n in ((1, 2), (2, 1), (2, 3)):
            hs.append(conditional_base_harness(method, nctx, n))
    hs.append(pairing_harness(2, 2, True, "sample_again_after_context_overwrite"))
    for nctx, n, bs in (((2, 3, 2), (0, 3, 2), (2, 2, 1)) if tier == "quick" else ((2, 3, 2), (0, 3, 2), (2, 2, 1), (3, 5, 2), (2, 4, 4), (1, 3, 2), (2, 5, 3))):
        hs.append(pairing_harness(nctx, n, bool(nctx), "sample", batch_size=bs))
    return hs


def interface_harnesses(tier):
    return [interface_harness(k, tier) for k in ("StandardNormal", "StandardNormalScalar", "StandardNormal2x2", "ConditionalDiagonalNormal", "DiagonalNormal", "ConditionalIndependentBernoulli",
                                                  "Flow", "FlowEmbedding", "FlowConditionalBase")]


# ------------------------------------------------------------------------------------------------------------------
# C05: closed-form densities, means, sampling parameters
# ------------------------------------------------------------------------------------------------------------------
def gaussian_lp(xrow, mu, logstd):
    """textbook diagonal Gaussian log-density: -1/2 sum ((x - mu) e^{-s})^2 - sum s - n/2 log(2 pi)   (normalised: lemma 4g)"""
    from tsv.ops import s_exp
    n = len(xrow)
    q = rv(0)
    for x, m, s in zip(xrow, mu, logstd):
        z = (toreal(x) - toreal(m)) * s_exp(T.neg(toreal(s)))
        q = q + z * z
    return -rv(1) / 2 * q - sum((toreal(s) for s in logstd), rv(0)) - rv(n) / 2 * T.logf(2 * T.PI)


def normal_harness(kind, ev, ctx_shape=None):
    """ctx_shape (ConditionalDiagonalNormal only): shape of one context row as the (identity) encoder returns it; the last dimension is split into
    means | log-stds, each reshaped to the event shape (default: a flat row of 2n numbers)"""
    n = int(np.prod(ev))
    B = 2

    def run(h, ctx):
        if kind == "StandardNormal":
            d = DN.StandardNormal(ev); c = None
        elif kind == "DiagonalNormal":
            d = DN.DiagonalNormal(ev); c = None
            d._parameters["mean_"] = h.inp("p:mean_", (1, n), owner="param"); d._parameters["log_std_"] = h.inp("p:log_std_", (1, n), owner="param")
        else:
            d = DN.ConditionalDiagonalNormal(ev); c = h.inp("context", (B,) + (tuple(ctx_shape) if ctx_shape else (2 * n,)))
        h.d, h.c = d, c
        x = h.inp("x", (B,) + tuple(ev))
        lp = d.log_prob(x, context=c)
        mean = d.mean(context=c)
        smp = d.sample(2, context=c) if kind != "DiagonalNormal" else None
        return lp, mean, smp

    def params(h, b):
        if kind == "StandardNormal": return [rv(0)] * n, [rv(0)] * n
        if kind == "DiagonalNormal": return list(P(h.d.mean_).reshape(-1)), list(P(h.d.log_std_).reshape(-1))
        pc = P(h.c)
        if ctx_shape:
            half = ctx_shape[-1] // 2
            return list(pc[b][..., :half].reshape(-1)), list(pc[b][..., half:].reshape(-1))
        return list(pc[b, :n]), list(pc[b, n:])

    def post(h, ctx, value):
        lp, mean, smp = value
        px = P(h.inputs["x"])
        ensure(h, ctx, "C05.log_prob-shape", z3.BoolVal(tuple(P(lp).shape) == (B,)), meta={"got": list(P(lp).shape)})
        for b in (range(B) if tuple(P(lp).shape) == (B,) else ()):
            mu, ls = params(h, b)
            ensure(h, ctx, "C05.log_prob-is-gaussian-density", P(lp)[b] == gaussian_lp(list(np.asarray(px[b], dtype=object).reshape(-1)), mu, ls))
        ok_type = isinstance(mean, torch.Tensor)
        ensure(h, ctx, "C05.mean-is-tensor", z3.BoolVal(ok_type), meta={"type": type(mean).__name__})
        if ok_type:
            want_shape = tuple(ev) if h.c is None else (B,) + tuple(ev)
            ensure(h, ctx, "C05.mean-shape", z3.BoolVal(tuple(mean.shape) == want_shape), meta={"got": list(mean.shape)})
            if tuple(mean.shape) == want_shape:
                pm = P(mean).reshape(-1, n) if h.c is not None else P(mean).reshape(1, n)
                for b in range(pm.shape[0]):
                    mu, _ = params(h, b)
                    for k in range(n):
                        ensure(h, ctx, "C05.mean-is-location", toreal(pm[b, k]) == toreal(mu[k]))
        if smp is not None:
            ps = P(smp)
            want = (2,) + tuple(ev) if h.c is None else (B, 2) + tuple(ev)
            ensure(h, ctx, "C05.sample-shape", z3.BoolVal(tuple(ps.shape) == want))
            if tuple(ps.shape) == want:
                # every sample is  loc + scale * (one fresh standard-normal draw), with the location / scale of ITS context row
                from tsv.ops import s_exp
                draws = {}
                for nm, dd in ctx.notes.get("random_draws", []):
                    pd = P(dd).reshape(-1, n)
                    for r in range(pd.shape[0]):
                        for k in range(n): draws[pd[r, k].get_id()] = (r, k)
                used = set(); ok = True
                rows = [(i, j) for i in range(B) for j in range(2)] if h.c is not None else [(0, j) for j in range(2)]
                for (i, j) in rows:
                    el_ = np.asarray(ps[i, j] if h.c is not None else ps[j], dtype=object).reshape(-1)
                    mu, ls = params(h, i)
                    rws = set()
                    for k in range(n):
                        syms = [s_ for s_ in base_symbols(el_[k]) if s_ in draws]
                        if len(syms) != 1 or draws[syms[0]][1] != k: ok = False; continue
                        z = T.sym_by_id(syms[0]); rws.add(draws[syms[0]][0])
                        ensure(h, ctx, "C05.sample-uses-own-location-and-scale", toreal(el_[k]) == toreal(mu[k]) + s_exp(toreal(ls[k])) * z)
                    if len(rws) != 1 or next(iter(rws)) in used: ok = False
                    used |= rws
                ensure(h, ctx, "C05.sample-one-fresh-draw-per-sample", z3.BoolVal(ok))

    def native_call(h, inp):
        if kind == "StandardNormal": d = DN.StandardNormal(ev); c = None
        elif kind == "DiagonalNormal":
            d = DN.DiagonalNormal(ev); c = None
            with torch.no_grad():
                d.mean_.copy_(torch.tensor(np.asarray(inp["p:mean_"]), dtype=torch.float32)); d.log_std_.copy_(torch.tensor(np.asarray(inp["p:log_std_"]), dtype=torch.float32))
        else:
            d = DN.ConditionalDiagonalNormal(ev); c = torch.tensor(np.asarray(inp["context"]), dtype=torch.float32)
        x = torch.tensor(np.asarray(inp["x"]), dtype=torch.float32)
        return d.log_prob(x, context=c), d.mean(context=c), d, c, x

    def native_clauses(h, inp, r):
        lp, mean, d, c, x = r
        if kind == "StandardNormal": mu = torch.zeros(B, n); ls = torch.zeros(B, n)
        elif kind == "DiagonalNormal": mu = d.mean_.detach().expand(B, n); ls = d.log_std_.detach().expand(B, n)
        elif ctx_shape:
            half = ctx_shape[-1] // 2
            mu, ls = c[..., :half].reshape(B, n), c[..., half:].reshape(B, n)
        else: mu, ls = c[:, :n], c[:, n:]
        ref = torch.distributions.Normal(mu, ls.exp()).log_prob(x.reshape(B, n)).sum(1)
        out = {"C05.log_prob-is-gaussian-density": bool(torch.allclose(lp, ref, atol=1e-4)), "C05.mean-is-tensor": isinstance(mean, torch.Tensor)}
        if isinstance(mean, torch.Tensor):
            want_shape = tuple(ev) if c is None else (B,) + tuple(ev)
            out["C05.mean-shape"] = tuple(mean.shape) == want_shape
            if tuple(mean.shape) == want_shape and c is not None:
                out["C05.mean-is-location"] = bool(torch.allclose(mean.reshape(B, n), mu, atol=1e-6))
        return out

    def sample(h, rng):
        return {"x": rng.normal(size=(B,) + tuple(ev)), "p:mean_": rng.normal(size=(1, n)), "p:log_std_": rng.normal(size=(1, n)) * 0.3, "context": rng.normal(size=(B,) + (tuple(ctx_shape) if ctx_shape else (2 * n,))) * 0.5}
    cls = {"StandardNormal": DN.StandardNormal, "DiagonalNormal": DN.DiagonalNormal, "ConditionalDiagonalNormal": DN.ConditionalDiagonalNormal}[kind]
    hn = Harness(f"{kind}[event={'x'.join(map(str, ev))}{',context=' + 'x'.join(map(str, ctx_shape)) if ctx_shape else ''}]", run, post, native_call=native_call, native_clauses=native_clauses, sample=sample,
                 functions=[cls._log_prob, cls._sample, cls._mean, cls.__init__])
    hn.native_float32 = False
    return hn


def bernoulli_harness(Dd):
    def run(h, ctx):
        d = DD.ConditionalIndependentBernoulli([Dd])
        c = h.inp("logits", (1, Dd))
        h.d, h.c = d, c
        lps = []
        for bits in itertools.product([0.0, 1.0], repeat=Dd):
            x = Sym.make(np.array([[rv(int(b)) for b in bits]], dtype=object), torch.float32)
            lps.append((bits, d.log_prob(x, context=c)))
        return lps, d.mean(context=c), d.sample(2, context=c)

    def post(h, ctx, value):
        lps, mean, smp = value
        from tsv.ops import s_exp, s_sigmoid
        tot = rv(0)
        for bits, lp in lps:
            numr, den = exp_of_term(P(lp)[0])
            tot = tot + numr / den
        ensure(h, ctx, "C05.bernoulli-sums-to-one", tot == 1)
        logits = P(h.c)[0]
        for k in range(Dd):
            ensure(h, ctx, "C05.mean-is-success-probability", toreal(P(mean)[0, k]) == s_sigmoid(toreal(logits[k])))
        # P(x = e_k-th bit 1, others 0) consistent with the mean: exp(lp(1 at k)) / exp(lp(0...0)) = p_k / (1 - p_k) = e^{l_k}
        ps = P(smp)
        ensure(h, ctx, "C05.sample-shape", z3.BoolVal(tuple(ps.shape) == (1, 2, Dd)))
        draws = {}
        for nm, dd in ctx.notes.get("random_draws", []):
            for t in P(dd).reshape(-1): draws[t.get_id()] = True
        ok = True
        if tuple(ps.shape) == (1, 2, Dd):
            for j in range(2):
                for k in range(Dd):
                    t = ps[0, j, k]
                    syms = [s_ for s_ in base_symbols(t) if s_ in draws]
                    if len(syms) != 1: ok = False; continue
                    u = T.sym_by_id(syms[0])
                    ensure(h, ctx, "C05.sample-is-indicator-of-uniform-below-p", toreal(t) == z3.If(u < s_sigmoid(toreal(logits[k])), rv(1), rv(0)))
        ensure(h, ctx, "C05.sample-one-fresh-draw-per-sample", z3.BoolVal(ok))

    def native_call(h, inp):
        d = DD.ConditionalIndependentBernoulli([Dd]); c = torch.tensor(np.asarray(inp["logits"]), dtype=torch.float64)
        tot = 0.0
        for bits in itertools.product([0.0, 1.0], repeat=Dd):
            tot += float(d.log_prob(torch.tensor([bits], dtype=torch.float64), context=c).exp())
        return tot, d.mean(context=c), c

    def native_clauses(h, inp, r):
        tot, mean, c = r
        return {"C05.bernoulli-sums-to-one": abs(tot - 1) < 1e-9, "C05.mean-is-success-probability": bool(torch.allclose(mean, torch.sigmoid(c), atol=1e-9))}
    hn = Harness(f"ConditionalIndependentBernoulli[D={Dd}]", run, post, native_call=native_call, native_clauses=native_clauses,
                 sample=lambda h, rng: {"logits": rng.normal(size=(1, Dd)) * 2}, functions=[DD.ConditionalIndependentBernoulli._log_prob, DD.ConditionalIndependentBernoulli._sample,
                                                                                           DD.ConditionalIndependentBernoulli._mean])
    hn.native_float32 = False
    return hn


def lotka_harness():
    from nflows.distributions import uniform as DU

    def run(h, ctx):
        # only the constructor's normaliser is under contract; torch.distributions objects are external: their constructors are skipped
        import torch.distributions as td
        real_mvn, real_box = td.MultivariateNormal, DU.BoxUniform
        class _Skip:
            def __init__(self, *a, **k): pass
        td.MultivariateNormal = _Skip; DU.BoxUniform = _Skip
        try:
            d = DU.LotkaVolterraOscillating()
        finally:
            td.MultivariateNormal = real_mvn; DU.BoxUniform = real_box
        return d._log_normalizer

    def post(h, ctx, value):
        erf = T.opaque("erff")
        from fractions import Fraction
        sigma = rv(Fraction(1, 2))
        root2 = T.sqrtf(rv(2))
        tot = rv(0)
        terms = []
        for m in (Fraction(1, 100), Fraction(1, 2), Fraction(1), Fraction(1, 100)):
            mu = T.logf(rv(m)) if m != 1 else rv(0)
            terms.append(rv(1) / 2 * (erf((2 - mu) / (sigma * root2)) - erf((-5 - mu) / (sigma * root2))))
        want = rv(0)
        for t in terms: want = want - T.logf(t)
        ctx.axiom([root2], z3.And(root2 > 0, root2 * root2 == 2))
        ensure(h, ctx, "C05.truncated-gaussian-normaliser", el(value) == want)

    def native_call(h, inp):
        return DU.LotkaVolterraOscillating()._log_normalizer

    def native_clauses(h, inp, res):
        import math
        mean = torch.log(torch.tensor([0.01, 0.5, 1, 0.01])).double()
        want = -torch.log(0.5 * (torch.erf((2 - mean) / (0.5 * math.sqrt(2))) - torch.erf((-5 - mean) / (0.5 * math.sqrt(2))))).sum()
        return {"C05.truncated-gaussian-normaliser": abs(float(res) - float(want)) < 1e-5}
    hn = Harness("LotkaVolterraOscillating[normaliser]", run, post, native_call=native_call, native_clauses=native_clauses, sample=lambda h, rng: {},
                 functions=[DU.LotkaVolterraOscillating.__init__], check_defined=False)
    hn.native_float32 = False
    return hn


def mg1_harness():
    from nflows.distributions import uniform as DU

    def run(h, ctx):
        d = DU.MG1Uniform.__new__(DU.MG1Uniform)
        x = h.inp("x", (2, 3))
        return d._to_parameters(d._to_noise(x)), d._to_noise(d._to_parameters(x))

    def post(h, ctx, value):
        px = P(h.inputs["x"])
        for v in value:
            for a, b_ in zip(P(v).reshape(-1), px.reshape(-1)):
                ensure(h, ctx, "C05.mg1-change-of-variables-is-volume-preserving-bijection", a == b_)
    return Harness("MG1Uniform[]", run, post, functions=[DU.MG1Uniform._to_noise, DU.MG1Uniform._to_parameters])


def density_harnesses(tier):
    hs = [normal_harness("StandardNormal", []), normal_harness("DiagonalNormal", []), normal_harness("StandardNormal", [2]), normal_harness("StandardNormal", [2, 2]), normal_harness("DiagonalNormal", [2]), normal_harness("DiagonalNormal", [2, 2]),
          normal_harness("ConditionalDiagonalNormal", [2]), normal_harness("ConditionalDiagonalNormal", [1, 2]), normal_harness("ConditionalDiagonalNormal", [2, 2], ctx_shape=(2, 4)),
          bernoulli_harness(1), bernoulli_harness(2), lotka_harness(), mg1_harness()]
    return hs


# ------------------------------------------------------------------------------------------------------------------
# C03: structure of Flow._log_prob  (change of variables: base log-density of the noise plus log-abs-det)
# ------------------------------------------------------------------------------------------------------------------
class PlainBase(Distribution):
    """a base distribution whose log_prob takes no context argument (exercises the _context_used_in_base = False branch)"""

    def log_prob(self, inputs):
        pi = P(inputs)
        out = np.empty((pi.shape[0],), dtype=object)
        for b in range(pi.shape[0]):
            a = rowargs(pi[b], None)
            out[b] = UF("BASE", len(a))(*a)
        return Sym.make(out, inputs.dtype)


def flow_logprob_harness(base_kind, with_context, embedding):
    B = 2

    def run(h, ctx):
        tr = StubTransform()
        if base_kind == "StandardNormal": base = DN.StandardNormal([Dn])
        elif base_kind == "ConditionalDiagonalNormal": base = DN.ConditionalDiagonalNormal([Dn], context_encoder=lambda c: torch.cat([c, c], dim=-1) if c.shape[-1] == Dn else c)
        else: base = PlainBase()
        flow = Flow(tr, base, embedding_net=StubEmbedding() if embedding else None)
        flow.eval()
        x = h.inp("x", (B, Dn)); c = h.inp("context", (B, 2)) if with_context else None
        h.c = c
        return flow.log_prob(x, context=c), flow.transform_to_noise(x, context=c)

    def post(h, ctx, value):
        lp, noise = value
        px = P(h.inputs["x"])
        er = embed_rows(h.c, embedding)
        for b in range(B):
            a = rowargs(px[b], er[b] if er is not None else None)
            Trow = [UF(f"T_{d}", len(a))(*a) for d in range(Dn)]
            L = UF("L", len(a))(*a)
            if base_kind == "StandardNormal":
                base_lp = std_normal_lp(Trow)
            elif base_kind == "ConditionalDiagonalNormal":
                base_lp = gaussian_lp(Trow, list(er[b]), list(er[b]))
            else:
                base_lp = UF("BASE", Dn)(*Trow)
            ensure(h, ctx, "C03.log_prob-is-base-density-of-noise-plus-logabsdet", P(lp)[b] == base_lp + L)
            for d in range(Dn):
                ensure(h, ctx, "C03.noise-is-transform-of-input", P(noise)[b, d] == Trow[d])
    hn = Harness(f"flow_log_prob[base={base_kind},context={with_context},embedding={embedding}]", run, post, functions=[Flow._log_prob, Flow.transform_to_noise, Flow.__init__])
    return hn


def flow_logprob_harnesses(tier):
    hs = []
    for base in ("StandardNormal", "ConditionalDiagonalNormal", "Plain"):
        for wc in (False, True):
            for emb in ((False, True) if wc else (False,)):
                if base == "ConditionalDiagonalNormal" and not wc: continue
                hs.append(flow_logprob_harness(base, wc, emb))
    return hs


# ------------------------------------------------------------------------------------------------------------------
# C04 with a base distribution that uses the context: the base must be sampled / evaluated under the EMBEDDED context rows
# ------------------------------------------------------------------------------------------------------------------
class CondStubBase(Distribution):
    def __init__(self):
        super().__init__()
        self.seen = []

    def _log_prob(self, inputs, context):
        self.seen.append(("log_prob", context))
        pi = P(inputs)
        out = np.empty((pi.shape[0],), dtype=object)
        for b in range(pi.shape[0]):
            a = rowargs(pi[b], P(context)[b])
            out[b] = UF("CBASE", len(a))(*a)
        return Sym.make(out, inputs.dtype)

    def _sample(self, num_samples, context):
        self.seen.append(("sample", context))
        Cn = context.shape[0]
        s = torch.randn(Cn * num_samples, Dn)
        return s.reshape(Cn, num_samples, Dn)


def conditional_base_harness(method, nctx, n):
    def run(h, ctx):
        base = CondStubBase()
        flow = Flow(StubTransform(), base, embedding_net=StubEmbedding())
        flow.eval()
        c = h.inp("context", (nctx, 2))
        h.c, h.base = c, base
        return getattr(flow, method)(n, context=c)

    def post(h, ctx, value):
        er = embed_rows(h.c, True)
        ok = bool(h.base.seen)
        for kind, cx in h.base.seen:
            pc = P(cx)
            if kind == "sample":
                ok = ok and tuple(pc.shape) == tuple(er.shape) and all(z3.eq(a, b) for a, b in zip(pc.reshape(-1), er.reshape(-1)))
            else:
                rep = np.repeat(er, n, axis=0)
                ok = ok and tuple(pc.shape) == tuple(rep.shape) and all(z3.eq(a, b) for a, b in zip(pc.reshape(-1), rep.reshape(-1)))
        ensure(h, ctx, "C04.base-distribution-sees-the-embedded-context-rows", z3.BoolVal(ok))
        s = value[0] if isinstance(value, tuple) else value
        ensure(h, ctx, "C18.sample-shape", z3.BoolVal(tuple(P(s).shape) == (nctx, n, Dn)))

    def native_call(h, inp):
        torch.manual_seed(0)
        from nflows.transforms import MaskedAffineAutoregressiveTransform
        emb = nn.Linear(2, 4)
        fl = Flow(MaskedAffineAutoregressiveTransform(Dn, 4, context_features=4, num_blocks=1), DN.ConditionalDiagonalNormal([Dn]), embedding_net=emb).eval()
        c = torch.tensor(np.asarray(inp["context"]), dtype=torch.float32)
        seen = []
        orig = fl._distribution._sample
        fl._distribution._sample = lambda k, context: (seen.append(context), orig(k, context))[1]
        out = getattr(fl, method)(n, context=c)
        return out, seen, emb(c)

    def native_clauses(h, inp, r):
        out, seen, e = r
        s = out[0] if isinstance(out, tuple) else out
        return {"C04.base-distribution-sees-the-embedded-context-rows": all(cx.shape == e.shape and bool(torch.allclose(cx, e)) for cx in seen) and bool(seen),
                "C18.sample-shape": tuple(s.shape) == (nctx, n, Dn)}
    hn = Harness(f"flow_conditional_base[{method},ctx_rows={nctx},n={n}]", run, post, native_call=native_call, native_clauses=native_clauses,
                 sample=lambda h, rng: {"context": rng.normal(size=(nctx, 2))}, functions=[Flow._sample, Flow.sample_and_log_prob])
    hn.native_float32 = False
    return hn
