"""contracts for the linear family (C11, and its part of C01 / C02): LULinear, QRLinear, SVDLinear, NaiveLinear, HouseholderSequence,
OneByOneConvolution.  All parameters symbolic at D <= 3; matrix identities are polynomial identities discharged by z3."""
import itertools
import numpy as np
import torch, z3
from tsv.core import Sym, P, C, fresh, toreal, rv, is_num, num
from tsv.harness import Harness
from tsv.ops_move import det_cofactor
from tsv import terms as T
from .common import *
from .modules import exp_of_term, zabs, ensure_logs_cancel
from .cache import symbolise
from nflows.transforms.linear import NaiveLinear
from nflows.transforms.lu import LULinear
from nflows.transforms.qr import QRLinear
from nflows.transforms.svd import SVDLinear
from nflows.transforms.orthogonal import HouseholderSequence
from nflows.transforms.conv import OneByOneConvolution


def mk_class(cname, Dn, K):
    if cname == "LULinear": return LULinear(Dn)
    if cname == "QRLinear": return QRLinear(Dn, num_householder=K)
    if cname == "SVDLinear": return SVDLinear(Dn, num_householder=K)
    if cname == "NaiveLinear": return NaiveLinear(Dn, orthogonal_initialization=False)
    if cname == "Householder": return HouseholderSequence(Dn, num_transforms=K)
    raise KeyError(cname)


class OrthogonalStub(torch.nn.Module):
    """contract stub of HouseholderSequence as seen by QRLinear / SVDLinear: forward(x) = x A, inverse(y) = y A^T for an orthogonal A
    (A^T A = A A^T = I), log-det 0.  Proved on the body by the Householder harnesses (C11.orthogonal, C11.forward-is-matrix)."""

    def __init__(self, name, Dn):
        super().__init__()
        ctx = C()
        A = np.empty((Dn, Dn), dtype=object)
        for idx in np.ndindex(Dn, Dn):
            A[idx] = z3.Real(f"{name}[{idx[0]},{idx[1]}]")
        if Dn == 2:
            # every 2x2 orthogonal matrix is [[c, -e s], [s, e c]] with c^2 + s^2 = 1, e = +-1 (complete parametrisation)
            c_, s_, e_ = z3.Real(f"{name}.c"), z3.Real(f"{name}.s"), z3.Real(f"{name}.e")
            ctx.assume(z3.Or(e_ == 1, e_ == -1))
            A[0, 0], A[0, 1], A[1, 0], A[1, 1] = c_, -e_ * s_, s_, e_ * c_
        self.A = A
        for i in range(Dn):
            for j in range(Dn):
                e = rv(1 if i == j else 0)
                ctx.assume(sum((A[k, i] * A[k, j] for k in range(Dn)), rv(0)) == e)
                ctx.assume(sum((A[i, k] * A[j, k] for k in range(Dn)), rv(0)) == e)
        # |det A| = 1 (proved for the Householder product as C11.det-is-unit; over the reals it follows from A^T A = I by det(A^T A) = det(A)^2)
        dA = det_cofactor(A)
        ctx.assume(z3.Or(dA == 1, dA == -1))

    def _mul(self, inputs, M):
        from tsv.ops_move import mat_mul
        p = np.vectorize(toreal, otypes=[object])(P(inputs))
        return Sym.make(mat_mul(p, M), inputs.dtype), inputs.new_zeros(inputs.shape[0])

    def forward(self, inputs, context=None):
        return self._mul(inputs, self.A)

    def inverse(self, inputs, context=None):
        return self._mul(inputs, self.A.T)


def stub_orthogonal_parts(t, Dn):
    for name in ("orthogonal", "orthogonal_1", "orthogonal_2"):
        if hasattr(t, name) and isinstance(getattr(t, name), HouseholderSequence):
            t._modules[name] = OrthogonalStub(name, Dn)


def householder_pre(ctx, t):
    """precondition of the Householder product: no reflection vector is zero (established by the constructor: see the grid)"""
    for m in t.modules():
        if isinstance(m, HouseholderSequence):
            q = P(m.q_vectors)
            for k in range(q.shape[0]):
                ctx.assume(sum((toreal(v) * toreal(v) for v in q[k]), rv(0)) != 0)


def naive_pre(ctx, t):
    if isinstance(t, NaiveLinear):
        ctx.assume(det_cofactor(np.vectorize(toreal, otypes=[object])(P(t._weight))) != 0)


def det_factorisation(h, ctx, W):
    """helper lemma for the orthogonal-stub classes: det W = (product of the orthogonal factors' determinants) * (product of the diagonal scales) - a polynomial
    identity (multiplicativity of the determinant), proved by the ring tactic and then available to the log-abs-det clauses"""
    t = h.t
    stubs = [m for m in t._modules.values() if isinstance(m, OrthogonalStub)]
    if not stubs or W.shape[0] < 3:
        return None
    if hasattr(t, "diagonal") and not callable(getattr(type(t), "diagonal", None)):
        diag = [toreal(v) for v in P(t.diagonal).reshape(-1)]
    elif hasattr(t, "log_upper_diag"):
        from tsv.ops import s_exp
        diag = [s_exp(toreal(v)) for v in P(t.log_upper_diag).reshape(-1)]
    else:
        return None
    rhs = rv(1)
    for m in stubs: rhs = rhs * det_cofactor(m.A)
    for d in diag: rhs = rhs * d
    loc = ("contract", h.hid.split("[")[0], 0)
    dW = det_cofactor(W)
    ctx.check("cut-lemma", dW == rhs, label="C11.det-factorises", loc=loc, meta={"tactic": "ring"})
    # |det W| = product of the (positive) scales: from det A = +-1 of each orthogonal factor, on named unknowns so that the arithmetic stays small
    us = [z3.Real(f"detA{k}") for k in range(len(stubs))]
    ds = [z3.Real(f"scale{k}") for k in range(len(diag))]
    f_us = [u == det_cofactor(m.A) for u, m in zip(us, stubs)]
    f_ds = [d_ == d for d_, d in zip(ds, diag)]
    for f in f_us + f_ds: ctx.assume(f)        # definitions of fresh names
    pu = rv(1)
    for u in us: pu = pu * u
    pd = rv(1)
    for d_ in ds: pd = pd * d_
    f_sign = [z3.Or(u == 1, u == -1) for u in us]
    for u, f in zip(us, f_sign):
        ctx.check("cut-lemma", f, label="C11.det-factor-is-unit", loc=loc)
    f_pos = [d_ > 0 for d_ in ds]
    for f in f_pos:
        ctx.check("cut-lemma", f, label="C11.scale-positive", loc=loc)
    absprod = z3.If(pu * pd >= 0, pu * pd, -(pu * pd)) == pd
    ctx.check("cut-lemma", absprod, label="C11.abs-of-signed-product", loc=loc, hyps=f_sign + f_pos)
    f_det = dW == rhs
    ctx.check("cut-lemma", zabs(dW) == pd, label="C11.abs-det-is-product-of-scales", loc=loc, hyps=[f_det, absprod] + f_us + f_ds + f_sign + f_pos)
    return [zabs(dW) == pd] + f_ds + f_pos


def linear_harness(cname, Dn, K, mode):
    """mode: accessors | forward | inverse_of_forward"""
    B = 2

    def run(h, ctx):
        t = mk_class(cname, Dn, K)
        t.eval()
        if cname in ("QRLinear", "SVDLinear"):
            stub_orthogonal_parts(t, Dn)        # modular: the orthogonal factors are seen through their contract
        symbolise(h, t)
        householder_pre(ctx, t); naive_pre(ctx, t)
        h.t = t
        x = h.inp("x", (B, Dn))
        if cname == "Householder":
            if mode == "accessors":
                return t.matrix()
            if mode == "inverse":
                xi, ldi = t.inverse(x)
                return xi, ldi, t.matrix()
            y, ld = t.forward(x)
            if mode == "forward":
                return y, ld, t.matrix()
            x2, ldi = t.inverse(y)
            return y, ld, x2, ldi
        if mode == "accessors":
            h.both = t.weight_inverse_and_logabsdet()       # the combined accessor that fills the cache on the inverse path
            return t.weight(), t.weight_inverse(), t.logabsdet()
        if mode == "inverse":
            xi, ldi = t.inverse(x)
            return xi, ldi, t.weight_inverse(), t.logabsdet()
        y, ld = t.forward(x)
        if mode == "forward":
            return y, ld, t.weight(), t.logabsdet()
        x2, ldi = t.inverse(y)
        return y, ld, x2, ldi

    def post(h, ctx, value):
        t = h.t
        px = P(h.inputs["x"])
        eye = lambda i, j: rv(1 if i == j else 0)
        if mode == "accessors" and cname == "Householder":
            M = P(value)
            ensure(h, ctx, "C11.shape", z3.BoolVal(tuple(M.shape) == (Dn, Dn)))
            for i in range(Dn):
                for j in range(Dn):
                    ensure(h, ctx, "C11.orthogonal", sum((M[k, i] * M[k, j] for k in range(Dn)), rv(0)) == eye(i, j), meta={"tactic": "ring"})
                    ensure(h, ctx, "C11.orthogonal-rows", sum((M[i, k] * M[j, k] for k in range(Dn)), rv(0)) == eye(i, j), meta={"tactic": "ring"})
            dM = det_cofactor(M)
            ensure(h, ctx, "C11.det-is-unit", dM * dM == 1, meta={"tactic": "ring"})
            return
        if mode == "accessors":
            W, V, L = (P(v) for v in value)
            ensure(h, ctx, "C11.shape", z3.BoolVal(tuple(W.shape) == (Dn, Dn) and tuple(V.shape) == (Dn, Dn) and L.shape == ()))
            for i in range(Dn):
                for j in range(Dn):
                    ensure(h, ctx, "C11.inverse-is-inverse", sum((W[i, k] * V[k, j] for k in range(Dn)), rv(0)) == eye(i, j), meta={"tactic": "ring"})
            numr, den = exp_of_term(L[()])
            hy = det_factorisation(h, ctx, W)
            ensure(h, ctx, "C11.logabsdet-is-log-abs-det", zabs(det_cofactor(W)) * den == numr, hyps=hy)
            # weight_inverse_and_logabsdet() agrees with the two separate accessors
            V2, L2 = (P(v) for v in h.both)
            ensure(h, ctx, "C11.combined-accessor-shape", z3.BoolVal(tuple(V2.shape) == (Dn, Dn) and L2.shape == ()))
            if tuple(V2.shape) == (Dn, Dn) and L2.shape == ():
                for i in range(Dn):
                    for j in range(Dn):
                        ensure(h, ctx, "C11.combined-accessor-inverse", V2[i, j] == V[i, j], meta={"tactic": "ring"})
                ensure_logs_cancel(h, ctx, "C11.combined-accessor-logabsdet", L2[()] - L[()])
            return
        if mode == "forward":
            if cname == "Householder":
                y, ld, Mt = value
                M = P(Mt)
                # induction over the number of reflections: the only state the loop of _apply_transforms carries from one iteration to the next is
                # `outputs` (syntactic obligation on the re-read source), so K reflections are K applications of the single step proved here
                # for an arbitrary incoming `outputs`; the product of orthogonal matrices is orthogonal (lemmas/Lemmas.lean)
                from tsv.instrument import loop_carried
                lc = loop_carried(HouseholderSequence._apply_transforms)
                ctx.oblige("proof-side-condition", z3.BoolVal(len(lc) == 1 and len(lc[0][1]) == 1), label="C11.reflection-loop-carries-outputs-only",
                           loc=("contract", h.hid.split("[")[0], 0), meta={"loops": str(lc)})
                ensure(h, ctx, "C13.no-write", z3.BoolVal(not [w for w in ctx.writes if w[0] != "fresh"]), meta={"writes": str([w for w in ctx.writes if w[0] != "fresh"][:3])})
                for b in range(B):
                    ensure(h, ctx, "C01.logdet", P(ld)[b] == 0)
                    for i in range(Dn):
                        # forward(x) = x @ matrix()^T : the map is the linear map of its matrix (stub contract of the QR / SVD proofs)
                        ensure(h, ctx, "C11.forward-is-matrix", P(y)[b, i] == sum((px[b, k] * M[i, k] for k in range(Dn)), rv(0)), meta={"tactic": "ring"})
                return
            y, ld, Wt, L = value
            W = P(Wt); bias = P(t.bias)
            from tsv.terms import base_symbols
            xid = {px[idx].get_id(): idx for idx in np.ndindex(*px.shape)}
            hy = det_factorisation(h, ctx, W)
            rows = all(xid[s_][0] == b for b in range(B) for t_ in list(P(y)[b]) + [P(ld)[b]] for s_ in base_symbols(t_) if s_ in xid)
            ensure(h, ctx, "C12.row-independent", z3.BoolVal(rows))
            ensure(h, ctx, "C13.no-write", z3.BoolVal(not [w for w in ctx.writes if w[0] != "fresh"]))
            for b in range(B):
                for i in range(Dn):
                    ensure(h, ctx, "C11.forward-is-affine", P(y)[b, i] == sum((W[i, k] * px[b, k] for k in range(Dn)), rv(0)) + bias[i], meta={"tactic": "ring"})
                numr, den = exp_of_term(P(ld)[b])
                ensure(h, ctx, "C01.logdet", zabs(det_cofactor(W)) * den == numr, hyps=hy)
            return
        if mode == "inverse" and cname == "Householder":
            # inverse(y) = y @ matrix(): with matrix()^T matrix() = I (accessors) and forward(x) = x @ matrix()^T this is the inverse of forward
            xi, ldi, Mt = value
            M = P(Mt)
            ensure(h, ctx, "C13.no-write", z3.BoolVal(not [w for w in ctx.writes if w[0] != "fresh"]), meta={"writes": str([w for w in ctx.writes if w[0] != "fresh"][:3])})
            for b in range(B):
                ensure(h, ctx, "C02.neg-logdet", P(ldi)[b] == 0)
                for i in range(Dn):
                    ensure(h, ctx, "C11.inverse-is-transposed-matrix", P(xi)[b, i] == sum((px[b, k] * M[k, i] for k in range(Dn)), rv(0)), meta={"tactic": "ring"})
            return
        if mode == "inverse":
            # inverse(y) = (y - b) V^T and its log-det is -logabsdet(): with W V = I (accessors) this is the inverse of forward
            xi, ldi, Vt, L = value
            V = P(Vt); bias = P(t.bias)
            for b in range(B):
                for i in range(Dn):
                    ensure(h, ctx, "C02.inverse-is-affine-inverse", P(xi)[b, i] == sum((V[i, k] * (px[b, k] - bias[k]) for k in range(Dn)), rv(0)), meta={"tactic": "ring"})
                ensure_logs_cancel(h, ctx, "C02.neg-logdet", P(ldi)[b] + P(L)[()])
            return
        y, ld, x2, ldi = value
        for a, b_ in zip(P(x2).reshape(-1), px.reshape(-1)):
            ensure(h, ctx, "C02.roundtrip_if", a == b_, meta={"tactic": "ring"})
        for b in range(B):
            ensure_logs_cancel(h, ctx, "C02.neg-logdet", P(ld)[b] + P(ldi)[b])

    def native_build(inp):
        torch.manual_seed(int(inp["seed"]))
        t = mk_class(cname, Dn, K)
        with torch.no_grad():
            for p in t.parameters(): p.add_(torch.randn(p.shape) * 0.5)
        return t.double().eval()

    def native_call(h, inp):
        t = native_build(inp); x = torch.tensor(np.asarray(inp["x"]), dtype=torch.float64)
        if cname == "Householder":
            if mode == "accessors":
                return torch.stack([t.forward(torch.eye(Dn, dtype=torch.float64)[i:i + 1])[0][0] for i in range(Dn)])   # rows = images of basis vectors
            if mode == "inverse":
                xi, ldi = t.inverse(x); return xi, ldi, t.matrix()
            y, ld = t.forward(x)
            if mode == "forward": return y, ld, t.matrix()
            x2, ldi = t.inverse(y); return y, ld, x2, ldi
        if mode == "accessors": return t.weight(), t.weight_inverse(), t.logabsdet()
        if mode == "inverse":
            xi, ldi = t.inverse(x); return xi, ldi, t.weight_inverse(), t.logabsdet()
        y, ld = t.forward(x)
        if mode == "forward": return y, ld, t.weight(), t.logabsdet()
        x2, ldi = t.inverse(y); return y, ld, x2, ldi

    def native_clauses(h, inp, res):
        I = torch.eye(Dn, dtype=torch.float64)
        t = native_build(inp); x = torch.tensor(np.asarray(inp["x"]), dtype=torch.float64)
        if mode == "accessors" and cname == "Householder":
            return {"C11.orthogonal": bool(torch.allclose(res @ res.t(), I, atol=1e-8))}
        if mode == "accessors":
            W, V, L = res
            V2, L2 = t.weight_inverse_and_logabsdet()
            both_ok = bool(torch.allclose(V2, V, atol=1e-7)) and abs(float(L2) - float(L)) < 1e-7
            return {"C11.combined-accessor-inverse": both_ok, "C11.combined-accessor-logabsdet": both_ok, "C11.inverse-is-inverse": bool(torch.allclose(W @ V, I, atol=1e-7)), "C11.logabsdet-is-log-abs-det": bool(abs(float(torch.slogdet(W)[1]) - float(L)) < 1e-7)}
        if mode == "forward":
            J = torch.autograd.functional.jacobian(lambda z: t.forward(z)[0], x)
            ok = all(abs(float(torch.slogdet(J[b, :, b, :])[1]) - float(res[1][b])) < 1e-7 for b in range(B))
            c = {"C01.logdet": ok}
            if cname == "Householder":
                c["C11.forward-is-matrix"] = bool(torch.allclose(res[0], x @ res[2].t(), atol=1e-8))
            if cname != "Householder":
                c["C11.forward-is-affine"] = bool(torch.allclose(res[0], x @ res[2].t() + t.bias, atol=1e-8))
            return c
        if mode == "inverse" and cname == "Householder":
            xi, ldi, M = res
            return {"C11.inverse-is-transposed-matrix": bool(torch.allclose(xi, x @ M, atol=1e-8)), "C02.neg-logdet": bool(torch.allclose(ldi, torch.zeros_like(ldi)))}
        if mode == "inverse":
            xi, ldi, V, L = res
            return {"C02.inverse-is-affine-inverse": bool(torch.allclose(xi, (x - t.bias) @ V.t(), atol=1e-8)), "C02.neg-logdet": bool(torch.allclose(ldi, -L * torch.ones_like(ldi), atol=1e-8))}
        y, ld, x2, ldi = res
        return {"C02.roundtrip_if": bool(torch.allclose(x2, x, atol=1e-7)), "C02.neg-logdet": bool(torch.allclose(ld + ldi, torch.zeros_like(ld), atol=1e-8))}

    def sample(h, rng):
        return {"seed": np.array(int(rng.integers(0, 10 ** 6))), "x": rng.normal(size=(B, Dn))}

    cls = {"LULinear": LULinear, "QRLinear": QRLinear, "SVDLinear": SVDLinear, "NaiveLinear": NaiveLinear, "Householder": HouseholderSequence}[cname]
    fns = [cls.forward if cname == "Householder" else cls.forward_no_cache] + ([cls.weight, cls.weight_inverse, cls.logabsdet, cls.inverse_no_cache] if cname != "Householder" else
                                                                                 [cls._apply_transforms, cls.inverse, cls.matrix])
    hn = Harness(f"{cname}[D={Dn},K={K},{mode}]", run, post, native_call=native_call, native_clauses=native_clauses, sample=sample, functions=fns,
                 config={"class": cname, "D": Dn, "householder": K, "mode": mode})
    hn.native_float32 = False
    return hn


def constructor_grid_harness(tier):
    """bounded enumeration (no values to quantify over): every accepted constructor configuration yields a usable initial state"""
    from tsv.core import Ctx
    configs = []
    Dmax = 3 if tier == "quick" else 4
    Kmax = 7 if tier == "quick" else 10
    for Dn in range(1, Dmax + 1):
        configs.append(("LULinear", Dn, 0, {"identity_init": True})); configs.append(("LULinear", Dn, 0, {"identity_init": False}))
        configs.append(("NaiveLinear", Dn, 0, {"orthogonal_initialization": False})); configs.append(("NaiveLinear", Dn, 0, {"orthogonal_initialization": True}))
        for K in range(1, Kmax + 1):
            configs.append(("Householder", Dn, K, {}));
            if K in (1, 2, 3, Kmax): configs.append(("QRLinear", Dn, K, {})); configs.append(("SVDLinear", Dn, K, {}))

    def build(c):
        cname, Dn, K, kw = c
        if cname == "LULinear": return LULinear(Dn, **kw)
        if cname == "NaiveLinear": return NaiveLinear(Dn, **kw)
        if cname == "Householder": return HouseholderSequence(Dn, K)
        if cname == "QRLinear": return QRLinear(Dn, K)
        return SVDLinear(Dn, K)

    def usable(t, Dn):
        x = torch.randn(3, Dn, dtype=torch.float64)
        t = t.double().eval()
        y, ld = t.forward(x); x2, ldi = t.inverse(y)
        return bool(torch.isfinite(y).all() and torch.isfinite(ld).all() and torch.isfinite(x2).all() and torch.allclose(x2, x, atol=1e-6))

    def run(h, ctx):
        # constructors and the usability probe run natively (outside the symbolic mode): this harness is a bounded enumeration
        res = {}
        saved = Ctx.cur
        Ctx.cur = None
        try:
            if True:
                for c in configs:
                    key = f"{c[0]}(features={c[1]}" + (f",num_householder={c[2]}" if c[2] else "") + "".join(f",{k}={v}" for k, v in c[3].items()) + ")"
                    try:
                        torch.manual_seed(0)
                        t = build(c)
                        res[key] = ("ok" if usable(t, c[1]) else "unusable", "")
                    except (TypeError, ValueError, AssertionError) as e:
                        res[key] = ("ok", f"rejected by the constructor: {type(e).__name__}")     # not an accepted configuration
                    except Exception as e:
                        res[key] = ("raises", f"{type(e).__name__}: {str(e)[:80]}")
        finally:
            Ctx.cur = saved
        return res

    def post(h, ctx, res):
        for key, (st, msg) in res.items():
            ctx.oblige("ensures", z3.BoolVal(st == "ok"), label="C11.constructor-yields-usable-transform", loc=("contract", key, 0), meta={"state": st, "message": msg})

    def native_clauses(h, inp, res):
        return {"C11.constructor-yields-usable-transform": all(st == "ok" for st, _ in res.values())}
    hn = Harness(f"linear_constructor_grid[{tier}]", run, post, native_call=lambda h, inp: run(h, None), native_clauses=native_clauses, sample=lambda h, rng: {},
                 functions=[HouseholderSequence.__init__, LULinear.__init__, LULinear._initialize, NaiveLinear.__init__, QRLinear.__init__, SVDLinear.__init__], check_defined=False)
    hn.native_float32 = False
    return hn


class _null:
    def __enter__(self): return self
    def __exit__(self, *a): return False


def linear_harnesses(tier, modes=("accessors", "forward", "inverse_of_forward")):
    """3x3 and larger cases rest on the ring back end (rational-function identities, Groebner reduction modulo the orthogonality relations of the stubs)"""
    hs = []
    for cname in ("LULinear", "NaiveLinear"):
        for Dn in ((1, 2) if tier == "quick" else ((1, 2, 3, 4) if cname == "LULinear" else (1, 2, 3))):
            for mode in modes:
                hs.append(linear_harness(cname, Dn, 0, mode))
    for cname in ("QRLinear", "SVDLinear", "Householder"):
        grid = ((1, 1), (2, 1), (2, 2)) if tier == "quick" else ((1, 1), (1, 2), (2, 1), (2, 2), (3, 2))
        if tier != "quick" and cname == "Householder":
            grid = grid + ((3, 3), (4, 2), (5, 2))
        for Dn, K in grid:
            if cname == "SVDLinear" and K % 2:
                continue          # SVDLinear asserts an even number of Householder transforms
            for mode in modes:
                if mode == "inverse_of_forward" and (cname != "Householder" or (Dn, K) in ((3, 3), (4, 2), (5, 2))):
                    mode = "inverse"       # round trip = lemma over the contracts: forward-is-affine(W), inverse-is-affine-inverse(V), W V = I
                hs.append(linear_harness(cname, Dn, K, mode))
    return hs
