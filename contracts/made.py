"""contracts for both copies of MADE (C06): the real constructor and forward run in the Dep ghost domain.

ensures  autoregressive:  for every output unit u = i*m + k and every input j >= i:  NOT may-depend(out[u], x_j)
         -- a validity query over the symbolic random-mask draws, for all weight values (weights are `live`, value-free)."""
import numpy as np
import torch, z3
from tsv.core import Sym, P, C
from tsv.harness import Harness
from tsv import dep
from tsv.dep import Dep
from .common import ensure
import nflows.transforms.made as made_t
import nflows.nn.nde.made as made_n


def made_harness(copy, features, hidden, blocks, residual, random_mask, mult, ctxf, bn, train, dropout=0.0):
    mod = made_t if copy == "transforms" else made_n
    B = 2

    def run(h, ctx):
        dep.NF[0] = features
        m = mod.MADE(features, hidden, context_features=ctxf, num_blocks=blocks, output_multiplier=mult, use_residual_blocks=residual,
                     random_mask=random_mask, use_batch_norm=bn, dropout_probability=dropout)
        m.train(train)
        for mm in m.modules():
            for k, p in list(mm._parameters.items()):
                if p is not None:
                    mm._parameters[k] = dep.dep_free(p.shape)
            for k, p in list(mm._buffers.items()):
                if p is not None and isinstance(p, torch.Tensor) and p.dtype.is_floating_point and k in ("running_mean", "running_var"):
                    mm._buffers[k] = dep.dep_free(p.shape)
        h.module = m
        x = dep.dep_input(B, features)
        c = dep.dep_free((B, ctxf)) if ctxf else None
        return m(x, c)

    def post(h, ctx, out):
        o = P(out)
        ensure(h, ctx, "C06.output-shape", z3.BoolVal(tuple(o.shape) == (B, features * mult)))
        if tuple(o.shape) != (B, features * mult):
            return
        for r in range(B):
            for u in range(features * mult):
                i = u // mult
                e = o[r, u]
                if not isinstance(e, Dep):
                    continue       # a constant: depends on nothing
                for j in range(i, features):
                    ensure(h, ctx, "C06.autoregressive", z3.Not(e.deps[j]) if not z3.is_false(e.deps[j]) else z3.BoolVal(True),
                           meta={"unit": u, "feature": i, "input": j})

    def native_build(seed):
        torch.manual_seed(seed)
        m = mod.MADE(features, hidden, context_features=ctxf, num_blocks=blocks, output_multiplier=mult, use_residual_blocks=residual,
                     random_mask=random_mask, use_batch_norm=bn, dropout_probability=0.0)
        with torch.no_grad():
            for p_ in m.parameters():
                p_.copy_(torch.randn(p_.shape) * 1.5)
        m.train(False)
        return m.double()

    def native_call(h, inp):
        m = native_build(int(inp["seed"]))
        x = torch.tensor(np.asarray(inp["x"]), dtype=torch.float64)
        c = torch.tensor(np.asarray(inp["c"]), dtype=torch.float64) if ctxf else None
        return m(x, c)

    def native_clauses(h, inp, res):
        m = native_build(int(inp["seed"]))
        x = torch.tensor(np.asarray(inp["x"]), dtype=torch.float64)
        c = torch.tensor(np.asarray(inp["c"]), dtype=torch.float64) if ctxf else None
        J = torch.autograd.functional.jacobian(lambda z: m(z, c), x)      # [B, U, B, D]
        ok = True
        for r in range(x.shape[0]):
            for u in range(features * mult):
                for j in range(u // mult, features):
                    if float(J[r, u, r, j]) != 0.0:
                        ok = False
        return {"C06.autoregressive": ok, "C06.output-shape": tuple(res.shape) == (x.shape[0], features * mult)}

    def sample(h, rng):
        d = {"seed": np.array(int(rng.integers(0, 10 ** 6))), "x": rng.normal(size=(B, features))}
        if ctxf: d["c"] = rng.normal(size=(B, ctxf))
        return d

    def allowed_ctor_rejection(h, ctx):
        return z3.BoolVal(bool(residual and random_mask))

    hid = f"MADE_{copy}[D={features},H={hidden},blocks={blocks},{'res' if residual else 'ff'},{'random' if random_mask else 'seq'},m={mult},ctx={ctxf},bn={bn},train={train},drop={dropout}]"
    nat = {} if (residual and random_mask) else dict(native_call=native_call, native_clauses=native_clauses, sample=sample)
    return Harness(hid, run, post, raises={ValueError: allowed_ctor_rejection}, **nat, functions=[mod.MADE.__init__, mod.MADE.forward, mod.MaskedLinear._get_mask_and_degrees,
                   mod.MaskedLinear.forward, mod.MaskedFeedforwardBlock.forward, mod.MaskedResidualBlock.forward, mod._get_input_degrees], check_defined=False,
                   config=dict(copy=copy, features=features, hidden=hidden, blocks=blocks, residual=residual, random_mask=random_mask, mult=mult, ctx=ctxf, bn=bn, train=train))


def made_harnesses(tier):
    hs = []
    if tier == "quick":
        grid = [(1, 2, 1, True, False, 1, None, False, False), (2, 3, 1, False, True, 2, None, False, False), (3, 2, 1, False, False, 2, None, False, False),
                (3, 4, 2, True, False, 2, 2, False, False), (3, 4, 2, False, True, 3, 2, True, True), (3, 3, 0, False, False, 1, None, False, False),
                (2, 4, 2, False, True, 1, None, True, False), (3, 4, 1, True, False, 1, 1, True, True), (3, 4, 1, True, True, 1, None, False, False),
                (3, 3, 1, False, True, 1, None, False, True)]
    else:
        grid = []
        import itertools as _it
        k = 0
        for D, H, blocks, residual, rnd, m, (ctxf, bn, train) in _it.product((1, 2, 3, 4), (2, 4, 6), (0, 1, 2), (False, True), (False, True), (1, 3),
                                                                              ((None, False, False), (2, True, True))):
            k += 1
            if k % 7 not in (0, 3):      # a deterministic 2/7 sample of the full product (about 160 architectures per copy)
                continue
            if rnd and D >= 4 and H >= 6 and blocks >= 2:
                continue
            grid.append((D, H, blocks, residual, rnd, m, ctxf, bn, train))
        grid.append((5, 4, 1, False, True, 1, None, False, False)); grid.append((5, 6, 2, True, False, 2, 2, False, False))
    for copy in ("transforms", "nde"):
        for g in grid:
            hs.append(made_harness(copy, *g))
        hs.append(made_harness(copy, 3, 4, 1, False, False, 2, None, False, True, dropout=0.5))
    return hs
