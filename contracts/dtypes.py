"""dtype contracts (the decidable part of C19) for composite classes: after the real .double() conversion every method returns float64 on float64
inputs (and float32 on float32) and no dtype error is raised (same-dtype rule at every matmul-family op, result dtypes by real meta inference)"""
import numpy as np
import torch, z3
from tsv.core import Sym, P
from tsv.harness import Harness
from .common import *
from .cache import symbolise
from nflows import transforms as TR
from nflows.nn import nets
from nflows.distributions import normal as DN
from nflows.flows.base import Flow
from nflows.flows.autoregressive import MaskedAutoregressiveFlow
from nflows.flows.realnvp import SimpleRealNVP


def _net(i, o):
    return nets.ResidualNet(i, o, hidden_features=2, num_blocks=1)


def _multiscale():
    m = TR.MultiscaleCompositeTransform(num_transforms=2)
    hidden = m.add_transform(TR.LULinear(4), [4])
    m.add_transform(TR.LULinear(hidden[0]), hidden)
    return m


CONFIGS = {
    "AffineCoupling": (lambda: TR.AffineCouplingTransform(torch.tensor([1, 0]), _net), (2, 2), ("forward", "inverse")),
    "AdditiveCoupling": (lambda: TR.AdditiveCouplingTransform(torch.tensor([1, 0]), _net), (2, 2), ("forward", "inverse")),
    "Multiscale": (lambda: _multiscale(), (2, 4), ("forward",)),
    "PiecewiseRQCoupling": (lambda: TR.PiecewiseRationalQuadraticCouplingTransform(torch.tensor([1, 0]), _net, num_bins=2, tails="linear", tail_bound=3.0), (1, 2), ("forward", "inverse")),
    "MaskedAffineAutoregressive": (lambda: TR.MaskedAffineAutoregressiveTransform(2, 2, num_blocks=1), (2, 2), ("forward", "inverse")),
    "LULinear": (lambda: TR.LULinear(2), (2, 2), ("forward", "inverse", "weight", "weight_inverse", "logabsdet")),
    "QRLinear": (lambda: TR.QRLinear(2, 2), (2, 2), ("forward", "inverse", "weight", "weight_inverse")),
    "SVDLinear": (lambda: TR.SVDLinear(2, 2), (2, 2), ("forward", "inverse", "weight")),
    "NaiveLinear": (lambda: TR.NaiveLinear(2, orthogonal_initialization=False), (2, 2), ("forward", "weight_inverse")),
    "Householder": (lambda: TR.HouseholderSequence(2, 2), (2, 2), ("forward", "inverse", "matrix")),
    "OneByOneConvolution": (lambda: TR.OneByOneConvolution(2), (1, 2, 1, 2), ("forward",)),
    "RandomPermutation": (lambda: TR.RandomPermutation(2), (2, 2), ("forward", "inverse")),
    "Squeeze": (lambda: TR.SqueezeTransform(2), (1, 1, 2, 2), ("forward",)),
    "Composite": (lambda: TR.CompositeTransform([TR.ActNorm(2), TR.LULinear(2), TR.LeakyReLU(), TR.ReversePermutation(2)]), (2, 2), ("forward", "inverse")),
    "PiecewiseRQCDF": (lambda: TR.PiecewiseRationalQuadraticCDF([2], num_bins=2, tails="linear", tail_bound=3.0), (1, 2), ("forward", "inverse")),
    "BatchNorm": (lambda: TR.BatchNorm(2), (2, 2), ("forward", "inverse")),
    # sampling methods have no input whose dtype could be carried: they are outside the statement of C19 (observation recorded in DESIGN.md:
    # StandardNormal draws default-dtype noise, so a .double() flow cannot sample)
    "StandardNormal": (lambda: DN.StandardNormal([2]), (2, 2), ("log_prob",)),
    "ConditionalDiagonalNormal": (lambda: DN.ConditionalDiagonalNormal([2]), (2, 2), ("log_prob_ctx", "sample_ctx")),
    "MaskedAutoregressiveFlow": (lambda: MaskedAutoregressiveFlow(2, 2, num_layers=1, num_blocks_per_layer=1), (2, 2), ("log_prob", "transform_to_noise")),
    "SimpleRealNVP": (lambda: SimpleRealNVP(2, 2, num_layers=1, num_blocks_per_layer=1), (2, 2), ("log_prob", "transform_to_noise")),
}


def _leaves(v):
    if isinstance(v, torch.Tensor): yield v
    elif isinstance(v, (tuple, list)):
        for x in v: yield from _leaves(x)


def dtype_harness(name, dtype):
    make, xshape, methods = CONFIGS[name]

    def run(h, ctx):
        m = make()
        m.eval()
        if dtype == torch.float64:
            m = m.double()
        symbolise(h, m)
        for mm in m.modules():
            if isinstance(mm, (TR.BatchNorm, torch.nn.BatchNorm1d, torch.nn.BatchNorm2d)) and getattr(mm, "running_var", None) is not None:
                for t in P(mm.running_var).reshape(-1): ctx.assume(t >= 0) if not isinstance(t, (int, float)) else None
        x = h.inp("x", xshape, dtype)
        c = h.inp("context", (xshape[0], 4), dtype)
        out = {}
        for meth in methods:
            try:
                if meth == "log_prob_ctx": out[meth] = m.log_prob(x, context=c)
                elif meth == "sample_ctx": out[meth] = m.sample(2, context=c)
                elif meth in ("sample", "sample_and_log_prob"): out[meth] = getattr(m, meth)(2)
                elif meth in ("weight", "weight_inverse", "logabsdet", "matrix"): out[meth] = getattr(m, meth)()
                else: out[meth] = getattr(m, meth)(x)
            except RuntimeError as e:
                if "dtype" in str(e) or "expected m1 and m2" in str(e):
                    out[meth] = e
                else:
                    raise
        return out

    def post(h, ctx, outs):
        for meth, v in outs.items():
            if isinstance(v, Exception):
                ensure(h, ctx, f"C19.no-dtype-error.{meth}", z3.BoolVal(False), meta={"error": str(v)[:160]})
                continue
            ensure(h, ctx, f"C19.no-dtype-error.{meth}", z3.BoolVal(True))
            dts = [t.dtype for t in _leaves(v) if t.dtype.is_floating_point]
            ensure(h, ctx, f"C19.result-dtype.{meth}", z3.BoolVal(all(d == dtype for d in dts) and bool(dts)), meta={"got": [str(d) for d in dts], "want": str(dtype)})

    def native_call(h, inp):
        torch.manual_seed(0)
        m = make().eval()
        if dtype == torch.float64: m = m.double()
        x = torch.tensor(np.asarray(inp["x"]), dtype=dtype); c = torch.tensor(np.asarray(inp["context"]), dtype=dtype)
        out = {}
        for meth in methods:
            try:
                if meth == "log_prob_ctx": out[meth] = m.log_prob(x, context=c)
                elif meth == "sample_ctx": out[meth] = m.sample(2, context=c)
                elif meth in ("sample", "sample_and_log_prob"): out[meth] = getattr(m, meth)(2)
                elif meth in ("weight", "weight_inverse", "logabsdet", "matrix"): out[meth] = getattr(m, meth)()
                else: out[meth] = getattr(m, meth)(x)
            except RuntimeError as e:
                out[meth] = e
        return out

    def native_clauses(h, inp, outs):
        c = {}
        for meth, v in outs.items():
            c[f"C19.no-dtype-error.{meth}"] = not isinstance(v, Exception)
            if not isinstance(v, Exception):
                dts = [t.dtype for t in _leaves(v) if t.dtype.is_floating_point]
                c[f"C19.result-dtype.{meth}"] = all(d == dtype for d in dts)
        return c

    def sample(h, rng):
        lo, hi = (0.1, 0.9)
        return {"x": rng.uniform(lo, hi, size=xshape), "context": rng.normal(size=(xshape[0], 4))}
    hn = Harness(f"dtype_{name}[{str(dtype).replace('torch.', '')}]", run, post, native_call=native_call, native_clauses=native_clauses, sample=sample, functions=[], check_defined=False)
    hn.native_float32 = False
    return hn


def dtype_harnesses(tier):
    return [dtype_harness(n, dt) for n in CONFIGS for dt in (torch.float64, torch.float32)]


# ------------------------------------------------------------------------------------------------------------------
# C12 / C13 for flows and distributions (evaluation mode): rows independent, no writes to arguments / parameters / buffers
# ------------------------------------------------------------------------------------------------------------------
ROW_CONFIGS = {
    "MaskedAutoregressiveFlow": (lambda: MaskedAutoregressiveFlow(2, 2, num_layers=2, num_blocks_per_layer=1, batch_norm_between_layers=True, batch_norm_within_layers=True), False),
    "SimpleRealNVP": (lambda: SimpleRealNVP(2, 2, num_layers=2, num_blocks_per_layer=1, batch_norm_between_layers=True, batch_norm_within_layers=True), False),
    "ConditionalFlow": (lambda: Flow(TR.MaskedAffineAutoregressiveTransform(2, 2, context_features=4, num_blocks=1), DN.ConditionalDiagonalNormal([2]),
                                     embedding_net=torch.nn.Linear(2, 4)), True),
    "StandardNormal": (lambda: DN.StandardNormal([2]), False),
    "ConditionalDiagonalNormal": (lambda: DN.ConditionalDiagonalNormal([2]), True),
}


def rows_harness(name):
    from tsv.terms import base_symbols
    make, with_ctx = ROW_CONFIGS[name]
    B = 2

    def run(h, ctx):
        m = make(); m.eval()
        symbolise(h, m)
        for mm in m.modules():
            for k, b_ in list(mm._buffers.items()):
                if b_ is not None and isinstance(b_, torch.Tensor) and b_.dtype.is_floating_point and k in ("running_mean", "running_var"):
                    s_ = h.inp(f"buf:{k}:{id(mm) % 997}", tuple(b_.shape), b_.dtype, owner="buffer")
                    mm._buffers[k] = s_
                    if k == "running_var":
                        for t in P(s_).reshape(-1): ctx.assume(t >= 0)
        x = h.inp("x", (B, 2)); c = h.inp("context", (B, 2 if name == "ConditionalFlow" else 4)) if with_ctx else None
        out = {"log_prob": m.log_prob(x, context=c)}
        if isinstance(m, Flow):
            out["transform_to_noise"] = m.transform_to_noise(x, context=c)
        # sampling: only the frame is claimed here (no write to the context argument or to the model); one draw per row exercises the
        # path on which repeat_rows returns a view of the caller's context
        h.sampled = {}
        if not (isinstance(m, Flow) and not with_ctx):
            for k in (1, 2):
                h.sampled[k] = m.sample(k, context=c)
        return out

    def post(h, ctx, outs):
        ids = {}
        for n in ("x", "context"):
            if n in h.inputs:
                p = P(h.inputs[n])
                for idx in np.ndindex(*p.shape): ids[p[idx].get_id()] = idx[0]
        for meth, v in outs.items():
            pv = P(v)
            bad = [(b, ids[s]) for b in range(pv.shape[0]) for t in np.asarray(pv[b], dtype=object).reshape(-1) for s in base_symbols(t) if s in ids and ids[s] != b]
            ensure(h, ctx, f"C12.row-independent.{meth}", z3.BoolVal(pv.shape[0] == B and not bad), meta={"bad": str(bad[:3])})
        ensure(h, ctx, "C13.no-write", z3.BoolVal(not [w for w in ctx.writes if w[0] != "fresh"]), meta={"writes": str([w for w in ctx.writes if w[0] != "fresh"][:3])})

    def native_call(h, inp):
        torch.manual_seed(1); m = make().double().eval()
        x = torch.tensor(np.asarray(inp["x"])); c = torch.tensor(np.asarray(inp["context"])) if with_ctx else None
        return m, x, c, m.log_prob(x, context=c)

    def native_clauses(h, inp, r):
        m, x, c, lp = r
        rows = torch.cat([m.log_prob(x[i:i + 1], context=c[i:i + 1] if c is not None else None) for i in range(B)])
        sd = {k: v.clone() for k, v in m.state_dict().items()}; xb = x.clone()
        m.log_prob(x, context=c)
        cb = c.clone() if c is not None else None
        if not (isinstance(m, Flow) and not with_ctx):
            for k in (1, 2): m.sample(k, context=c)
        return {"C12.row-independent.log_prob": bool(torch.allclose(rows, lp, atol=1e-9)),
                "C13.no-write": bool(torch.equal(xb, x)) and (c is None or bool(torch.equal(cb, c))) and all(torch.equal(sd[k], v) for k, v in m.state_dict().items())}
    hn = Harness(f"rows_{name}[]", run, post, native_call=native_call, native_clauses=native_clauses,
                 sample=lambda h, rng: {"x": rng.normal(size=(B, 2)), "context": rng.normal(size=(B, 2 if name == "ConditionalFlow" else 4))}, functions=[Flow._log_prob, Flow.transform_to_noise])
    hn.native_float32 = False
    return hn


def rows_harnesses(tier):
    return [rows_harness(n) for n in ROW_CONFIGS]


# ------------------------------------------------------------------------------------------------------------------
# C16 (connectivity part) for composite classes with their real conditioner networks
# ------------------------------------------------------------------------------------------------------------------
def grad_harness(name, train=False):
    from .modules import grad_connected
    make, xshape, methods = (TRAIN_CONFIGS if train else CONFIGS)[name]
    methods = [m for m in methods if m in ("forward", "inverse", "log_prob", "log_prob_ctx", "transform_to_noise")]

    def run(h, ctx):
        ctx.notes["grad_alias"] = True
        m = make(); m.train(train)
        for mname, mm in m.named_modules():
            for k, p in list(mm._parameters.items()):
                if p is None: continue
                path = (mname + "." if mname else "") + k
                s_ = h.inp("p:" + path, tuple(p.shape), p.dtype, owner="param")
                s_._is_param = True; s_._g = {"requires_grad": True, "leaf": "p:" + path}
                mm._parameters[k] = s_
            for k, b_ in list(mm._buffers.items()):
                if b_ is not None and isinstance(b_, torch.Tensor) and b_.dtype.is_floating_point and k == "running_var":
                    s_ = h.inp(f"buf:{k}:{id(mm) % 997}", tuple(b_.shape), b_.dtype, owner="buffer"); mm._buffers[k] = s_
                    for t in P(s_).reshape(-1): ctx.assume(t >= 0)
        x = h.inp("x", xshape); x._g = {"requires_grad": True, "leaf": "x"}
        c = h.inp("context", (xshape[0], 4)); c._g = {"requires_grad": True, "leaf": "context"}
        out = {}
        for meth in methods:
            out[meth] = m.log_prob(x, context=c) if meth == "log_prob_ctx" else getattr(m, meth)(x)
        return out

    def post(h, ctx, outs):
        for meth, v in outs.items():
            grad_connected(h, ctx, list(_leaves(v)))

    def native_call(h, inp):
        torch.manual_seed(0); m = make().double().train(train)
        with torch.no_grad():
            for p in m.parameters(): p.add_(torch.randn(p.shape, dtype=p.dtype) * 0.2)
        x = torch.tensor(np.asarray(inp["x"]), requires_grad=True); c = torch.tensor(np.asarray(inp["context"]), requires_grad=True)
        return m, x, c

    def native_clauses(h, inp, r):
        m, x, c = r
        ok = True
        for meth in methods:
            f = (lambda: m.log_prob(x, context=c)) if meth == "log_prob_ctx" else (lambda: getattr(m, meth)(x))
            for t in _leaves(f()):
                if not t.dtype.is_floating_point: continue
                leaves = [x] + list(m.parameters())
                grads = torch.autograd.grad(t.sum(), leaves, allow_unused=True, retain_graph=True)
                base = t.detach().clone()
                for l, g in zip(leaves, grads):
                    with torch.no_grad():
                        old = l.detach().clone(); l.add_(0.0917)
                        t2 = [u for u in _leaves(f()) if u.shape == base.shape and u.dtype == base.dtype]
                        moved = any(not torch.allclose(u, base, atol=1e-10) for u in t2[:1]) if t2 else False
                        l.copy_(old)
                    if moved and g is None: ok = False
        # the gradient returned against central finite differences (inputs and parameters)
        okfd = True
        for meth in methods:
            f = (lambda: m.log_prob(x, context=c)) if meth == "log_prob_ctx" else (lambda: getattr(m, meth)(x))
            scal = lambda: sum(t.sum() for t in _leaves(f()) if t.dtype.is_floating_point)
            leaves = [x] + [p_ for p_ in m.parameters()]
            grads = torch.autograd.grad(scal(), leaves, allow_unused=True)
            for l, g in zip(leaves, grads):
                flat = l.detach().reshape(-1)
                for k in range(min(flat.numel(), 6)):
                    with torch.no_grad():
                        old = float(flat[k]); e_ = 1e-6
                        l.reshape(-1)[k] = old + e_; up = float(scal())
                        l.reshape(-1)[k] = old - e_; dn = float(scal())
                        l.reshape(-1)[k] = old
                    fd = (up - dn) / (2 * e_)
                    ag = 0.0 if g is None else float(g.reshape(-1)[k])
                    if abs(fd - ag) > 1e-4 * (1 + abs(fd)):
                        okfd = False
        return {"C16.value-dependencies-are-gradient-connected": ok, "C16.no-value-dependence-through-a-gradient-cut": okfd}
    hn = Harness(f"grad_{name}[]", run, post, native_call=native_call, native_clauses=native_clauses,
                 sample=lambda h, rng: {"x": rng.uniform(0.1, 0.9, size=xshape), "context": rng.normal(size=(xshape[0], 4))}, functions=[], check_defined=False)
    hn.native_float32 = False
    # the data-dependent initialisation of ActNorm writes batch statistics into the parameters through .data: by design the first batch is
    # not differentiated through its own statistics
    hn.cuts_allowed = name.startswith("ActNorm_train_first_batch")
    return hn


TRAIN_CONFIGS = {
    "BatchNorm_train": (lambda: TR.BatchNorm(2), (3, 2), ("forward",)),
    "ActNorm_train_first_batch": (lambda: TR.ActNorm(2), (3, 2), ("forward",)),
    "SimpleRealNVP_bn_train": (lambda: SimpleRealNVP(2, 2, num_layers=1, num_blocks_per_layer=1, batch_norm_between_layers=True), (3, 2), ("log_prob",)),
}


def grad_harnesses(tier):
    return [grad_harness(n) for n in CONFIGS if any(m in ("forward", "inverse", "log_prob", "log_prob_ctx") for m in CONFIGS[n][2])] + \
           [grad_harness(n, train=True) for n in TRAIN_CONFIGS]
