"""contracts for ActNorm / BatchNorm life-cycles (C14): every method of the alphabet {train, eval, forward, inverse, save+load} is executed
from a symbolic state (both values of every flag) and must equal the transition of the documented reference model; lock-step agreement
for every history follows by induction over calls."""
import itertools
import numpy as np
import torch, z3
from tsv.core import Sym, P, C, toreal, rv
from tsv.harness import Harness
from .common import *
from .cache import symbolise
from nflows.transforms.normalization import ActNorm, BatchNorm
from nflows.transforms.base import InverseNotAvailable


def _sum(ts):
    tot = rv(0)
    for t in ts: tot = tot + t
    return tot


def actnorm_harness(op, training, initialized, shape):
    D = shape[1]

    def run(h, ctx):
        t = ActNorm(D)
        symbolise(h, t)
        t.train(training)
        t.initialized.data = torch.tensor(bool(initialized), dtype=torch.bool)
        h.t = t
        h.pre = (P(t.log_scale).copy(), P(t.shift).copy())
        x = h.inp("x", shape)
        # precondition of the data-dependent initialisation: at least two items and non-zero variance per feature / channel
        px = P(x)
        cols = np.moveaxis(px, 1, 0).reshape(D, -1)
        for j in range(D):
            n = cols.shape[1]
            mu = _sum(cols[j]) / n
            ctx.assume(_sum([(v - mu) * (v - mu) for v in cols[j]]) > 0)
        if op == "forward":
            return t.forward(x)
        if op == "inverse":
            return t.inverse(x)
        if op == "save_load":
            sd = t.state_dict()
            t2 = ActNorm(D)
            t2.load_state_dict(sd)
            h.t2 = t2
            return None
        if op == "train": t.train(); return None
        if op == "eval": t.eval(); return None

    def post(h, ctx, value):
        t = h.t
        pre_ls, pre_sh = h.pre
        should_init = (op == "forward") and training and not initialized
        now_init = bool(t.initialized)
        ensure(h, ctx, "C14.actnorm.initialized-flag", z3.BoolVal(now_init == (initialized or should_init)), meta={"now": now_init})
        same = all(z3.eq(a, b) for a, b in zip(P(t.log_scale), pre_ls)) and all(z3.eq(a, b) for a, b in zip(P(t.shift), pre_sh))
        if not should_init:
            ensure(h, ctx, "C14.actnorm.parameters-untouched", z3.BoolVal(bool(same)))
        px = P(h.inputs["x"])
        if op in ("forward", "inverse"):
            out, ld = value
            po = P(out)
            ls, sh = P(t.log_scale), P(t.shift)
            cols_x = np.moveaxis(px, 1, 0).reshape(D, -1); cols_o = np.moveaxis(po, 1, 0).reshape(D, -1)
            hw = int(np.prod(shape[2:])) if len(shape) > 2 else 1
            for j in range(D):
                n = cols_x.shape[1]
                if should_init:
                    # the initialising batch comes out with zero mean and unit (unbiased) variance per feature / channel
                    ensure(h, ctx, "C14.actnorm.init-zero-mean", _sum(cols_o[j]) == 0)
                    ensure(h, ctx, "C14.actnorm.init-unit-variance", _sum([v * v for v in cols_o[j]]) == n - 1)
                for k in range(n):
                    from tsv.ops import s_exp
                    e = s_exp(toreal(ls[j]))
                    if op == "forward":
                        ensure(h, ctx, "C14.actnorm.forward-map", cols_o[j][k] == e * cols_x[j][k] + sh[j])
                    else:
                        ensure(h, ctx, "C14.actnorm.inverse-map", cols_o[j][k] * e == cols_x[j][k] - sh[j])
            for b in range(shape[0]):
                want = hw * _sum([toreal(v) for v in ls])
                ensure(h, ctx, "C14.actnorm.logdet", P(ld)[b] == (want if op == "forward" else -want))
        if op == "save_load":
            t2 = h.t2
            ensure(h, ctx, "C14.actnorm.flag-travels-in-state-dict", z3.BoolVal("initialized" in t.state_dict() and bool(t2.initialized) == bool(initialized)))
            ensure(h, ctx, "C14.actnorm.parameters-travel", z3.BoolVal(all(z3.eq(a, b) for a, b in zip(P(t2.log_scale), pre_ls)) and all(z3.eq(a, b) for a, b in zip(P(t2.shift), pre_sh))))
        if op in ("train", "eval"):
            ensure(h, ctx, "C14.actnorm.mode", z3.BoolVal(t.training == (op == "train")))

    def native_call(h, inp):
        t = ActNorm(D)
        with torch.no_grad():
            t.log_scale.copy_(torch.tensor(np.asarray(inp["p:log_scale"]), dtype=torch.float32)); t.shift.copy_(torch.tensor(np.asarray(inp["p:shift"]), dtype=torch.float32))
        t = t.double(); t.train(training); t.initialized.data = torch.tensor(bool(initialized))
        x = torch.tensor(np.asarray(inp["x"]), dtype=torch.float64)
        pre = (t.log_scale.detach().clone(), t.shift.detach().clone())
        res = None
        if op == "forward": res = t.forward(x)
        elif op == "inverse": res = t.inverse(x)
        elif op == "save_load":
            t2 = ActNorm(D).double(); t2.load_state_dict(t.state_dict()); res = t2
        elif op == "train": t.train()
        elif op == "eval": t.eval()
        return t, pre, res, x

    def native_clauses(h, inp, r):
        t, pre, res, x = r
        should_init = (op == "forward") and training and not initialized
        c = {"C14.actnorm.initialized-flag": bool(t.initialized) == (initialized or should_init)}
        if not should_init:
            c["C14.actnorm.parameters-untouched"] = bool(torch.equal(t.log_scale, pre[0]) and torch.equal(t.shift, pre[1]))
        if op in ("forward", "inverse"):
            out, ld = res
            sc = t.scale.view(1, -1, *([1] * (x.dim() - 2))); sh = t.shift.view(1, -1, *([1] * (x.dim() - 2)))
            hw = int(np.prod(shape[2:])) if len(shape) > 2 else 1
            if op == "forward":
                c["C14.actnorm.forward-map"] = bool(torch.allclose(out, sc * x + sh, atol=1e-9))
                c["C14.actnorm.logdet"] = bool(torch.allclose(ld, hw * t.log_scale.sum() * torch.ones_like(ld), atol=1e-9))
                if should_init:
                    flat = out.transpose(0, 1).reshape(D, -1)
                    c["C14.actnorm.init-zero-mean"] = bool(torch.allclose(flat.mean(1), torch.zeros(D, dtype=flat.dtype), atol=1e-7))
                    c["C14.actnorm.init-unit-variance"] = bool(torch.allclose(flat.var(1), torch.ones(D, dtype=flat.dtype), atol=1e-6))
            else:
                c["C14.actnorm.inverse-map"] = bool(torch.allclose(out * sc, x - sh, atol=1e-9))
                c["C14.actnorm.logdet"] = bool(torch.allclose(ld, -hw * t.log_scale.sum() * torch.ones_like(ld), atol=1e-9))
        if op == "save_load":
            c["C14.actnorm.flag-travels-in-state-dict"] = bool(res.initialized) == bool(initialized)
            c["C14.actnorm.parameters-travel"] = bool(torch.equal(res.log_scale, pre[0]))
        return c

    def sample(h, rng):
        return {"x": rng.normal(size=shape) * 2 + 1, "p:log_scale": rng.normal(size=(D,)) * 0.3, "p:shift": rng.normal(size=(D,))}
    hn = Harness(f"ActNorm[op={op},training={training},initialized={initialized},shape={'x'.join(map(str, shape))}]", run, post, native_call=native_call,
                 native_clauses=native_clauses, sample=sample, functions=[ActNorm.forward, ActNorm.inverse, ActNorm._initialize, ActNorm._broadcastable_scale_shift, ActNorm.__init__],
                 config={"op": op, "training": training, "initialized": initialized, "shape": list(shape)})
    hn.native_float32 = False
    return hn


def actnorm_history_harness(first, shape):
    """two-step histories from the CONSTRUCTOR state (guards against hidden state that the abstract pre-states do not represent):
    <first> in {eval_forward, inverse, save_load}, then the first training-mode forward, which must initialise"""
    D = shape[1]

    def run(h, ctx):
        t = ActNorm(D)
        x0 = h.inp("x0", shape); x = h.inp("x", shape)
        cols = np.moveaxis(P(x), 1, 0).reshape(D, -1)
        for j in range(D):
            n = cols.shape[1]; mu = _sum(cols[j]) / n
            ctx.assume(_sum([(v - mu) * (v - mu) for v in cols[j]]) > 0)
        if first == "eval_forward":
            t.eval(); t.forward(x0)
        elif first == "inverse":
            t.train(); t.inverse(x0)
        elif first == "save_load":
            t2 = ActNorm(D); t2.load_state_dict(t.state_dict()); t = t2
        untouched = not bool(t.initialized)
        t.train()
        out, ld = t.forward(x)
        h.t = t
        return out, untouched

    def post(h, ctx, value):
        out, untouched = value
        ensure(h, ctx, "C14.actnorm.not-initialised-before-first-training-forward", z3.BoolVal(bool(untouched)))
        ensure(h, ctx, "C14.actnorm.initialized-flag", z3.BoolVal(bool(h.t.initialized)))
        cols_o = np.moveaxis(P(out), 1, 0).reshape(D, -1)
        for j in range(D):
            n = cols_o.shape[1]
            ensure(h, ctx, "C14.actnorm.init-zero-mean", _sum(cols_o[j]) == 0)
            ensure(h, ctx, "C14.actnorm.init-unit-variance", _sum([v * v for v in cols_o[j]]) == n - 1)

    def native_call(h, inp):
        t = ActNorm(D).double()
        x0 = torch.tensor(np.asarray(inp["x0"])); x = torch.tensor(np.asarray(inp["x"]))
        if first == "eval_forward": t.eval(); t.forward(x0)
        elif first == "inverse": t.train(); t.inverse(x0)
        elif first == "save_load":
            t2 = ActNorm(D).double(); t2.load_state_dict(t.state_dict()); t = t2
        t.train()
        out, ld = t.forward(x)
        return t, out

    def native_clauses(h, inp, r):
        t, out = r
        flat = out.transpose(0, 1).reshape(D, -1)
        return {"C14.actnorm.initialized-flag": bool(t.initialized), "C14.actnorm.init-zero-mean": bool(torch.allclose(flat.mean(1), torch.zeros(D, dtype=flat.dtype), atol=1e-7)),
                "C14.actnorm.init-unit-variance": bool(torch.allclose(flat.var(1), torch.ones(D, dtype=flat.dtype), atol=1e-6))}
    hn = Harness(f"ActNorm_history[{first},then_training_forward,shape={'x'.join(map(str, shape))}]", run, post, native_call=native_call, native_clauses=native_clauses,
                 sample=lambda h, rng: {"x0": rng.normal(size=shape), "x": rng.normal(size=shape) * 2 + 1}, functions=[ActNorm.forward, ActNorm._initialize, ActNorm.__init__])
    hn.native_float32 = False
    return hn


def batchnorm_harness(op, training, B):
    D = 2

    def run(h, ctx):
        t = BatchNorm(D)
        symbolise(h, t)
        rm = h.inp("b:running_mean", (D,), owner="buffer"); rvv = h.inp("b:running_var", (D,), owner="buffer")
        t._buffers["running_mean"] = rm; t._buffers["running_var"] = rvv
        for v in P(rvv): ctx.assume(v >= 0)
        t.train(training)
        h.t = t
        h.pre = (P(rm).copy(), P(rvv).copy())
        x = h.inp("x", (B, D))
        if op == "forward": return t.forward(x)
        if op == "inverse": return t.inverse(x)
        if op == "save_load":
            t2 = BatchNorm(D); t2.load_state_dict(t.state_dict()); h.t2 = t2
            return None

    def post(h, ctx, value):
        t = h.t
        pre_rm, pre_rv = h.pre
        px = P(h.inputs["x"])
        mom, eps = rv(t.momentum), rv(t.eps)
        rm, rvv = P(t.running_mean), P(t.running_var)
        if op == "forward" and training:
            for j in range(D):
                mean = _sum(px[:, j]) / B
                var = _sum([(v - mean) * (v - mean) for v in px[:, j]]) / (B - 1)
                ensure(h, ctx, "C14.batchnorm.momentum-update-mean", rm[j] == (1 - mom) * pre_rm[j] + mom * mean)
                ensure(h, ctx, "C14.batchnorm.momentum-update-var", rvv[j] == (1 - mom) * pre_rv[j] + mom * var)
        else:
            same = all(z3.eq(a, b) for a, b in zip(rm, pre_rm)) and all(z3.eq(a, b) for a, b in zip(rvv, pre_rv))
            ensure(h, ctx, "C14.batchnorm.running-statistics-untouched", z3.BoolVal(bool(same)))
        if op == "forward":
            out, ld = value
            w = P(t.weight); bias = P(t.bias)
            for j in range(D):
                if training:
                    mean = _sum(px[:, j]) / B
                    var = _sum([(v - mean) * (v - mean) for v in px[:, j]]) / (B - 1)
                else:
                    mean, var = pre_rm[j], pre_rv[j]
                for b in range(B):
                    o = P(out)[b, j]
                    # out = w (x - mean)/sqrt(var + eps) + bias   <=>   (out - bias)^2 (var + eps) = w^2 (x - mean)^2  and signs agree
                    ensure(h, ctx, "C14.batchnorm.uses-" + ("batch" if training else "running") + "-statistics",
                           z3.And((o - bias[j]) * (o - bias[j]) * (var + eps) == w[j] * w[j] * (px[b, j] - mean) * (px[b, j] - mean),
                                  (o - bias[j]) * (px[b, j] - mean) >= 0))
        if op == "save_load":
            t2 = h.t2
            ensure(h, ctx, "C14.batchnorm.statistics-travel-in-state-dict", z3.BoolVal(all(z3.eq(a, b) for a, b in zip(P(t2.running_mean), pre_rm)) and
                                                                                       all(z3.eq(a, b) for a, b in zip(P(t2.running_var), pre_rv))))

    def inv_cond(h, ctx):
        return z3.BoolVal(bool(op == "inverse" and training))

    def native_call(h, inp):
        t = BatchNorm(D).double()
        with torch.no_grad():
            t.running_mean.copy_(torch.tensor(np.asarray(inp["b:running_mean"]))); t.running_var.copy_(torch.tensor(np.asarray(inp["b:running_var"])))
        t.train(training)
        x = torch.tensor(np.asarray(inp["x"]), dtype=torch.float64)
        pre = (t.running_mean.clone(), t.running_var.clone())
        res = t.forward(x) if op == "forward" else (t.inverse(x) if op == "inverse" else None)
        return t, pre, res, x

    def native_clauses(h, inp, r):
        t, pre, res, x = r
        c = {}
        if op == "forward" and training:
            c["C14.batchnorm.momentum-update-mean"] = bool(torch.allclose(t.running_mean, 0.9 * pre[0] + 0.1 * x.mean(0), atol=1e-9))
            c["C14.batchnorm.momentum-update-var"] = bool(torch.allclose(t.running_var, 0.9 * pre[1] + 0.1 * x.var(0), atol=1e-9))
        else:
            c["C14.batchnorm.running-statistics-untouched"] = bool(torch.equal(t.running_mean, pre[0]) and torch.equal(t.running_var, pre[1]))
        if op == "forward":
            mean, var = (x.mean(0), x.var(0)) if training else pre
            want = t.weight * (x - mean) / torch.sqrt(var + t.eps) + t.bias
            c["C14.batchnorm.uses-" + ("batch" if training else "running") + "-statistics"] = bool(torch.allclose(res[0], want, atol=1e-8))
        return c

    def sample(h, rng):
        return {"x": rng.normal(size=(B, D)) * 2 + 1, "b:running_mean": rng.normal(size=(D,)), "b:running_var": np.abs(rng.normal(size=(D,))) + 0.1}
    hn = Harness(f"BatchNorm[op={op},training={training},B={B}]", run, post, raises={InverseNotAvailable: inv_cond}, native_call=native_call, native_clauses=native_clauses,
                 native_raises={InverseNotAvailable: lambda h, inp: bool(op == "inverse" and training)}, sample=sample,
                 functions=[BatchNorm.forward, BatchNorm.inverse, BatchNorm.__init__], config={"op": op, "training": training, "B": B})
    hn.native_float32 = False
    return hn


def batchnorm_history_harness(seq):
    """histories from the CONSTRUCTOR state ending in inverse(): offered (and returning) exactly when the layer is in evaluation mode, whatever
    happened before - guards against hidden state that the one-step pre-states (parameters, buffers, mode) do not represent"""
    D, B = 2, 3
    ends_training = [s_ for s_ in seq if s_ in ("train", "eval", "train_forward")][-1] != "eval"

    def play(t, x0, x):
        for s_ in seq[:-1]:
            if s_ == "train_forward": t.train(); t.forward(x0)
            elif s_ == "eval_forward": t.eval(); t.forward(x0)
            elif s_ == "eval": t.eval()
            elif s_ == "train": t.train()
        return t.inverse(x)

    def run(h, ctx):
        t = BatchNorm(D)
        x0 = h.inp("x0", (B, D)); x = h.inp("x", (B, D))
        h.t = t
        return play(t, x0, x)

    def post(h, ctx, value):
        out, ld = value
        ensure(h, ctx, "C14.batchnorm.inverse-shapes", z3.BoolVal(tuple(P(out).shape) == (B, D) and tuple(P(ld).shape) == (B,)))

    def native_call(h, inp):
        t = BatchNorm(D).double()
        return play(t, torch.tensor(np.asarray(inp["x0"])), torch.tensor(np.asarray(inp["x"])))
    hn = Harness(f"BatchNorm_history[{'>'.join(seq)}]", run, post, raises={InverseNotAvailable: lambda h, ctx: z3.BoolVal(ends_training)}, native_call=native_call,
                 native_clauses=lambda h, inp, r: {"C14.batchnorm.inverse-shapes": tuple(r[0].shape) == (B, D)},
                 native_raises={InverseNotAvailable: lambda h, inp: ends_training}, sample=lambda h, rng: {"x0": rng.normal(size=(B, D)), "x": rng.normal(size=(B, D))},
                 functions=[BatchNorm.forward, BatchNorm.inverse, BatchNorm.__init__])
    hn.native_float32 = False
    return hn


def norm_harnesses(tier):
    hs = []
    shapes = [(2, 2), (3, 1), (2, 2, 1, 2)] if tier == "quick" else [(2, 2), (3, 2), (4, 1), (2, 2, 1, 2), (2, 1, 2, 2), (3, 2, 1, 1)]
    for op in ("forward", "inverse", "save_load", "train", "eval"):
        for training, initialized in itertools.product([True, False], repeat=2):
            for shape in (shapes if op in ("forward", "inverse") else shapes[:1]):
                hs.append(actnorm_harness(op, training, initialized, shape))
    for first in ("eval_forward", "inverse", "save_load"):
        for shape in shapes[:1] + shapes[2:3]:
            hs.append(actnorm_history_harness(first, shape))
    for op in ("forward", "inverse", "save_load"):
        for training in (True, False):
            for B in ((2, 3) if op == "forward" else (2,)):
                hs.append(batchnorm_harness(op, training, B))
    for seq in (("train_forward", "inverse"), ("train_forward", "eval", "train", "inverse"), ("train_forward", "eval", "inverse"), ("eval_forward", "train", "inverse"),
                ("train_forward", "train_forward", "inverse")):
        hs.append(batchnorm_history_harness(seq))
    return hs
