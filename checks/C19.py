import torch
from tsv.driver import run_check
from .allharness import transforms
from contracts.dtypes import dtype_harnesses


def run(tier, seed, update_ledger=False, only=None, jobs=None):
    hs = transforms({"C19"}, tier, dtype=torch.float64) + transforms({"C19"}, tier) + dtype_harnesses(tier)
    hs = [h for h in hs if not only or only in h.hid]
    return run_check("C19", hs, tier=tier, seed=seed, update_ledger=update_ledger, jobs=jobs, level="other",
                     explanation=("PARTIAL claim. Decided by contracts: with a .double() model and float64 inputs (and with float32), no path raises a dtype error "
                                  "(same-dtype rule at every matmul-family op, dtypes computed by real torch meta inference) and every returned tensor carries the dtype of the "
                                  "inputs. NOT decided by this family: numerical agreement of float32 with float64 (floating-point error analysis); the singularities that "
                                  "make float32 blow up are covered over the reals by C02 / C17."),
                     unbounded_in=["all values"], bounded_in={"classes": "elementwise transform classes; coupling, autoregressive, linear family, permutations, squeeze, composite, CDF, BatchNorm; StandardNormal, ConditionalDiagonalNormal; MaskedAutoregressiveFlow, SimpleRealNVP (log_prob, sample, sample_and_log_prob, transform_to_noise)"},
                     not_decided=["closeness of float32 and float64 results (floating-point error analysis is outside contract-based deductive verification over the reals)",
                                  "UMNN transforms and the MADE mixture are not under the dtype contract"],
                     assumptions=["result dtypes are computed by calling the real torch op on meta tensors; matmul-family ops get an explicit same-dtype rule (torch on CPU raises there)"])
