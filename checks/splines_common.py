"""harness sets for the spline part of C01 / C02 / C09 / C17 (+ wrappers for C12 / C13)"""
from contracts.splines import FAMILIES, spline_harness, unconstrained_harness, cdf_harnesses, QUADRATIC_TAILS_PARAM

NOT_DECIDED_CUBIC_INVERSE = ("cubic_spline(inverse=True): the trigonometric three-real-roots branch (atan2/cos/sin + argsort root selection) is outside nonlinear real "
                             "arithmetic: its result is ASSUMED to be a root of the bin's cubic inside the bin (listed assumption, never counted as proved); "
                             "0 < |a| < quadratic_threshold is the implementation's declared approximation and is excluded; the one-real-root (Cardano) and "
                             "a == 0 (fallback) branches are proved")


def Ks(tier, fam):
    if tier == "quick":
        return (1, 2, 3)
    return (1, 2, 3, 4, 5, 8)


def spline_harnesses(props, tier, wrappers=True, directions=(False, True)):
    hs = []
    for name, fam in FAMILIES.items():
        for K in Ks(tier, name):
            for inv in directions:
                if name == "cubic" and inv and K > (2 if tier == "quick" else 5):
                    continue          # cubic inverse: branch analysis with Cardano / fallback / assumed trig branch; bins bounded for run time
                if name == "quadratic" and K == 1 and False:
                    continue
                hs.append(spline_harness(fam, K, inv, props))
    # non-default, unequal floors (the defaults make min_bin_width == min_bin_height, which hides a confusion of the two)
    for inv in directions:
        for name, kw in (("quadratic", dict(min_bin_width=0.02, min_bin_height=0.05)), ("cubic", dict(min_bin_width=0.02, min_bin_height=0.05)),
                         ("rq", dict(min_bin_width=0.02, min_bin_height=0.05, min_derivative=0.01))):
            if name == "cubic" and inv:
                continue
            hs.append(spline_harness(FAMILIES[name], 2, inv, props, tag=",floors", **kw))
            if tier != "quick":
                hs.append(spline_harness(FAMILIES[name], 3, inv, props, tag=",floors", **kw))
    # floors that cannot be honoured must be refused (ValueError), each of the two separately
    if "C09" in props or "C17" in props:
        for name in ("quadratic", "cubic", "rq"):
            hs.append(spline_harness(FAMILIES[name], 2, False, props, tag=",height-floor-infeasible", infeasible_floors=True, min_bin_width=0.01, min_bin_height=0.6))
            hs.append(spline_harness(FAMILIES[name], 2, False, props, tag=",width-floor-infeasible", infeasible_floors=True, min_bin_width=0.6, min_bin_height=0.01))
    for inv in directions:
        hs.append(spline_harness(FAMILIES["rq"], 2, inv, props, tag=",ident", enable_identity_init=True))
        for K in (1, 2, 3):
            hs.append(spline_harness(QUADRATIC_TAILS_PARAM, K, inv, props))
    if wrappers:
        for name in FAMILIES:
            for K in ((2, 3) if tier == "quick" else (2, 3, 5)):
                for inv in directions:
                    hs.append(unconstrained_harness(name, K, inv, props))
    if wrappers:
        hs += cdf_harnesses(props, tier, directions)
    return hs
