"""harness sets for the spline properties"""
from contracts import rq


def spline_harnesses(props, tier):
    Ks = (1, 2, 3) if tier == "quick" else (1, 2, 3, 4, 5, 8)
    hs = []
    for K in Ks:
        for inv in (False, True):
            hs.append(rq.rq_spline_harness(K, inv, props))
    hs.append(rq.rq_spline_harness(2, False, props, identity_init=True))
    hs.append(rq.rq_spline_harness(2, True, props, identity_init=True))
    return hs
