from tsv.driver import run_check
from .splines_common import spline_harnesses, NOT_DECIDED_CUBIC_INVERSE
from . import extra_C17


def run(tier, seed, update_ledger=False, only=None, jobs=None):
    hs = spline_harnesses({"C17"}, tier) + extra_C17.harnesses(tier)
    hs = [h for h in hs if not only or only in h.hid]
    return run_check("C17", hs, tier=tier, seed=seed, update_ledger=update_ledger, jobs=jobs, **extra_C17.META)
