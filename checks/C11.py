from tsv.driver import run_check
from contracts.linearfam import linear_harnesses, constructor_grid_harness


def run(tier, seed, update_ledger=False, only=None, jobs=None):
    hs = linear_harnesses(tier) + [constructor_grid_harness(tier)]
    hs = [h for h in hs if not only or only in h.hid]
    return run_check("C11", hs, tier=tier, seed=seed, update_ledger=update_ledger, jobs=jobs,
                     unbounded_in=["all parameter values (under the stated non-degeneracy preconditions)", "all inputs"],
                     bounded_in={"features": "1..2 quick / 1..3 thorough (LULinear 1..4)", "householder count": "1..2 quick; thorough also Householder products (D,K) = (3,3), (4,2), (5,2) (ring tactic); longer products exceed the ring time limit and are not claimed; constructor grid up to 7 / 10",
                                 "constructor grid": "features <= 3 (4), num_householder <= 7 (10): bounded enumeration of configurations, evaluated natively"},
                     assumptions=["torch.slogdet / torch.inverse / torch.lu / torch.lu_solve contracts (determinant by cofactors, adjugate inverse)",
                                  "precondition of the Householder product: no reflection vector is zero; of NaiveLinear: det(weight) != 0",
                                  "the constructor grid is a bounded enumeration evaluated with concrete initial values, not a proof"])
