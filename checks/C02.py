from tsv.driver import run_check
from .splines_common import spline_harnesses, NOT_DECIDED_CUBIC_INVERSE
from . import extra_C02


def run(tier, seed, update_ledger=False, only=None, jobs=None):
    hs = spline_harnesses({"C02"}, tier) + extra_C02.harnesses(tier)
    hs = [h for h in hs if not only or only in h.hid]
    return run_check("C02", hs, tier=tier, seed=seed, update_ledger=update_ledger, jobs=jobs, **extra_C02.META)
