from tsv.driver import run_check
from .allharness import everything
from contracts.movement import movement_harnesses
from contracts.composite import composite_harnesses
from contracts.utils import utils_harnesses


def run(tier, seed, update_ledger=False, only=None, jobs=None):
    hs = everything({"C13"}, tier) + movement_harnesses(tier) + composite_harnesses(tier)
    hs = [h for h in hs if not only or only in h.hid]
    return run_check("C13", hs, tier=tier, seed=seed, update_ledger=update_ledger, jobs=jobs,
                     unbounded_in=["all values; arguments that are views (ownership is tracked per base storage)"],
                     bounded_in={"shapes": "as in the per-class contracts"},
                     not_decided=["sampling frames are claimed for sample(1, context) and sample(2, context) of the flow / distribution harnesses only", "training-mode statistics updates are the subject of C14"],
                     assumptions=["frame condition from the write log of the symbolic execution: every in-place op records the owner of the written storage (argument / parameter / buffer / fresh)",
                                  "user-supplied conditioners return fresh tensors (the in-place '/= sqrt(hidden_features)' on a view of the conditioner output relies on it)"])
