from tsv.driver import run_check
from contracts.cache import cache_harnesses


def run(tier, seed, update_ledger=False, only=None, jobs=None):
    hs = [h for h in cache_harnesses(tier) if not only or only in h.hid]
    return run_check("C10", hs, tier=tier, seed=seed, update_ledger=update_ledger, jobs=jobs,
                     unbounded_in=["history length (class invariant, induction over calls)", "all parameter and input values"],
                     bounded_in={"features": "D = 2", "classes": "Stub (base-class logic), LULinear, OneByOneConvolution, QRLinear, SVDLinear (orthogonal factors seen through the Householder contract), NaiveLinear (log-abs-det equalities through |prod diag(LU)| = |det W|)"},
                     assumptions=["nn.Module protocol: train(), load_state_dict(), _apply() call the overridable hooks the real classes define; optimiser steps update parameters in place and only in training mode",
                                  "accessors of the stub class are uninterpreted functions of the parameters (their mutual agreement is C11)"])
