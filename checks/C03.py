from tsv.driver import run_check
from contracts.distr import flow_logprob_harnesses, normal_harness
from contracts.splines import FAMILIES, spline_harness, unconstrained_harness
from contracts.modules import transform_harness
from contracts.elementwise import SPECS


def run(tier, seed, update_ledger=False, only=None, jobs=None):
    # (i) Flow._log_prob is exactly base density of the transformed point + log-abs-det
    hs = flow_logprob_harnesses(tier)
    # (ii) premises of the change-of-variables theorem, re-discharged here on a small configuration each:
    #      bounded transformers map their interval onto the full target interval (end-points pinned, increasing, in range), identity tails (onto the line),
    #      correct log-det, normalised base density.  The full-strength versions are C01 / C02 / C05 / C09.
    for name, fam in FAMILIES.items():
        hs.append(spline_harness(fam, 2, False, {"C09", "C01"}))
        hs.append(unconstrained_harness(name, 2, False, {"C09", "C01"}))
    hs.append(normal_harness("StandardNormal", [2]))
    for n in ("Sigmoid", "Tanh", "Exp", "PointwiseAffine"):
        hs.append(transform_harness(SPECS[n], "forward", {"C01"}))
    hs = [h for h in hs if not only or only in h.hid]
    return run_check("C03", hs, tier=tier, seed=seed, update_ledger=update_ledger, jobs=jobs,
                     unbounded_in=["all inputs, contexts, transforms (uninterpreted row-wise) and embedding nets in the structure clause", "all values in the premise contracts"],
                     bounded_in={"premise configurations": "num_bins = 2 per spline family; four elementwise transforms; event shape [2]"},
                     not_decided=["the integral itself is not computed: normalisation is the conclusion of the change-of-variables theorem (trusted lemma 4e) from the proved premises",
                                  "assembly condition range(transform) = support(base) is a precondition on how a flow is assembled, not something the library checks"],
                     assumptions=["change of variables for densities under a C1 bijection (lemma 4e)", "a continuous strictly increasing map with pinned end-points is onto its target interval (lemma 4d)",
                                  "the Gaussian closed form is normalised (lemma 4g)"])
