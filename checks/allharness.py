"""harness sets shared by the cross-cutting properties C12 (row independence), C13 (frames), C19 (dtype contracts)"""
from contracts.modules import transform_harness
from contracts.elementwise import SPECS
from contracts.coupling import coupling_harnesses
from contracts.splines import FAMILIES, unconstrained_harness, cdf_harnesses
from contracts.autoreg import autoreg_harnesses
from contracts.linearfam import linear_harnesses
from contracts.movement import movement_harnesses
from contracts.nets import nets_harnesses
from contracts.composite import composite_harnesses
from contracts.dtypes import rows_harnesses


def transforms(props, tier, dtype=None):
    hs = []
    for n, s in SPECS.items():
        for mode in ("forward", "inverse"):
            hs.append(transform_harness(s, mode, props, dtype=dtype))
    return hs


def everything(props, tier):
    hs = transforms(props, tier)
    hs += coupling_harnesses(props, tier)
    for name in FAMILIES:
        for inv in (False, True):
            hs.append(unconstrained_harness(name, 2, inv, props))
    hs += cdf_harnesses(props, tier)
    hs += autoreg_harnesses(tier, modes=("forward",))
    hs += linear_harnesses(tier, modes=("forward",))
    hs += nets_harnesses(tier)
    hs += rows_harnesses(tier)
    if "C12" in props:
        hs += movement_harnesses(tier)       # squeeze, permutations, 1x1 convolution (batch of two images)
    return hs
