from tsv.driver import run_check
from .allharness import everything


def run(tier, seed, update_ledger=False, only=None, jobs=None):
    hs = [h for h in everything({"C12"}, tier) if not only or only in h.hid]
    return run_check("C12", hs, tier=tier, seed=seed, update_ledger=update_ledger, jobs=jobs,
                     unbounded_in=["all values of inputs, contexts and parameters"],
                     bounded_in={"batch size": "B = 2 (B = 1 is the same code path; elementwise kernels are covered for every B by leading-shape polymorphism)"},
                     not_decided=["training-mode batch statistics are outside this property"],
                     assumptions=["row b of every result mentions only symbols of row b of the inputs and of the context (syntactic non-interference on the symbolic execution of the real code)",
                                  "user-supplied conditioners are row-wise; the library's own networks (ResidualNet, MLP, ConvResidualNet in eval mode) are checked here"])
