from tsv.driver import run_check
from contracts.modules import transform_harness
from contracts.elementwise import SPECS
from contracts.dtypes import grad_harnesses


def run(tier, seed, update_ledger=False, only=None, jobs=None):
    hs = [transform_harness(s, m, {"C16"}) for s in SPECS.values() for m in ("forward", "inverse")] + grad_harnesses(tier)
    hs = [h for h in hs if not only or only in h.hid]
    return run_check("C16", hs, tier=tier, seed=seed, update_ledger=update_ledger, jobs=jobs, level="other",
                     explanation=("PARTIAL claim (connectivity only). Decided by contracts: for every result tensor of forward / inverse, every leaf (input, context, trainable "
                                  "parameter) on which the VALUE depends (its symbols occur in the result terms) is also reachable through differentiable ops (ghost gradset), "
                                  "i.e. no detach / .data / no_grad / .item() severs all gradient paths; and every partial operation is defined on the path (finite values). "
                                  "NOT decided: that the gradients autograd returns equal the true derivatives (torch.autograd is external and assumed), the finite-difference clause."),
                     unbounded_in=["all values"], bounded_in={"classes": "elementwise transform classes; coupling and autoregressive transforms with their real conditioner networks, linear family, permutations, squeeze, composite, CDF, BatchNorm, two flows and two distributions (forward / inverse / log_prob / transform_to_noise)"},
                     not_decided=["numerical correctness of autograd's gradients (external code)", "UMNN transforms (custom autograd function) are not under the connectivity contract"],
                     assumptions=["torch.autograd computes the true derivative of a composition of differentiable ops"])
