from tsv.driver import run_check
from contracts.distr import pairing_harnesses


def run(tier, seed, update_ledger=False, only=None, jobs=None):
    hs = [h for h in pairing_harnesses(tier) if not only or only in h.hid]
    return run_check("C04", hs, tier=tier, seed=seed, update_ledger=update_ledger, jobs=jobs,
                     unbounded_in=["all noise values, context values", "all transforms (uninterpreted row-wise bijection with the C02 contract)", "all embedding networks (uninterpreted row-wise map)"],
                     bounded_in={"context rows": "0..2 (quick) / 0..3", "num_samples": "1,3 (quick) / 1..3", "batch_size path": "(rows, n, batch_size) in {(2,3,2), (0,3,2), (2,2,1)} quick; four more thorough"},
                     not_decided=["the statistical clause (empirical distribution of samples converges to the density): derived from randn ~ N(0,1) and the change-of-variables lemma, not tested"],
                     assumptions=["torch.randn draws are i.i.d. standard normal (external contract): which noise row is paired with which (context row, draw) is therefore immaterial as long as the pairing is injective",
                                  "the transform satisfies its C02 contract (inverse undoes forward, negated log-det), the base is StandardNormal (its closed form is C05)"])
