from tsv.driver import run_check
from contracts.distr import density_harnesses
from contracts.mog import mog_harnesses, kde_harnesses, mog_sample_harnesses
from contracts.boxuniform import boxuniform_harnesses


def run(tier, seed, update_ledger=False, only=None, jobs=None):
    hs = [h for h in density_harnesses(tier) + mog_harnesses(tier) + kde_harnesses(tier) + mog_sample_harnesses(tier) + boxuniform_harnesses(tier) if not only or only in h.hid]
    return run_check("C05", hs, tier=tier, seed=seed, update_ledger=update_ledger, jobs=jobs,
                     unbounded_in=["all input, parameter and context values"],
                     bounded_in={"event shapes": "[2], [2,2], [1,2]", "Bernoulli dimension": "1, 2 (exact summation over {0,1}^D)"},
                     not_decided=["torch.distributions.Categorical inside MixtureOfGaussiansMADE.sample is an assumed contract (integer draws in range); BoxUniform runs through the real torch.distributions.Uniform / Independent code (pure Python over torch ops); outside the half-open box the log-density is -inf, which real-arithmetic terms cannot carry: that part, and the rejection sampler of LotkaVolterraOscillating (data-dependent number of iterations), are checked by a bounded native enumeration (uniform_priors_native, labelled bounded); MG1Uniform: outside its support torch raises by convention (excluded by the precondition noise-in-box); double-precision values raise a dtype error in the float32 shear constants (native replays in float32)",
                                  "'samples follow the density' is derived from the sampling-parameter clauses plus the RNG contract, not tested statistically"],
                     assumptions=["a product of normalised one-dimensional conditionals is a normalised joint density (lemma 4f)", "the textbook closed forms are normalised, and mu + sigma z with z ~ N(0,1) has the Gaussian density with that location and scale (lemma 4g)",
                                  "erf is uninterpreted: normaliser terms are compared through their arguments", "torch.randn / torch.rand are i.i.d. N(0,1) / U[0,1)"])
