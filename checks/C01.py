from tsv.driver import run_check
from .splines_common import spline_harnesses, NOT_DECIDED_CUBIC_INVERSE
from . import extra_C01


def run(tier, seed, update_ledger=False, only=None, jobs=None):
    hs = spline_harnesses({"C01"}, tier, directions=(False,)) + extra_C01.harnesses(tier)
    hs = [h for h in hs if not only or only in h.hid]
    return run_check("C01", hs, tier=tier, seed=seed, update_ledger=update_ledger, jobs=jobs, **extra_C01.META)
