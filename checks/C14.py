from tsv.driver import run_check
from contracts.norm import norm_harnesses


def run(tier, seed, update_ledger=False, only=None, jobs=None):
    hs = [h for h in norm_harnesses(tier) if not only or only in h.hid]
    return run_check("C14", hs, tier=tier, seed=seed, update_ledger=update_ledger, jobs=jobs,
                     unbounded_in=["history length (each method proved against the reference transition from every symbolic state; induction over calls)", "all batch and parameter values"],
                     bounded_in={"batch shapes": "[2,2], [3,1], [2,2,1,2] (quick); six shapes (thorough)", "features": "<= 2"},
                     assumptions=["precondition of ActNorm's data-dependent initialisation: the initialising batch has at least two items and non-zero variance per feature "
                                  "(with one item the unbiased standard deviation is undefined and 'unit variance' is unsatisfiable)",
                                  "nn.Module.state_dict / load_state_dict copy registered parameters and buffers (external contract, executed for real here)"])
