from tsv.driver import run_check
from contracts.composite import composite_harnesses


def run(tier, seed, update_ledger=False, only=None, jobs=None):
    hs = [h for h in composite_harnesses(tier) if not only or only in h.hid]
    return run_check("C08", hs, tier=tier, seed=seed, update_ledger=update_ledger, jobs=jobs,
                     unbounded_in=["all input values", "all stage functions (uninterpreted, with inverse and per-element log-det)"],
                     bounded_in={"number of stages": "0..3 (unrolled)", "multiscale shapes": "7 (quick) / 15 (thorough) shape x split_dim combinations, odd and even sizes", "nesting depth": "<= 3"},
                     assumptions=["stage transforms are elementwise bijections with per-element log-det (tagged uninterpreted functions): composition of arbitrary library transforms follows because the wrappers only call forward/inverse of their parts",
                                  "transform_output_shape given to add_transform is the true output shape of the stage (precondition of the class)"])
