from tsv.driver import run_check
from contracts.utils import utils_harnesses


def run(tier, seed, update_ledger=False, only=None, jobs=None):
    hs = [h for h in utils_harnesses(tier) if not only or only in h.hid]
    return run_check("C20", hs, tier=tier, seed=seed, update_ledger=update_ledger, jobs=jobs,
                     unbounded_in=["all tensor values", "multinomial draws of the random mask"],
                     bounded_in={"shapes": "<= 3 dims of size <= 3 (thorough), 5 shapes (quick)", "n / num_reps": "1..3 quick, 1..4 thorough",
                                 "mask features": "1..6 (1..3 random) quick; 1..8 (1..4 random) thorough", "searchsorted bins": "1..3 / 1..5"},
                     not_decided=["gaussian_kde_log_eval is under contract in C05 (density clause), not here; get_temperature: the legacy constructor torch.Tensor([scalar]) is not visible to TorchFunctionMode and enters as an assumed contract (one-element tensor holding the scalar), preconditions max_value > 0 and 0 < bound < 1",
                                  "cbrt at x = 0 is an IEEE-only point (log 0 = -inf): evaluated natively in the replay clause, excluded from the real-arithmetic contract"],
                     assumptions=["torch.slogdet returns (sign det, log|det|) (external contract)", "torch.multinomial(replacement=False) returns distinct in-range indices",
                                  "typechecks are pure Python predicates: decided by evaluation on a fixed value list, labelled bounded"])
