"""non-spline harnesses and evidence meta data of C09"""
from .splines_common import NOT_DECIDED_CUBIC_INVERSE

META = dict(
    unbounded_in=["input values", "all parameter values", "spline boxes / tail bounds", "leading (batch, feature) shape of the elementwise kernels"],
    bounded_in={"num_bins": "1..3 quick (cubic inverse 1..2); thorough 1..8 (all four families; cubic inverse 1..5); non-default unequal floors at 2 (3) bins"},
    not_decided=[NOT_DECIDED_CUBIC_INVERSE],
    assumptions=["cubic inverse: intermediate value theorem (lemma 4d) gives a solution inside the bin; sign of the cubic discriminant (lemma 4h): a negative Cardano discriminant means exactly one real root; the three-real-roots branch is assumed to return a root inside the bin"],
)


def harnesses(tier):
    return []
