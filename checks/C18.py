from tsv.driver import run_check
from contracts.distr import interface_harnesses, pairing_harnesses
from contracts.mog import mog_interface_harness


def run(tier, seed, update_ledger=False, only=None, jobs=None):
    hs = interface_harnesses(tier) + [mog_interface_harness()]
    hs = [h for h in hs if not only or only in h.hid]
    return run_check("C18", hs, tier=tier, seed=seed, update_ledger=update_ledger, jobs=jobs,
                     unbounded_in=["tensor values (shapes come from real torch meta inference, so they are exact for every value)"],
                     bounded_in={"num_samples": "1,2,3,5 (quick) / 1..6", "batch_size": "None,1,2,3 (quick) / None,1,2,3,4,7", "context rows": "0,1,3 (quick) / 0..3",
                                 "classes": "StandardNormal ([2],[2,2]), ConditionalDiagonalNormal, DiagonalNormal, ConditionalIndependentBernoulli, Flow (plain, embedding net, conditional base)"},
                     not_decided=["'batched generation does not change the distribution': follows from the i.i.d. contract of the random generator, not checked"],
                     assumptions=["the grid over integers is a bounded enumeration; each cell is an executed path of the real code on symbolic tensors"])
