from tsv.driver import run_check
from contracts.made import made_harnesses


def run(tier, seed, update_ledger=False, only=None, jobs=None):
    from tsv import dep  # noqa: activates the Dep ghost domain
    hs = [h for h in made_harnesses(tier) if not only or only in h.hid]
    return run_check("C06", hs, tier=tier, seed=seed, update_ledger=update_ledger, jobs=jobs,
                     unbounded_in=["all weight / bias values", "all inputs and contexts", "all random-mask (degree) draws"],
                     bounded_in={"architectures": "10 per copy (quick): D<=3, H<=4, blocks<=2, multiplier<=3; thorough: about 160 per copy sampled deterministically from D<=4 (5), H in {2,4,6}, blocks<=2, all boolean options"},
                     assumptions=["may-dependency abstraction (Dep domain): dependencies propagate through sums, products (only through possibly non-zero factors), "
                                  "elementwise nonlinearities, dropout and per-feature batch norm; sound over-approximation of functional dependence",
                                  "torch.randint returns integers in [low, high)"])
