"""./check <property> [--tier quick|thorough] [--update-ledger]   |   ./check --replay <file>"""
import sys, os, argparse, importlib, json, traceback


def main():
    ap = argparse.ArgumentParser()
    ap.add_argument("prop", nargs="?")
    ap.add_argument("--tier", default=os.environ.get("VERIF_TIER", "quick"))
    ap.add_argument("--update-ledger", action="store_true")
    ap.add_argument("--replay")
    ap.add_argument("--only", default=None, help="substring filter on harness ids (development)")
    ap.add_argument("--jobs", type=int, default=None)
    a = ap.parse_args()
    seed = int(os.environ.get("VERIF_SEED", "0") or 0)
    if a.replay:
        from checks import replay
        return replay.main(a.replay)
    if a.update_ledger:
        os.environ["TSV_SAVE_REFSRC"] = "1"        # record the reference sources of the instrumented functions (for rename recovery)
    try:
        from tsv import ops, ops_move  # noqa: registers op models
        from tsv import selftest
        selftest.run()
        mod = importlib.import_module("checks." + a.prop)
        return mod.run(a.tier, seed, update_ledger=a.update_ledger, only=a.only, jobs=a.jobs)
    except SystemExit:
        raise
    except Exception:
        traceback.print_exc()
        print(f"CRASH property={a.prop}")
        return 3


if __name__ == "__main__":
    sys.exit(main())
