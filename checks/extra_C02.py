"""non-spline harnesses and evidence meta data of C02"""
from .splines_common import NOT_DECIDED_CUBIC_INVERSE

META = dict(
    unbounded_in=["input values", "all parameter values", "spline boxes / tail bounds", "leading (batch, feature) shape of the elementwise kernels"],
    bounded_in={"num_bins": "1..3 quick (cubic inverse 1..2); thorough 1..8 (all four families; cubic inverse 1..5); non-default unequal floors at 2 (3) bins"},
    not_decided=[NOT_DECIDED_CUBIC_INVERSE],
    assumptions=["cubic inverse: intermediate value theorem (lemma 4d) gives a solution inside the bin; sign of the cubic discriminant (lemma 4h): a negative Cardano discriminant means exactly one real root; the three-real-roots branch is assumed to return a root inside the bin"],
)


def harnesses(tier):
    from contracts.autoreg import autoreg_harnesses
    hs_a = autoreg_harnesses(tier, modes=("if",))
    from contracts.movement import movement_harnesses
    hs_m = movement_harnesses(tier)
    from contracts.linearfam import linear_harnesses
    hs_l = linear_harnesses(tier, modes=("inverse_of_forward", "accessors"))
    from contracts.coupling import coupling_harnesses
    hs_c = coupling_harnesses({"C02"}, tier, modes=("if",))
    from contracts.modules import transform_harness
    from contracts.elementwise import SPECS, ROUNDTRIP
    return hs_a + hs_m + hs_l + hs_c + [transform_harness(SPECS[n], m, {"C02"}) for n in ROUNDTRIP for m in ("if", "fi")]
