from tsv.driver import run_check
from contracts.coupling import coupling_harnesses


def run(tier, seed, update_ledger=False, only=None, jobs=None):
    hs = [h for h in coupling_harnesses({"C07"}, tier) if not only or only in h.hid]
    return run_check("C07", hs, tier=tier, seed=seed, update_ledger=update_ledger, jobs=jobs,
                     unbounded_in=["all input values", "all conditioner functions (uninterpreted, per item)", "context values"],
                     bounded_in={"masks": "every non-trivial 0/1 pattern for D<=3 (Affine, PwRQTails) or a first/last pattern (other classes) in quick; all patterns for D<=3 for every class in thorough; plus numeric masks",
                                 "shapes": "[2,D] and [2,D,1,2]"},
                     assumptions=["the conditioner is a per-item function of what it is shown and returns a fresh tensor (stub StubNet); the library's own networks are checked for this in C12/C13",
                                  "piecewise couplings see the spline functions through their contracts (monotone elementwise maps with exp(ld) = derivative), proved on the bodies in C01/C02/C09",
                                  "a user-supplied scale_activation must be positive; the two predefined activations are executed"])
