from tsv.driver import run_check
from contracts.statedict import statedict_harnesses


def run(tier, seed, update_ledger=False, only=None, jobs=None):
    hs = [h for h in statedict_harnesses(tier) if not only or only in h.hid]
    return run_check("C15", hs, tier=tier, seed=seed, update_ledger=update_ledger, jobs=jobs,
                     unbounded_in=["all constructor-time random draws (each is a distinct fresh symbol in the two instances)", "all parameter values after training", "all inputs"],
                     bounded_in={"configurations": "21 class configurations with constructor randomness / mutable state; histories: fresh, after a training step, after data-dependent initialisation, saved BEFORE data-dependent initialisation"},
                     assumptions=["nn.Module.state_dict / load_state_dict copy exactly the registered parameters and persistent buffers (executed for real on symbolic tensors)",
                                  "identical result terms imply bit-identical results (the same deterministic op sequence on the same values)"])
