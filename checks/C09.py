from tsv.driver import run_check
from .splines_common import spline_harnesses


def run(tier, seed, update_ledger=False, only=None, jobs=None):
    hs = spline_harnesses({"C09"}, tier)
    if only: hs = [h for h in hs if only in h.hid]
    return run_check("C09", hs, tier=tier, seed=seed, update_ledger=update_ledger, jobs=jobs,
                     unbounded_in=["input value", "all spline parameters", "box (left,right,bottom,top)", "batch/feature shape (leading-shape polymorphism)"],
                     bounded_in={"num_bins": "1..3 quick / 1..8 thorough"},
                     assumptions=["global monotonicity/onto follows from the per-bin clauses by lemma 4d (continuous + strictly increasing on adjacent closed intervals)"])
