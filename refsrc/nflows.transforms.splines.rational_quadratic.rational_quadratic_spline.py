def rational_quadratic_spline(
    inputs,
    unnormalized_widths,
    unnormalized_heights,
    unnormalized_derivatives,
    inverse=False,
    left=0.0,
    right=1.0,
    bottom=0.0,
    top=1.0,
    min_bin_width=DEFAULT_MIN_BIN_WIDTH,
    min_bin_height=DEFAULT_MIN_BIN_HEIGHT,
    min_derivative=DEFAULT_MIN_DERIVATIVE,
    enable_identity_init=False,
):
    if inverse:
        lower, upper = bottom, top
    else:
        lower, upper = left, right
    if torch.min(inputs) < lower or torch.max(inputs) > upper:
        raise InputOutsideDomain()

    num_bins = unnormalized_widths.shape[-1]

    if min_bin_width * num_bins > 1.0:
        raise ValueError("Minimal bin width too large for the number of bins")
    if min_bin_height * num_bins > 1.0:
        raise ValueError("Minimal bin height too large for the number of bins")

    widths = F.softmax(unnormalized_widths, dim=-1)
    widths = min_bin_width + (1 - min_bin_width * num_bins) * widths
    cumwidths = torch.cumsum(widths, dim=-1)
    cumwidths = F.pad(cumwidths, pad=(1, 0), mode="constant", value=0.0)
    cumwidths = (right - left) * cumwidths + left
    cumwidths[..., 0] = left
    cumwidths[..., -1] = right
    widths = cumwidths[..., 1:] - cumwidths[..., :-1]

    if enable_identity_init: #flow is the identity if initialized with parameters equal to zero
        beta = np.log(2) / (1 - min_derivative)
    else: #backward compatibility
        beta = 1
    derivatives = min_derivative + F.softplus(unnormalized_derivatives, beta=beta)

    heights = F.softmax(unnormalized_heights, dim=-1)
    heights = min_bin_height + (1 - min_bin_height * num_bins) * heights
    cumheights = torch.cumsum(heights, dim=-1)
    cumheights = F.pad(cumheights, pad=(1, 0), mode="constant", value=0.0)
    cumheights = (top - bottom) * cumheights + bottom
    cumheights[..., 0] = bottom
    cumheights[..., -1] = top
    heights = cumheights[..., 1:] - cumheights[..., :-1]

    if inverse:
        bin_idx = torchutils.searchsorted(cumheights, inputs)[..., None]
    else:
        bin_idx = torchutils.searchsorted(cumwidths, inputs)[..., None]

    input_cumwidths = cumwidths.gather(-1, bin_idx)[..., 0]
    input_bin_widths = widths.gather(-1, bin_idx)[..., 0]

    input_cumheights = cumheights.gather(-1, bin_idx)[..., 0]
    delta = heights / widths
    input_delta = delta.gather(-1, bin_idx)[..., 0]

    input_derivatives = derivatives.gather(-1, bin_idx)[..., 0]
    input_derivatives_plus_one = derivatives[..., 1:].gather(-1, bin_idx)[..., 0]

    input_heights = heights.gather(-1, bin_idx)[..., 0]

    if inverse:
        a = (inputs - input_cumheights) * (
            input_derivatives + input_derivatives_plus_one - 2 * input_delta
        ) + input_heights * (input_delta - input_derivatives)
        b = input_heights * input_derivatives - (inputs - input_cumheights) * (
            input_derivatives + input_derivatives_plus_one - 2 * input_delta
        )
        c = -input_delta * (inputs - input_cumheights)

        discriminant = b.pow(2) - 4 * a * c
        assert (discriminant >= 0).all()

        root = (2 * c) / (-b - torch.sqrt(discriminant))
        # root = (- b + torch.sqrt(discriminant)) / (2 * a)
        outputs = root * input_bin_widths + input_cumwidths

        theta_one_minus_theta = root * (1 - root)
        denominator = input_delta + (
            (input_derivatives + input_derivatives_plus_one - 2 * input_delta)
            * theta_one_minus_theta
        )
        derivative_numerator = input_delta.pow(2) * (
            input_derivatives_plus_one * root.pow(2)
            + 2 * input_delta * theta_one_minus_theta
            + input_derivatives * (1 - root).pow(2)
        )
        logabsdet = torch.log(derivative_numerator) - 2 * torch.log(denominator)

        return outputs, -logabsdet
    else:
        theta = (inputs - input_cumwidths) / input_bin_widths
        theta_one_minus_theta = theta * (1 - theta)

        numerator = input_heights * (
            input_delta * theta.pow(2) + input_derivatives * theta_one_minus_theta
        )
        denominator = input_delta + (
            (input_derivatives + input_derivatives_plus_one - 2 * input_delta)
            * theta_one_minus_theta
        )
        outputs = input_cumheights + numerator / denominator

        derivative_numerator = input_delta.pow(2) * (
            input_derivatives_plus_one * theta.pow(2)
            + 2 * input_delta * theta_one_minus_theta
            + input_derivatives * (1 - theta).pow(2)
        )
        logabsdet = torch.log(derivative_numerator) - 2 * torch.log(denominator)

        return outputs, logabsdet
