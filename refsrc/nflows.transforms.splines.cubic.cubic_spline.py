def cubic_spline(
    inputs,
    unnormalized_widths,
    unnormalized_heights,
    unnorm_derivatives_left,
    unnorm_derivatives_right,
    inverse=False,
    left=0.0,
    right=1.0,
    bottom=0.0,
    top=1.0,
    min_bin_width=DEFAULT_MIN_BIN_WIDTH,
    min_bin_height=DEFAULT_MIN_BIN_HEIGHT,
    eps=DEFAULT_EPS,
    quadratic_threshold=DEFAULT_QUADRATIC_THRESHOLD,
):
    """
    References:
    > Blinn, J. F. (2007). How to solve a cubic equation, part 5: Back to numerics. IEEE Computer
    Graphics and Applications, 27(3):78–89.
    """
    if inverse:
        lower, upper = bottom, top
    else:
        lower, upper = left, right
    if torch.min(inputs) < lower or torch.max(inputs) > upper:
        raise InputOutsideDomain()

    num_bins = unnormalized_widths.shape[-1]

    if min_bin_width * num_bins > 1.0:
        raise ValueError("Minimal bin width too large for the number of bins")
    if min_bin_height * num_bins > 1.0:
        raise ValueError("Minimal bin height too large for the number of bins")

    if inverse:
        inputs = (inputs - bottom) / (top - bottom)
    else:
        inputs = (inputs - left) / (right - left)

    widths = F.softmax(unnormalized_widths, dim=-1)
    widths = min_bin_width + (1 - min_bin_width * num_bins) * widths

    cumwidths = torch.cumsum(widths, dim=-1)
    cumwidths[..., -1] = 1
    cumwidths = F.pad(cumwidths, pad=(1, 0), mode="constant", value=0.0)

    heights = F.softmax(unnormalized_heights, dim=-1)
    heights = min_bin_height + (1 - min_bin_height * num_bins) * heights

    cumheights = torch.cumsum(heights, dim=-1)
    cumheights[..., -1] = 1
    cumheights = F.pad(cumheights, pad=(1, 0), mode="constant", value=0.0)

    slopes = heights / widths
    min_something_1 = torch.min(torch.abs(slopes[..., :-1]), torch.abs(slopes[..., 1:]))
    min_something_2 = (
        0.5
        * (widths[..., 1:] * slopes[..., :-1] + widths[..., :-1] * slopes[..., 1:])
        / (widths[..., :-1] + widths[..., 1:])
    )
    min_something = torch.min(min_something_1, min_something_2)

    derivatives_left = (
        torch.sigmoid(unnorm_derivatives_left) * 3 * slopes[..., 0][..., None]
    )
    derivatives_right = (
        torch.sigmoid(unnorm_derivatives_right) * 3 * slopes[..., -1][..., None]
    )

    derivatives = min_something * (
        torch.sign(slopes[..., :-1]) + torch.sign(slopes[..., 1:])
    )
    derivatives = torch.cat([derivatives_left, derivatives, derivatives_right], dim=-1)

    a = (derivatives[..., :-1] + derivatives[..., 1:] - 2 * slopes) / widths.pow(2)
    b = (3 * slopes - 2 * derivatives[..., :-1] - derivatives[..., 1:]) / widths
    c = derivatives[..., :-1]
    d = cumheights[..., :-1]

    if inverse:
        bin_idx = torchutils.searchsorted(cumheights, inputs)[..., None]
    else:
        bin_idx = torchutils.searchsorted(cumwidths, inputs)[..., None]

    inputs_a = a.gather(-1, bin_idx)[..., 0]
    inputs_b = b.gather(-1, bin_idx)[..., 0]
    inputs_c = c.gather(-1, bin_idx)[..., 0]
    inputs_d = d.gather(-1, bin_idx)[..., 0]

    input_left_cumwidths = cumwidths.gather(-1, bin_idx)[..., 0]
    input_right_cumwidths = cumwidths.gather(-1, bin_idx + 1)[..., 0]

    if inverse:
        # Modified coefficients for solving the cubic.
        inputs_b_ = (inputs_b / inputs_a) / 3.0
        inputs_c_ = (inputs_c / inputs_a) / 3.0
        inputs_d_ = (inputs_d - inputs) / inputs_a

        delta_1 = -inputs_b_.pow(2) + inputs_c_
        delta_2 = -inputs_c_ * inputs_b_ + inputs_d_
        delta_3 = inputs_b_ * inputs_d_ - inputs_c_.pow(2)

        discriminant = 4.0 * delta_1 * delta_3 - delta_2.pow(2)

        depressed_1 = -2.0 * inputs_b_ * delta_1 + delta_2
        depressed_2 = delta_1

        three_roots_mask = (
            discriminant >= 0
        )  # Discriminant == 0 might be a problem in practice.
        one_root_mask = discriminant < 0

        outputs = torch.zeros_like(inputs)

        # Deal with one root cases.

        p = torchutils.cbrt(
            (-depressed_1[one_root_mask] + torch.sqrt(-discriminant[one_root_mask]))
            / 2.0
        )
        q = torchutils.cbrt(
            (-depressed_1[one_root_mask] - torch.sqrt(-discriminant[one_root_mask]))
            / 2.0
        )

        outputs[one_root_mask] = (
            (p + q) - inputs_b_[one_root_mask] + input_left_cumwidths[one_root_mask]
        )

        # Deal with three root cases.

        theta = torch.atan2(
            torch.sqrt(discriminant[three_roots_mask]), -depressed_1[three_roots_mask]
        )
        theta /= 3.0

        cubic_root_1 = torch.cos(theta)
        cubic_root_2 = torch.sin(theta)

        root_1 = cubic_root_1
        root_2 = -0.5 * cubic_root_1 - 0.5 * math.sqrt(3) * cubic_root_2
        root_3 = -0.5 * cubic_root_1 + 0.5 * math.sqrt(3) * cubic_root_2

        root_scale = 2 * torch.sqrt(-depressed_2[three_roots_mask])
        root_shift = (
            -inputs_b_[three_roots_mask] + input_left_cumwidths[three_roots_mask]
        )

        root_1 = root_1 * root_scale + root_shift
        root_2 = root_2 * root_scale + root_shift
        root_3 = root_3 * root_scale + root_shift

        root1_mask = ((input_left_cumwidths[three_roots_mask] - eps) < root_1).float()
        root1_mask *= (root_1 < (input_right_cumwidths[three_roots_mask] + eps)).float()

        root2_mask = ((input_left_cumwidths[three_roots_mask] - eps) < root_2).float()
        root2_mask *= (root_2 < (input_right_cumwidths[three_roots_mask] + eps)).float()

        root3_mask = ((input_left_cumwidths[three_roots_mask] - eps) < root_3).float()
        root3_mask *= (root_3 < (input_right_cumwidths[three_roots_mask] + eps)).float()

        roots = torch.stack([root_1, root_2, root_3], dim=-1)
        masks = torch.stack([root1_mask, root2_mask, root3_mask], dim=-1)
        mask_index = torch.argsort(masks, dim=-1, descending=True)[..., 0][..., None]
        outputs[three_roots_mask] = torch.gather(roots, dim=-1, index=mask_index).view(
            -1
        )

        # Deal with a -> 0 (almost quadratic) cases.

        quadratic_mask = inputs_a.abs() < quadratic_threshold
        a = inputs_b[quadratic_mask]
        b = inputs_c[quadratic_mask]
        c = inputs_d[quadratic_mask] - inputs[quadratic_mask]
        # Equal to (-b + sqrt(b^2 - 4ac)) / (2a), but well defined for a == 0 (locally linear segments).
        alpha = (2 * c) / (-b - torch.sqrt(b.pow(2) - 4 * a * c))
        outputs[quadratic_mask] = alpha + input_left_cumwidths[quadratic_mask]

        shifted_outputs = outputs - input_left_cumwidths
        logabsdet = -torch.log(
            (
                3 * inputs_a * shifted_outputs.pow(2)
                + 2 * inputs_b * shifted_outputs
                + inputs_c
            )
        )
    else:
        shifted_inputs = inputs - input_left_cumwidths
        outputs = (
            inputs_a * shifted_inputs.pow(3)
            + inputs_b * shifted_inputs.pow(2)
            + inputs_c * shifted_inputs
            + inputs_d
        )

        logabsdet = torch.log(
            (
                3 * inputs_a * shifted_inputs.pow(2)
                + 2 * inputs_b * shifted_inputs
                + inputs_c
            )
        )

    # The spline above maps the unit interval onto itself: account for the rescaling to the box.
    if inverse:
        outputs = outputs * (right - left) + left
        logabsdet = logabsdet + math.log(right - left) - math.log(top - bottom)
    else:
        outputs = outputs * (top - bottom) + bottom
        logabsdet = logabsdet + math.log(top - bottom) - math.log(right - left)

    return outputs, logabsdet
