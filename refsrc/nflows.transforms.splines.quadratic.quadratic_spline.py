def quadratic_spline(
    inputs,
    unnormalized_widths,
    unnormalized_heights,
    inverse=False,
    left=0.0,
    right=1.0,
    bottom=0.0,
    top=1.0,
    min_bin_width=DEFAULT_MIN_BIN_WIDTH,
    min_bin_height=DEFAULT_MIN_BIN_HEIGHT,
):
    if inverse:
        lower, upper = bottom, top
    else:
        lower, upper = left, right
    if torch.min(inputs) < lower or torch.max(inputs) > upper:
        raise InputOutsideDomain()

    if inverse:
        inputs = (inputs - bottom) / (top - bottom)
    else:
        inputs = (inputs - left) / (right - left)

    num_bins = unnormalized_widths.shape[-1]

    if min_bin_width * num_bins > 1.0:
        raise ValueError("Minimal bin width too large for the number of bins")
    if min_bin_height * num_bins > 1.0:
        raise ValueError("Minimal bin height too large for the number of bins")

    widths = F.softmax(unnormalized_widths, dim=-1)
    widths = min_bin_width + (1 - min_bin_width * num_bins) * widths

    unnorm_heights_exp = F.softplus(unnormalized_heights) + 1e-3

    if unnorm_heights_exp.shape[-1] == num_bins - 1 and num_bins == 1:
        # A single bin has no interior knots: both boundary heights are 1 and the spline is the identity.
        unnorm_heights_exp = widths.new_ones(*widths.shape[:-1], 2)
    elif unnorm_heights_exp.shape[-1] == num_bins - 1:
        # Set boundary heights s.t. after normalization they are exactly 1.
        first_widths = 0.5 * widths[..., 0]
        last_widths = 0.5 * widths[..., -1]
        numerator = (
            0.5 * first_widths * unnorm_heights_exp[..., 0]
            + 0.5 * last_widths * unnorm_heights_exp[..., -1]
            + torch.sum(
                ((unnorm_heights_exp[..., :-1] + unnorm_heights_exp[..., 1:]) / 2)
                * widths[..., 1:-1],
                dim=-1,
            )
        )
        constant = numerator / (1 - 0.5 * first_widths - 0.5 * last_widths)
        constant = constant[..., None]
        unnorm_heights_exp = torch.cat([constant, unnorm_heights_exp, constant], dim=-1)

    unnormalized_area = torch.sum(
        ((unnorm_heights_exp[..., :-1] + unnorm_heights_exp[..., 1:]) / 2) * widths,
        dim=-1,
    )[..., None]
    heights = unnorm_heights_exp / unnormalized_area
    heights = min_bin_height + (1 - min_bin_height) * heights

    bin_left_cdf = torch.cumsum(
        ((heights[..., :-1] + heights[..., 1:]) / 2) * widths, dim=-1
    )
    bin_left_cdf[..., -1] = 1.0
    bin_left_cdf = F.pad(bin_left_cdf, pad=(1, 0), mode="constant", value=0.0)

    bin_locations = torch.cumsum(widths, dim=-1)
    bin_locations[..., -1] = 1.0
    bin_locations = F.pad(bin_locations, pad=(1, 0), mode="constant", value=0.0)

    if inverse:
        bin_idx = torchutils.searchsorted(bin_left_cdf, inputs)[..., None]
    else:
        bin_idx = torchutils.searchsorted(bin_locations, inputs)[..., None]

    input_bin_locations = bin_locations.gather(-1, bin_idx)[..., 0]
    input_bin_widths = widths.gather(-1, bin_idx)[..., 0]

    input_left_cdf = bin_left_cdf.gather(-1, bin_idx)[..., 0]

    input_left_heights = heights.gather(-1, bin_idx)[..., 0]
    input_right_heights = heights.gather(-1, bin_idx + 1)[..., 0]

    a = 0.5 * (input_right_heights - input_left_heights) * input_bin_widths
    b = input_left_heights * input_bin_widths
    c = input_left_cdf

    if inverse:
        c_ = c - inputs
        # Equal to (-b + sqrt(b^2 - 4ac_)) / (2a), but well defined for a == 0 (equal adjacent heights).
        alpha = (2 * c_) / (-b - torch.sqrt(b.pow(2) - 4 * a * c_))
        outputs = alpha * input_bin_widths + input_bin_locations
        outputs = torch.clamp(outputs, 0, 1)
        logabsdet = -torch.log(
            (alpha * (input_right_heights - input_left_heights) + input_left_heights)
        )
    else:
        alpha = (inputs - input_bin_locations) / input_bin_widths
        outputs = a * alpha.pow(2) + b * alpha + c
        outputs = torch.clamp(outputs, 0, 1)
        logabsdet = torch.log(
            (alpha * (input_right_heights - input_left_heights) + input_left_heights)
        )

    # The spline above maps the unit interval onto itself: account for the rescaling to the box.
    if inverse:
        outputs = outputs * (right - left) + left
        logabsdet = logabsdet + math.log(right - left) - math.log(top - bottom)
    else:
        outputs = outputs * (top - bottom) + bottom
        logabsdet = logabsdet + math.log(top - bottom) - math.log(right - left)

    return outputs, logabsdet
