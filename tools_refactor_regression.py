#!/usr/bin/env python3
"""apply every stored behaviour-preserving refactor (refactors/<id>/patch.diff) to /repo, run the checks of the properties its files are anchored
in, revert; every check must exit 0.  Writes refactors/REGRESSION.txt.  usage: tools_refactor_regression.py [ids...]"""
import json, os, subprocess, sys, time
os.chdir("/verif")
CHECKS = {"R1": "C01 C02 C09 C17", "R2": "C01 C02 C09 C17 C20", "R3": "C07 C01 C02 C12 C13", "R4": "C10 C11 C01 C02 C13 C15",
          "R5": "C06 C14 C15 C05 C01", "R6": "C01 C02 C03 C04 C05 C08 C13 C17 C18",
          "R7": "C03 C04 C05 C12 C13 C15 C16 C18", "R8": "C01 C02 C03 C09 C16 C17 C19", "R9": "C01 C02 C05 C07 C10 C11 C12 C13 C14 C15 C16 C19 C20"}
PER_ID = {"R7-1": "C03 C04 C05 C13 C18", "R7-2": "C04 C05 C13 C18", "R7-3": "C03 C04 C12 C13 C16 C18", "R7-4": "C05",
          "R8-1": "C01 C02 C09 C17", "R8-2": "C01 C02 C09 C17", "R8-3": "C01 C02 C09 C16 C17 C19", "R8-4": "C01 C02 C03 C09 C16 C17",
          "R9-1": "C01 C02 C10 C11 C13 C15", "R9-2": "C01 C02 C12 C13 C14 C15 C16", "R9-3": "C01 C02 C07 C12 C13", "R9-4": "C01 C02 C05 C06 C17 C20", "R10-1": "C05"}
ids = sys.argv[1:] or sorted(d for d in os.listdir("refactors") if os.path.isdir(f"refactors/{d}"))
lines = []
for rid in ids:
    r = subprocess.run(["git", "-C", "/repo", "apply", os.path.abspath(f"refactors/{rid}/patch.diff")], capture_output=True, text=True)
    if r.returncode:
        lines.append(f"{rid} NOAPPLY {r.stderr.strip()[:100]}"); print(lines[-1], flush=True); continue
    res = []
    try:
        for c in (PER_ID.get(rid) or CHECKS[rid.split("-")[0]]).split():
            t = time.time()
            try:
                rc = subprocess.run(["./check", c], capture_output=True, text=True, timeout=2400).returncode
            except subprocess.TimeoutExpired:
                rc = "timeout"
            res.append(f"{c}:exit={rc},{time.time() - t:.0f}s")
    finally:
        subprocess.run(["git", "-C", "/repo", "checkout", "--", "."]); subprocess.run(["git", "-C", "/verif", "checkout", "--", "evidence"])
    ok = all(":exit=0," in x for x in res)
    lines.append(f"{rid} {'OK (no alarm)' if ok else 'ALARM'} " + " ".join(res)); print(lines[-1], flush=True)
if not sys.argv[1:]:
    open("refactors/REGRESSION.txt", "w").write("\n".join(lines) + "\n")
