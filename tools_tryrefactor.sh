#!/bin/sh
# usage: tools_tryrefactor.sh <patch.diff> <check ids...>  -- applies a behaviour-preserving refactor to /repo, runs the checks, reverts; one summary line per check
P="$1"; shift
cd /repo && git apply "$P" || { echo "patch does not apply"; exit 9; }
cd /verif
for c in "$@"; do
  out=$(timeout 1500 ./check $c 2>&1); rc=$?
  echo "$c exit=$rc $(echo "$out" | grep -E "^C[0-9]+ \[" | sed 's/.*obligations=/obligations=/' | cut -c1-110)"
  if [ $rc -ne 0 ]; then echo "$out" | grep -E "^VIOLATION|^UNDECIDED|^CRASH" | cut -c1-260 | head -4; fi
done
git -C /repo checkout -- . ; git -C /verif checkout -- evidence 2>/dev/null
