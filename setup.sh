#!/bin/sh
# Builds /verif/.venv offline: python 3.12 of /venv + z3-solver wheel + link to /venv's site-packages (torch, numpy, editable nflows).
set -e
cd "$(dirname "$0")"
V=.venv
if [ -x $V/bin/python ] && $V/bin/python -c "import z3, torch, nflows" 2>/dev/null; then echo "setup: $V ok"; exit 0; fi
rm -rf $V
/venv/bin/python -m venv --without-pip $V
SP=$V/lib/python3.12/site-packages
echo "import site; site.addsitedir('/venv/lib/python3.12/site-packages')" > $SP/venvlink.pth
PIP_NO_INDEX=1 /venv/bin/python -m pip install -q --no-index --find-links /opt/veriftools/wheels --target $SP z3-solver
$V/bin/python -c "import z3, torch, nflows, sys; print('setup: built', z3.get_version_string(), torch.__version__, nflows.__file__)"
