"""keep a confirmed seeded change: tools_keep_mutant.py <srcdir> <name> <detected-by/ or 'missed: reason'>"""
import sys, json, shutil, os
src, name, det = sys.argv[1], sys.argv[2], sys.argv[3]
dst = f"/verif/seeded/{name}"
os.makedirs(dst, exist_ok=True)
for f in ("patch.diff", "demo.py"):
    shutil.copy(os.path.join(src, f), os.path.join(dst, f))
m = json.load(open(os.path.join(src, "meta.json")))
m = {"property": m.get("property"), "files": m.get("files"), "needs_to_manifest": m.get("what_it_needs_to_manifest"), "summary": m.get("summary"),
     "confirmed": "tools_confirm_mutant.sh in a scratch worktree: demo.py exits 0 on the clean tree and 1 with the patch; the pinned test suite passes with the patch (147 passed)",
     "checks_run": "git -C /repo apply patch.diff; ./check <property>; git -C /repo checkout -- .", "detection": det}
json.dump(m, open(os.path.join(dst, "meta.json"), "w"), indent=1)
print("kept", dst)
