"""writes MANIFEST.json from the table below (keeps it schema-valid and consistent)"""
import json, os
V = os.path.dirname(os.path.abspath(__file__))
NOTE = ("trusted base: CPython executing the real function bodies; op models of tsv/ops*.py (= assumed contracts of torch, float arithmetic "
        "treated as real arithmetic); exp/log/sqrt/softplus/sigmoid axioms; softmax as a point of the open simplex; term differentiator; z3 5.1. "
        "Shapes/bin counts are enumerated up to the stated bound, values are unbounded.")
CLAIMED = {
    "C01": ("proof", "contract-based deductive verification: symbolic execution of the real forward functions, returned log-det proved equal to the log of the term derivative of the returned output (z3 nlsat)",
            "for every enumerated bin count, exp(logabsdet) = d out/d in > 0 is discharged for ALL input/parameter/box values from the real spline code; wrappers proved against the callee contract", "3 (row C01)"),
    "C02": ("proof", "contract-based deductive verification: inverse proved against the spec function of the forward map (root lemma), log-det of inverse proved to be the log-derivative of the inverse map, all partial operations proved defined",
            "roundtrip and negated log-det as postconditions over the real code for all values; cubic inverse: one-real-root (Cardano) and quadratic-fallback branches proved, the trigonometric three-root branch enters as a listed assumption", "3 (row C02)"),
    "C09": ("proof", "contract-based deductive verification: knot lemma + per-bin monotonicity, end-points, range, continuity at knots and tail junction as postconditions (z3 nlsat)",
            "all values of inputs, parameters, boxes and tail bounds; bin counts enumerated", "3 (row C09)"),
    "C17": ("proof", "contract-based deductive verification: raises-iff contracts on the explored paths plus index-in-range / definedness obligations on every non-raising path",
            "InputOutsideDomain is raised iff an input is outside the closed domain, and no other failure is reachable, for all values", "3 (row C17)"),
    "C07": ("proof", "contract-based deductive verification: real coupling classes executed on symbolic tensors with an uninterpreted per-item conditioner; identity features are the very input symbols, the conditioner's shown set, dependency sets and monotonicity are postconditions",
            "for every enumerated mask and shape: all input values, all conditioner functions", "3 (row C07)"),
    "C20": ("proof", "contract-based deductive verification: index specifications of the helpers as postconditions over symbolic tensors (syntactic symbol identity for data movement, z3 for arithmetic), frame condition `assigns nothing` from the write log",
            "all tensor values for every enumerated shape; typecheck predicates by evaluation (bounded)", "3 (row C20)"),
    "C06": ("proof", "contract-based deductive verification in a ghost may-dependency domain: the real MADE constructors and forward passes (both copies) run on (deps, live) elements with symbolic random-mask degrees; `output block i does not depend on inputs >= i` is a validity query per output unit (z3)",
            "for every enumerated architecture: all weights, inputs, contexts and all random-mask draws", "3 (row C06)"),
    "C08": ("proof", "contract-based deductive verification: wrappers executed with tagged uninterpreted stage maps; result terms compared with a reference composition / routing spec, log-dets as sums, inverse via the stage axioms",
            "all values and all stage functions for every enumerated nesting / shape / split dimension", "3 (row C08)"),
    "C10": ("proof", "contract-based deductive verification: class invariant of the weight cache proved preserved by every public method and every environment transition (real train/eval/use_cache/load_state_dict/_apply code) from every abstract pre-state; outputs proved equal to the uncached ones (z3)",
            "histories of any length by induction; all parameter and input values; D = 2; LULinear, QRLinear, SVDLinear (orthogonal factors through their contract), NaiveLinear, OneByOneConvolution", "3 (row C10)"),
    "C11": ("proof", "contract-based deductive verification: accessor agreement (W V = I, exp(logabsdet) = |det W| by cofactors, forward = W x + b, inverse = V (y - b)) as polynomial postconditions over symbolic parameters (z3 nlsat; matrix identities by the sympy ring tactic with Groebner reduction modulo the orthogonality relations, z3 for the non-zero denominators); QR/SVD proved against the Householder contract; constructor grid as a bounded enumeration",
            "all parameter values at D <= 2 (thorough: 3, Householder products up to (D,K) = (3,3) and (4,2)) under the stated non-degeneracy preconditions; constructor configurations enumerated (bounded part, labelled)", "3 (row C11)"),
    "C12": ("proof", "contract-based deductive verification: syntactic non-interference on the symbolic execution of the real code (row b of every result mentions only row-b symbols), postcondition of every class harness in evaluation mode",
            "all values; batch size 2 (elementwise kernels for every batch size by leading-shape polymorphism)", "3 (row C12)"),
    "C13": ("proof", "contract-based deductive verification: frame conditions (`assigns`) from the write log of the symbolic execution, per base storage, for every class harness",
            "all values and views; eval mode: no write to arguments, parameters or buffers", "3 (row C13)"),
    "C19": ("other", "contract-based deductive verification of the dtype contracts only (result dtype = input dtype, no dtype error on float64 and float32); numeric float32/float64 agreement is NOT decided by this family",
            "partial: dtype clauses proved for elementwise, coupling, autoregressive, linear-family, permutation, composite classes, flows and distributions; closeness of float32 to float64 results is not decidable by real-arithmetic contracts and is listed as not decided", "3 (row C19)"),
    "C14": ("proof", "contract-based deductive verification: each life-cycle method of ActNorm / BatchNorm executed from every symbolic state and proved equal to the transition of the documented reference model (z3); induction over calls gives all histories",
            "histories of any length; all batch values under the stated precondition (>= 2 items, non-zero variance)", "3 (row C14)"),
    "C04": ("proof", "contract-based deductive verification: Flow.sample / sample_and_log_prob / log_prob executed with a row-wise uninterpreted bijection (C02 contract as axioms) and embedding; row pairing of noise, context row, sample and returned density proved (structural term check + z3)",
            "all noise / context values, all transforms and embedding nets (uninterpreted); context rows and draws enumerated; the statistical clause is derived, not tested", "3 (row C04)"),
    "C18": ("proof", "contract-based deductive verification of shape and raise contracts: every cell of the (num_samples, batch_size, context rows) grid is an executed path of the real code on symbolic tensors, result shapes from real torch meta inference, documented TypeError / ValueError as raises-iff",
            "exact for all values at each grid cell; the integer grid is bounded", "3 (row C18)"),
    "C05": ("proof", "contract-based deductive verification: returned log-densities proved equal, as terms, to the textbook closed forms (Gaussian family), exact summation to one (Bernoulli), normaliser compared through its erf arguments; sampling code proved to use the location/scale of its own context row and one fresh draw per sample",
            "all values for the enumerated event shapes; the MADE mixture (log-density and ancestral sampler, against the C06 contract of its MADE) and the Gaussian KDE evaluator (exact-bandwidth sizes) are under contract; BoxUniform (torch.distributions) is not (listed)", "3 (row C05)"),
    "C03": ("proof", "contract-based deductive verification of the premises of the change-of-variables theorem: Flow._log_prob proved to be exactly base log-density of the transformed point plus log-abs-det (uninterpreted transform / embedding), plus re-discharged bijection / log-det / base-density contracts; the integral itself follows by the (trusted) theorem",
            "structure clause for all transforms and contexts; premises for all values on one configuration each (full strength in C01/C02/C05/C09); quadrature is replaced by the theorem", "3 (row C03)"),
    "C15": ("proof", "contract-based deductive verification: two instances built by the real constructors with distinct fresh symbols for every random draw; after the real load_state_dict the result terms of forward / inverse / log_prob (and of a continued training-mode forward) must be identical, for all draws, parameter values and inputs",
            "all random draws and values for 21 class configurations, saved after and before their data-dependent initialisation", "3 (row C15)"),
}
CLAIMED["C16"] = ("other", "contract-based deductive verification of what separates the recorded autograd graph from the value: ghost gradset through every op model (every leaf a result's value depends on is reachable through differentiable ops) and gradient-cut aliases (no result depends on a leaf through a detach / no_grad cut); autograd's per-op derivative rules are assumed, not decided",
                  "connectivity and no-cut clauses for elementwise, coupling, autoregressive, linear-family, permutation, composite classes, flows and distributions in evaluation mode and for BatchNorm / a flow with batch norm in training mode; the finite-difference comparison itself is only the native replay", "5")
NA_REASONS = {
    "C16_unused": ("not claimed: 'gradients equal the true derivatives (finite differences)' is a statement about torch.autograd, which is external code assumed correct by this family; "
            "the only contract-decidable part (every result is graph-connected to every parameter its value depends on) was not built in the time available (DESIGN.md 4-C16)"),
}
REASON_TODO = "check not built yet in this session (the design in DESIGN.md section 4 applies; will be claimed when its contracts discharge)"
props = [json.loads(l) for l in open(os.path.join(V, "properties.jsonl"))]
checks, na = [], []
for p in props:
    pid = p["id"]
    if pid in CLAIMED:
        cat, tech, text, ref = CLAIMED[pid]
        checks.append({"property_id": pid, "quick_cmd": f"./check {pid} --tier quick", "thorough_cmd": f"./check {pid} --tier thorough",
                       "evidence_file": f"evidence/{pid}.json", "replay_cmd_template": "./check --replay {path}", "engine": "tsv",
                       "level_claimed": {"category": cat, "text": text, "design_ref": ref}, "level_note": NOTE, "technique": tech})
    else:
        na.append({"property_id": pid, "reason": NA_REASONS.get(pid, REASON_TODO)})
m = {"version": 1, "setup_cmd": "./setup.sh",
     "hooks": {"guard": "NFLOWS_VERIF", "enable": "none needed: instrumentation (lemma cuts, assert->obligation) is inserted into the function AST in memory at check time; the guard is unused and no hook commit exists in /repo",
               "baseline_off_cmd": "cd /repo && /venv/bin/python -m pytest -ra -q -p no:cacheprovider --timeout=900 --continue-on-collection-errors",
               "source_commits": [], "add_only": True},
     "engines": [{"name": "tsv", "path": "tsv/", "serves_properties": sorted(CLAIMED),
                  "kind_free_text": "torch-symbolic verifier: executes the real nflows functions on symbolic tensors (__torch_function__), generates named obligations from sidecar contracts and discharges them with z3"}],
     "checks": checks, "not_applicable": na,
     "notes": "exit codes of ./check: 0 held / 1 VIOLATION / 2 undecided / 3 crash. known_findings.json lists recorded and fixed defects."}
json.dump(m, open(os.path.join(V, "MANIFEST.json"), "w"), indent=1)
print("claimed", sorted(CLAIMED), "not_applicable", [x["property_id"] for x in na])
