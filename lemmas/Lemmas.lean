/-
Mathematical lemmas used (as *trusted* facts) by the contracts in /verif, re-stated over Mathlib and machine-checked by Lean 4.
They are about mathematics, not about the nflows code: the contracts discharge their premises on the real code.
-/
import Mathlib

open Matrix

namespace NflowsLemmas

/-- 4a: the determinant is multiplicative (used for W = Q·R, W = U·S·Vᵀ). -/
theorem lemma_4a {n : Type*} [Fintype n] [DecidableEq n] (A B : Matrix n n ℝ) :
    (A * B).det = A.det * B.det := Matrix.det_mul A B

/-- 4b: the determinant of an upper-triangular matrix is the product of its diagonal
(autoregressive / LU Jacobians). -/
theorem lemma_4b {n : Type*} [Fintype n] [DecidableEq n] [LinearOrder n] (M : Matrix n n ℝ)
    (h : M.BlockTriangular id) : M.det = ∏ i, M i i := Matrix.det_of_isUpperTriangular h

/-- 4c: an orthogonal matrix (QᵀQ = 1) has determinant of absolute value one. -/
theorem lemma_4c {n : Type*} [Fintype n] [DecidableEq n] (Q : Matrix n n ℝ) (h : Qᵀ * Q = 1) :
    |Q.det| = 1 := by
  have h1 : Q.det * Q.det = 1 := by
    have := congrArg Matrix.det h
    rw [Matrix.det_mul, Matrix.det_transpose, Matrix.det_one] at this
    exact this
  have h2 : |Q.det| * |Q.det| = 1 := by rw [← abs_mul, h1, abs_one]
  nlinarith [abs_nonneg Q.det]

/-- product of orthogonal matrices is orthogonal (induction step for a sequence of Householder reflections of any length). -/
theorem lemma_orthogonal_mul {n : Type*} [Fintype n] [DecidableEq n] (A B : Matrix n n ℝ)
    (hA : Aᵀ * A = 1) (hB : Bᵀ * B = 1) : (A * B)ᵀ * (A * B) = 1 := by
  rw [Matrix.transpose_mul, Matrix.mul_assoc, ← Matrix.mul_assoc Aᵀ A B, hA, Matrix.one_mul, hB]

/-- composition of linear maps given by matrices: (x A) B = x (A B)  (the state carried by the reflection loop is `outputs` only). -/
theorem lemma_vecMul_assoc {n : Type*} [Fintype n] (x : n → ℝ) (A B : Matrix n n ℝ) :
    Matrix.vecMul (Matrix.vecMul x A) B = Matrix.vecMul x (A * B) := Matrix.vecMul_vecMul x A B

/-- 4d (gluing part): strictly increasing on [a,b] and on [b,c] implies strictly increasing on [a,c]. -/
theorem lemma_4d_glue (f : ℝ → ℝ) (a b c : ℝ)
    (h1 : StrictMonoOn f (Set.Icc a b)) (h2 : StrictMonoOn f (Set.Icc b c)) :
    StrictMonoOn f (Set.Icc a c) := by
  intro x hx y hy hxy
  by_cases hxb : x ≤ b
  · by_cases hyb : y ≤ b
    · exact h1 ⟨hx.1, hxb⟩ ⟨hy.1, hyb⟩ hxy
    · have hyb : b < y := not_le.mp hyb
      have hb1 : f x ≤ f b := by
        rcases eq_or_lt_of_le hxb with h | h
        · rw [h]
        · exact le_of_lt (h1 ⟨hx.1, hxb⟩ ⟨le_trans hx.1 hxb, le_refl b⟩ h)
      have hb2 : f b < f y := h2 ⟨le_refl b, le_trans (le_of_lt hyb) hy.2⟩ ⟨le_of_lt hyb, hy.2⟩ hyb
      exact lt_of_le_of_lt hb1 hb2
  · have hxb : b < x := not_le.mp hxb
    have hyb : b < y := lt_trans hxb hxy
    exact h2 ⟨le_of_lt hxb, hx.2⟩ ⟨le_of_lt hyb, hy.2⟩ hxy

/-- 4d (onto part, intermediate value theorem): a continuous map on [a,b] attains every value between f a and f b. -/
theorem lemma_4d_onto (f : ℝ → ℝ) (a b : ℝ) (hab : a ≤ b) (hf : ContinuousOn f (Set.Icc a b)) :
    Set.Icc (f a) (f b) ⊆ f '' Set.Icc a b := intermediate_value_Icc hab hf

/-- 4g (general Gaussian): the density with location μ and variance v > 0 integrates to one (Mathlib's `gaussianPDFReal` is
(√(2πv))⁻¹ · exp(−(x−μ)²/(2v)), i.e. exp of the log-density the normal classes return with v = exp(2·log_std)). -/
theorem lemma_4g_general (μ : ℝ) (v : NNReal) (hv : v ≠ 0) : ∫ x, ProbabilityTheory.gaussianPDFReal μ v x = 1 :=
  ProbabilityTheory.integral_gaussianPDFReal_eq_one μ hv

theorem lemma_4g_general_formula (μ : ℝ) (v : NNReal) (x : ℝ) :
    ProbabilityTheory.gaussianPDFReal μ v x = (Real.sqrt (2 * Real.pi * v))⁻¹ * Real.exp (-(x - μ) ^ 2 / (2 * v)) := rfl

/-- 4h (cubic discriminant): a depressed cubic t³ + p t + q with 4p³ + 27q² > 0 has at most one real root.
(Two distinct real roots t₁ ≠ t₂ force 4p³ + 27q² = −(t₁−t₂)²(2t₁+t₂)²(t₁+2t₂)² ≤ 0.) -/
theorem lemma_4h (p q t₁ t₂ : ℝ) (h₁ : t₁ ^ 3 + p * t₁ + q = 0) (h₂ : t₂ ^ 3 + p * t₂ + q = 0)
    (hd : 0 < 4 * p ^ 3 + 27 * q ^ 2) : t₁ = t₂ := by
  by_contra hne
  have hsub : (t₁ - t₂) * (t₁ ^ 2 + t₁ * t₂ + t₂ ^ 2 + p) = 0 := by
    have : (t₁ - t₂) * (t₁ ^ 2 + t₁ * t₂ + t₂ ^ 2 + p) = (t₁ ^ 3 + p * t₁ + q) - (t₂ ^ 3 + p * t₂ + q) := by ring
    rw [this, h₁, h₂]; ring
  have hp : p = -(t₁ ^ 2 + t₁ * t₂ + t₂ ^ 2) := by
    rcases mul_eq_zero.mp hsub with h | h
    · exact absurd (sub_eq_zero.mp h) hne
    · linarith
  have hq : q = -(t₁ ^ 3 + p * t₁) := by linarith
  have key : 4 * p ^ 3 + 27 * q ^ 2 = -((t₁ - t₂) ^ 2 * (2 * t₁ + t₂) ^ 2 * (t₁ + 2 * t₂) ^ 2) := by
    rw [hq, hp]; ring
  have : 0 ≤ (t₁ - t₂) ^ 2 * (2 * t₁ + t₂) ^ 2 * (t₁ + 2 * t₂) ^ 2 := by positivity
  linarith

/-- the discriminant the code computes (δ₁ = c' − b'², δ₂ = d' − b'c', δ₃ = b'd' − c'²) against the depressed cubic's p = 3δ₁, q = −2b'δ₁ + δ₂:
4δ₁δ₃ − δ₂² = −(4p³ + 27q²)/27, so `discriminant < 0` in cubic.py is exactly the hypothesis of lemma 4h. -/
theorem lemma_4h_code_discriminant (b c d : ℝ) :
    4 * (c - b ^ 2) * (b * d - c ^ 2) - (d - b * c) ^ 2
      = -(4 * (3 * (c - b ^ 2)) ^ 3 + 27 * (-2 * b * (c - b ^ 2) + (d - b * c)) ^ 2) / 27 := by
  ring

/-- 4e (change of variables, one dimension): for a differentiable bijection f of the line, the pulled-back density
x ↦ |f' x| · p (f x) has the same total mass as p.  (This is the flow density exp(log p(f(x)) + log|det J|).) -/
theorem lemma_4e_1d (f f' p : ℝ → ℝ) (hf : ∀ x, HasDerivAt f (f' x) x) (hinj : Function.Injective f) (hsurj : Function.Surjective f) :
    ∫ x, |f' x| * p (f x) = ∫ y, p y := by
  have h := MeasureTheory.integral_image_eq_integral_abs_deriv_smul (s := Set.univ) MeasurableSet.univ
    (fun x _ => (hf x).hasDerivWithinAt) (hinj.injOn) p
  rw [Set.image_univ, hsurj.range_eq] at h
  simpa [MeasureTheory.Measure.restrict_univ, smul_eq_mul] using h.symm

/-- 4f (iterated form): if every conditional x₂ ↦ p₂ x₁ x₂ integrates to one and p₁ integrates to one, the autoregressive product
p₁(x₁)·p₂(x₂ | x₁) has iterated integral one (induction over the features gives any number of factors). -/
theorem lemma_4f_iterated (p₁ : ℝ → ℝ) (p₂ : ℝ → ℝ → ℝ) (h₁ : ∫ x₁, p₁ x₁ = 1) (h₂ : ∀ x₁, ∫ x₂, p₂ x₁ x₂ = 1) :
    ∫ x₁, (∫ x₂, p₁ x₁ * p₂ x₁ x₂) = 1 := by
  have : ∀ x₁, (∫ x₂, p₁ x₁ * p₂ x₁ x₂) = p₁ x₁ := by
    intro x₁
    rw [MeasureTheory.integral_const_mul, h₂ x₁, mul_one]
  simp_rw [this]
  exact h₁

/-- 4g (Gaussian normaliser): ∫ exp(-x²/2) dx = √(2π). -/
theorem lemma_4g_gaussian : ∫ x : ℝ, Real.exp (-(1/2 : ℝ) * x ^ 2) = Real.sqrt (2 * Real.pi) := by
  rw [integral_gaussian (1/2 : ℝ)]
  congr 1
  ring

/-! ### The axiom schemas about transcendental functions that the engine hands to z3 (tsv/ops.py) -/

theorem ax_exp_pos (t : ℝ) : 0 < Real.exp t := Real.exp_pos t
theorem ax_log_exp (t : ℝ) : Real.log (Real.exp t) = t := Real.log_exp t
theorem ax_exp_log (t : ℝ) (h : 0 < t) : Real.exp (Real.log t) = t := Real.exp_log h
theorem ax_exp_add (a b : ℝ) : Real.exp (a + b) = Real.exp a * Real.exp b := Real.exp_add a b
theorem ax_exp_neg_mul (a : ℝ) : Real.exp a * Real.exp (-a) = 1 := by rw [← Real.exp_add]; simp
theorem ax_exp_two_mul (a : ℝ) : Real.exp (2 * a) = Real.exp a * Real.exp a := by rw [← Real.exp_add]; ring_nf
theorem ax_exp_strict_mono (a b : ℝ) (h : a < b) : Real.exp a < Real.exp b := Real.exp_lt_exp.mpr h
theorem ax_log_strict_mono (a b : ℝ) (ha : 0 < a) (h : a < b) : Real.log a < Real.log b := Real.log_lt_log ha h
theorem ax_log_mul (a b : ℝ) (ha : 0 < a) (hb : 0 < b) : Real.log (a * b) = Real.log a + Real.log b :=
  Real.log_mul (ne_of_gt ha) (ne_of_gt hb)
/-- exp(Σ cᵢ log pᵢ) = Π pᵢ^cᵢ, the two-factor integer instance the normaliser uses repeatedly -/
theorem ax_exp_lin_log (p q : ℝ) (hp : 0 < p) (hq : 0 < q) : Real.exp (Real.log p - Real.log q) * q = p := by
  rw [Real.exp_sub, Real.exp_log hp, Real.exp_log hq]; field_simp
theorem ax_sqrt (t : ℝ) (h : 0 ≤ t) : 0 ≤ Real.sqrt t ∧ Real.sqrt t * Real.sqrt t = t :=
  ⟨Real.sqrt_nonneg t, Real.mul_self_sqrt h⟩
/-- softplus u = log(1 + eᵘ) is positive and above u -/
theorem ax_softplus (u : ℝ) : 0 < Real.log (1 + Real.exp u) ∧ u < Real.log (1 + Real.exp u) := by
  have h := Real.exp_pos u
  constructor
  · exact Real.log_pos (by linarith)
  · calc u = Real.log (Real.exp u) := (Real.log_exp u).symm
      _ < Real.log (1 + Real.exp u) := Real.log_lt_log h (by linarith)
/-- tanh through exponentials, as the engine defines it -/
theorem ax_tanh (u : ℝ) : Real.tanh u = (Real.exp (2 * u) - 1) / (Real.exp (2 * u) + 1) := by
  rw [Real.tanh_eq_sinh_div_cosh, Real.sinh_eq, Real.cosh_eq]
  have h1 : Real.exp (2 * u) = Real.exp u * Real.exp u := by rw [← Real.exp_add]; ring_nf
  have h2 : Real.exp (-u) = (Real.exp u)⁻¹ := Real.exp_neg u
  have hp := Real.exp_pos u
  rw [h1, h2]
  field_simp
/-- sigmoid through exponentials lies strictly between 0 and 1 -/
theorem ax_sigmoid (u : ℝ) : 0 < 1 / (1 + Real.exp (-u)) ∧ 1 / (1 + Real.exp (-u)) < 1 := by
  have h := Real.exp_pos (-u)
  constructor
  · positivity
  · rw [div_lt_one (by linarith)]; linarith
theorem ax_arctan (x : ℝ) : -(Real.pi / 2) < Real.arctan x ∧ Real.arctan x < Real.pi / 2 ∧ Real.tan (Real.arctan x) = x :=
  ⟨Real.neg_pi_div_two_lt_arctan x, Real.arctan_lt_pi_div_two x, Real.tan_arctan x⟩
/-- softmax is a point of the open simplex -/
theorem ax_softmax {ι : Type*} (s : Finset ι) (hs : s.Nonempty) (x : ι → ℝ) :
    (∀ i ∈ s, 0 < Real.exp (x i) / ∑ j ∈ s, Real.exp (x j)) ∧ ∑ i ∈ s, Real.exp (x i) / ∑ j ∈ s, Real.exp (x j) = 1 := by
  have hpos : 0 < ∑ j ∈ s, Real.exp (x j) := Finset.sum_pos (fun j _ => Real.exp_pos (x j)) hs
  constructor
  · intro i _; exact div_pos (Real.exp_pos _) hpos
  · rw [← Finset.sum_div]; exact div_self (ne_of_gt hpos)

end NflowsLemmas

-- every theorem above depends only on Lean's standard axioms (no `sorryAx`): printed by lemmas/check.sh
#print axioms NflowsLemmas.lemma_4a
#print axioms NflowsLemmas.lemma_4b
#print axioms NflowsLemmas.lemma_4c
#print axioms NflowsLemmas.lemma_orthogonal_mul
#print axioms NflowsLemmas.lemma_4d_glue
#print axioms NflowsLemmas.lemma_4d_onto
#print axioms NflowsLemmas.lemma_4h
#print axioms NflowsLemmas.lemma_4f_iterated
#print axioms NflowsLemmas.lemma_4e_1d
#print axioms NflowsLemmas.lemma_4g_gaussian
#print axioms NflowsLemmas.ax_tanh
#print axioms NflowsLemmas.ax_softmax
#print axioms NflowsLemmas.ax_softplus
