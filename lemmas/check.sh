#!/bin/sh
# machine-checks lemmas/Lemmas.lean with the pre-installed Lean 4 + Mathlib; fails on any error, `sorry` or non-standard axiom
cd "$(dirname "$0")"
out=$(lean Lemmas.lean 2>&1); rc=$?
echo "$out" | grep -v "^$" | tail -20
if [ $rc -ne 0 ] || echo "$out" | grep -q "sorryAx\|error"; then echo "LEMMAS: FAILED"; exit 1; fi
n=$(grep -c "^theorem" Lemmas.lean)
echo "LEMMAS: $n theorems checked by $(lean --version | head -1)"
