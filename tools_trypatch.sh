#!/bin/sh
# usage: tools_trypatch.sh <patch.diff> <check ids...>   -- applies a seeded change to /repo, runs the checks, always reverts
P="$1"; shift
cd /repo && git apply "$P" || { echo "patch does not apply"; exit 9; }
cd /verif
for c in "$@"; do
  ./check $c 2>&1 | grep -E "^VIOLATION|^UNDECIDED|^CRASH|^KNOWN|^C[0-9]+ \[" | cut -c1-260 | head -8
  echo "  -> exit $?"
done
git -C /repo checkout -- . && git -C /repo status --short | head -3
# evidence files written while a seeded change was applied are not evidence: restore the committed ones
git -C /verif checkout -- evidence 2>/dev/null
